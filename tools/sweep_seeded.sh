#!/bin/bash
# tools/sweep_seeded.sh [P]  -- regression sweep: every filed seeded change against the CURRENT check of its property (scratch worktrees; /repo untouched)
cd /verif
P=${1:-5}
ls -d seeded/C*/*/ | while read d; do id=$(echo $d | cut -d/ -f2); echo "$d $id"; done | \
  xargs -P $P -L1 bash -c 'd=$0; id=$1; out=$(tools/run_mutant.sh $d/patch.diff $id 2>&1 | tail -1); echo "$d $out" | cut -c1-160'
