#!/usr/bin/env python3
"""Prints the prompt handed to a mutation sub-agent for one property (only the property text + scratch worktree)."""
import json, sys
pid = sys.argv[1]
for l in open('/verif/properties.jsonl'):
    p = json.loads(l)
    if p['id'] == pid:
        break
rust = pid in ('C01', 'C02', 'C05', 'C06', 'C11')
print(f"""You are testing how robust a property of the open-source project TheBlueLizard/pi2 is against realistic regressions.
pi2 is a Python proof-generation toolkit (generation/src/proof_generation) for a matching-logic proof checker written in Rust (rust/src/lib.rs); docs are in docs/.

Your own scratch git worktree of the repository is at /tmp/mut/{pid} (work ONLY there and under /tmp/mut_out/{pid}; never touch /repo or /verif, and do not read /verif).

The property (id {pid}): "{p['title']}"
Statement: {p['statement']}
Quantified over: {p['quantifier']['text']}
Relevant files: {', '.join(p['anchors']['files'])}
Mechanisms: {json.dumps(p['anchors'].get('mechanism', []))}

TASK: produce up to 3 DIFFERENT source changes (mutations) to the repository, each of which
  (a) BREAKS the property above (makes the real code violate it for some input / sequence / configuration),
  (b) still compiles/imports, and
  (c) keeps the existing pinned test-suite green: run from the worktree root
        cd /tmp/mut/{pid} && /venv/bin/python -m pytest -q -p no:cacheprovider --timeout=900 --continue-on-collection-errors -x -q generation/src/tests/unit 2>&1 | tail -5
      On the UNCHANGED tree exactly 188 tests pass and 5 always fail / error at collection (test_execution_proof_generation, test_kore_language_semantics,
      integration/rewrite/*, test_mm_parser::test_parse_transfer) -- those 5 are expected; the 188 others must still pass with your change
      (drop -x if collection errors stop the run early; the full suite takes ~5 min, test_mm_* and test_translate are the slow ones; you may run the relevant test files first and the full suite once at the end).
  Prefer changes that need something SPECIFIC to manifest -- an unusual input, a particular nesting (binder inside substitution inside notation ...), a multi-step sequence of
  operations, a corner case (empty map, id 0, equal ids, shadowing), or two cooperating sites that each look fine alone -- NOT ones ordinary use exposes at once.
  Each change should look like a plausible refactoring slip or "optimisation" a maintainer could commit, small (1-10 lines), and the 3 changes should hit different functions / mechanisms.
{'  Rust side: cargo does NOT work in this sandbox (pinned nightly toolchain absent, no network). To compile/run Rust use `rustc +stable` on a harness file that textually includes rust/src/lib.rs with the `#![...]` attribute lines removed and everything from the line `/// Testing` to the end removed, wrapped in `mod checker { ... }` with `extern crate alloc;` at the harness top and a `fn main` that calls e.g. checker::verify(&gamma,&claims,&proof) (make needed items pub via sed or add a pub helper inside the module text). The Python tests do not exercise Rust, so a Rust mutation only has to compile this way. You may mutate the Rust checker, the Python side, or both.' if rust else ''}
For each mutation N (1..3) write into /tmp/mut_out/{pid}/N/ :
   patch.diff   -- `git diff` of the worktree against HEAD for that single mutation (apply each mutation on a clean tree: `git checkout -- .` between mutations)
   demo.py (or demo.sh / demo.rs + demo.sh) -- a small self-contained demonstration that exits 0 / prints PASS on the unchanged tree and exits non-zero / prints FAIL with the mutation applied.
                   It must locate the tree via the environment variable PI2_ROOT (default /repo), e.g. sys.path.insert(0, os.environ.get('PI2_ROOT','/repo') + '/generation/src').
   meta.json    -- {{"property": "{pid}", "summary": "...", "what_it_needs_to_manifest": "...", "files_changed": [...], "tests_run": "<command and pass/fail counts you observed>", "demo_cmd": "..."}}
Confirm yourself: demo passes on clean tree, fails on mutated tree, test suite counts unchanged (188 passed). Leave the worktree clean (git checkout -- .) at the end.
Do not use network. Python for running repo code is /venv/bin/python (3.12). Final answer: a short list of the mutations you produced and where their files are.""")
