#!/usr/bin/env python3
"""tools/seeded_table.py: /verif/seeded/README.md from the confirmation files written by tools/confirm_mutant.sh"""
import glob, json, os, re
rows = []
for d in sorted(glob.glob('/verif/seeded/C*/*/')):
    pid, n = d.rstrip('/').split('/')[-2:]
    conf = open(os.path.join(d, 'confirmation.txt')).read() if os.path.exists(os.path.join(d, 'confirmation.txt')) else ''
    meta = json.load(open(os.path.join(d, 'meta.json'))) if os.path.exists(os.path.join(d, 'meta.json')) else {}
    applies = 'no (obsolete)' if 'DOES NOT APPLY' in conf else ('fuzz' if 'with fuzz' in conf else 'yes')
    t = re.search(r'unit tests on the changed tree: (.*)', conf)
    tests = t.group(1).split(' in ')[0] if t else '-'
    demo = re.search(r'demo on the changed tree: (.*)', conf)
    clean = re.search(r'demo on the clean tree:\s+(.*)', conf)
    checks = re.findall(r'check (C\d+): (.*)', conf)
    viol = re.findall(r'^\s+VIOLATION property=(C\d+) \S+ obligation=(.*)$', conf, re.M)
    caught = sorted({v[0] for v in viol})
    def ex(r):
        m_ = re.search(r'exit=(\d)', r)
        return m_.group(1) if m_ else '?'
    verdicts = '; '.join(c + ': exit=' + ex(r) for c, r in checks)
    rows.append((pid, n, meta.get('summary', '')[:140].replace('|', '/').replace('\n', ' '), applies, tests, (demo.group(1)[:70] if demo else '-').replace('|', '/'),
                 (clean.group(1)[:30] if clean else '-').replace('|', '/'), verdicts, (viol[0][1][:110].replace('|', '/') if viol else '-')))
with open('/verif/seeded/README.md', 'w') as f:
    f.write('# Seeded changes (written by independent sub-agents; confirmed by tools/confirm_mutant.sh on the repaired tree)\n\n')
    f.write('Each directory holds `patch.diff`, the demonstration, the author\'s `meta.json` and `confirmation.txt`.\n'
            '"tests" is the pinned unit suite on the changed tree (baseline: 188 passed, 1 failed, 2 collection errors). exit=1: our check reports a violation; exit=2 undecided; exit=0 missed.\n\n')
    f.write('| id | change | applies | tests on changed tree | demo on changed tree | demo on clean tree | our checks | first obligation reported |\n|---|---|---|---|---|---|---|---|\n')
    for r in rows:
        f.write(f'| {r[0]}/{r[1]} | {r[2]} | {r[3]} | {r[4]} | {r[5]} | {r[6]} | {r[7]} | {r[8]} |\n')
print(len(rows), 'rows')
for r in rows:
    if 'exit=1' not in r[7]: print('NOT CAUGHT / N.A.:', r[0], r[1], r[3], r[7])
