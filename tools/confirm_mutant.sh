#!/bin/bash
# tools/confirm_mutant.sh <ID> <n> [<check ids...>] : confirm one seeded change in a scratch worktree of /repo HEAD and file it under /verif/seeded/<ID>/<n>/
#   1 patch applies  2 the pinned unit tests still pass (188)  3 the demonstration fails on the changed tree and passes on the clean one
#   4 which of our checks report it.   The scratch worktree is removed afterwards; /repo is never touched.
set -u
ID=$1; N=$2; shift 2
CHECKS=${*:-$ID}
src=${MUTSRC:-/verif/seeded}/$ID/$N
dst=/verif/seeded/$ID/${DSTN:-$N}
mkdir -p "$dst"
[ "$src" -ef "$dst" ] || cp "$src"/patch.diff "$src"/meta.json "$dst"/ 2>/dev/null
for f in demo.py demo.sh demo.rs; do [ -f "$src/$f" ] && cp "$src/$f" "$dst"/; done
d=$(mktemp -d /tmp/cm_${ID}_${N}.XXXX); rmdir "$d"
git -C /repo worktree add -q --detach "$d" HEAD || exit 9
res="$dst/confirmation.txt"; : > "$res"
echo "confirmed on: $(git -C /repo rev-parse --short HEAD) (repaired tree)  at $(date -u +%FT%TZ)" >> "$res"
if git -C "$d" apply "$dst/patch.diff" 2>/dev/null; then echo "patch: applies cleanly" >> "$res";
elif (cd "$d" && patch -p1 -F3 -s < "$dst/patch.diff" >/dev/null 2>&1); then echo "patch: applies with fuzz" >> "$res";
else echo "patch: DOES NOT APPLY to the repaired tree (obsolete: the code it changes was rewritten by a fix)" >> "$res"; git -C /repo worktree remove --force "$d"; exit 0; fi
t=$(cd "$d" && timeout 1500 /venv/bin/python -m pytest -q -p no:cacheprovider --timeout=900 --continue-on-collection-errors generation/src/tests/unit 2>&1 | tail -1)
echo "unit tests on the changed tree: $t" >> "$res"
demo=""; [ -f "$dst/demo.sh" ] && demo="bash $dst/demo.sh"; [ -z "$demo" ] && [ -f "$dst/demo.py" ] && demo="/venv/bin/python $dst/demo.py"
if [ -n "$demo" ]; then
  o=$(cd "$d/generation" && PI2_ROOT="$d" PYTHONPATH="$d/generation/src" timeout 600 $demo 2>&1 | tail -4 | cut -c1-300); rc=$?
  echo "demo on the changed tree: $(echo "$o" | tr '\n' '|')" >> "$res"
  o=$(cd /repo/generation && PI2_ROOT=/repo PYTHONPATH=/repo/generation/src timeout 600 $demo 2>&1 | tail -3 | cut -c1-300)
  echo "demo on the clean tree:   $(echo "$o" | tr '\n' '|')" >> "$res"
fi
for c in $CHECKS; do
  out=$(cd /verif && VERIF_EVIDENCE_DIR=$d.ev timeout 3000 ./check "$c" --root "$d" 2>&1 | sed "s#$d#<scratch>#g" | grep -E "^VIOLATION|^UNDECIDED|^ERROR|obligations=" | grep -v KNOWN | cut -c1-260)
  echo "check $c: $(echo "$out" | tail -1)" >> "$res"
  echo "$out" | grep -E "^VIOLATION" | head -3 | sed 's/^/    /' >> "$res"
done
git -C /repo worktree remove --force "$d"; rm -rf "$d.ev"
echo "$ID/$N done"
