#!/bin/bash
# tools/run_mutant.sh <patch.diff> <ID> [<ID>...]  -- applies the patch to a scratch worktree of /repo (HEAD), runs the checks
# against it (the checks re-read all sources from --root), removes the worktree.  /repo itself is never modified.
set -u
patch=$(readlink -f "$1"); shift
d=$(mktemp -d /tmp/scratch_mut.XXXXXX)
rmdir "$d"
git -C /repo worktree add -q --detach "$d" HEAD || exit 9
if ! git -C "$d" apply "$patch" 2>/dev/null && ! (cd "$d" && patch -p1 -F3 -s < "$patch"); then echo "PATCH DOES NOT APPLY"; git -C /repo worktree remove --force "$d"; exit 8; fi
rc=0
for id in "$@"; do
  (cd /verif && VERIF_EVIDENCE_DIR=$d.ev ./check "$id" --root "$d" 2>&1 | sed "s#$d#<scratch>#g" | grep -E "VIOLATION|KNOWN|UNDECIDED|ERROR|obligations=" )
done
git -C /repo worktree remove --force "$d"
rm -rf "$d.ev"
