#!/bin/bash
# tools/run_all.sh [tier]  -- every check registered in MANIFEST.json, one summary line each
cd /verif
tier=${1:-quick}
for p in $(python3-vt -c "import json;print(' '.join(c['property_id'] for c in json.load(open('MANIFEST.json'))['checks']))"); do
  timeout 3000 ./check $p --tier $tier 2>&1 | grep -E "VIOLATION|UNDECIDED|ERROR|obligations=" | cut -c1-250
done
