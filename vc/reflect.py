"""Reflection of a pure, total virtual method of the Pattern hierarchy into a logical function over MPat.

J(p, args..) is DEFINED by the real code's non-Instantiate arms: each class's method body is symbolically executed
with self := p (known to be that constructor) and calls of the same method on sub-patterns replaced by J itself.
This is how 'the answer is a function of the notation-free expansion' becomes a contract clause res == J(expand(self))."""
import z3
from .engine import SV, explore, Unsupported
from .pyfe import Interp
from .sorts import *  # noqa
from .spec import SpecFn
from .contract import Contract, zb, zi

PATTERN_MODULE = 'proof_generation.pattern'


class ReflectError(Exception):
    pass


def reflect_bool_method(repo, method, extra_params=(('name', 'int'),), fname=None):
    fname = fname or ('J_' + method)
    sig = [MPat] + [Int for _ in extra_params] + [Bool]
    J = SpecFn(fname, *sig)
    p = z3.Const('rp', MPat)
    xs = [z3.Int('rx%d' % i) for i, _ in enumerate(extra_params)]

    def selfcall(interp, ctx, args, kwargs=None):
        return SV(J(args[0].t, *[interp.as_int(a) for a in args[1:]]), 'bool')

    class _C:
        name = 'Pattern.' + method

        @staticmethod
        def apply(interp, ctx, args, kwargs=None):
            return selfcall(interp, ctx, args, kwargs)

    body = z3.BoolVal(False)
    for cn in reversed(CTORS):
        func = repo.func(PATTERN_MODULE, f'{cn}.{method}')

        def unit(ctx, cn=cn, func=func):
            interp = Interp(repo, ctx, {'Pattern.' + method: _C}, pat_sort='mpat')
            ctx.known_ctor[p.get_id()] = (p, cn)
            selfv = SV(p, 'mpat')
            return interp.run_function(func, [selfv] + [SV(x, 'int') for x in xs])
        paths = explore(unit, f'reflect:{cn}.{method}')
        arm = None
        for pr in reversed(paths):
            if pr.outcome[0] == 'infeasible':
                continue
            if pr.outcome[0] != 'return':
                raise ReflectError(f'{cn}.{method}: path outcome {pr.outcome}')
            v = pr.outcome[1]
            vt = z3.BoolVal(v) if isinstance(v, bool) else (v.t if isinstance(v, SV) and v.kind == 'bool' else None)
            if vt is None:
                raise ReflectError(f'{cn}.{method}: non-boolean result {v!r}')
            cond = z3.And(*pr.ctx.pc) if pr.ctx.pc else z3.BoolVal(True)
            arm = vt if arm is None else z3.If(cond, vt, arm)
        if arm is None:
            raise ReflectError(f'{cn}.{method}: no path')
        body = z3.If(M.is_(cn, p), arm, body)
    J.define([p] + xs, body, dec=0)
    return J


# ---- Rust side ------------------------------------------------------------------------------------------------------------------
def reflect_rs_bool_methods(prog, names, extra=1):
    """Reflect pure recursive `impl Pattern` predicates (possibly mutually recursive) into logical functions over MPat."""
    from .rsfe import RsInterp
    fns = {}
    for n in names:
        fns[n] = SpecFn('RS_' + n, *([MPat] + [Int] * extra + [Bool]))
    p = z3.Const('rsp', MPat)
    xs = [z3.Int('rsx%d' % i) for i in range(extra)]

    class _C:
        def __init__(self, f):
            self.f = f

        def apply_rs(self, interp, ctx, args):
            return SV(self.f(args[0].t, *[interp.zint(a) for a in args[1:]]), 'bool')
    contracts = {f'Pattern::{n}': _C(f) for n, f in fns.items()}
    for n, J in fns.items():
        fn = prog.fns.get(f'Pattern::{n}')
        if fn is None:
            raise ReflectError(f'Pattern::{n} not found')
        body = z3.BoolVal(False)
        for cn in reversed(CTORS):
            def unit(ctx, cn=cn):
                interp = RsInterp(prog, ctx, contracts)
                ctx.known_ctor[p.get_id()] = (p, cn)
                return interp.run_fn(fn, [SV(x, 'int') for x in xs], selfv=SV(p, 'mpat'))
            paths = explore(unit, f'reflect:Pattern::{n}/{cn}')
            arm = None
            for pr in reversed(paths):
                if pr.outcome[0] == 'infeasible':
                    continue
                if pr.outcome[0] != 'return':
                    raise ReflectError(f'Pattern::{n}/{cn}: path outcome {pr.outcome}')
                v = pr.outcome[1]
                vt = z3.BoolVal(v) if isinstance(v, bool) else (v.t if isinstance(v, SV) and v.kind == 'bool' else None)
                if vt is None:
                    raise ReflectError(f'Pattern::{n}/{cn}: non-boolean result {v!r}')
                cond = z3.And(*pr.ctx.pc) if pr.ctx.pc else z3.BoolVal(True)
                arm = vt if arm is None else z3.If(cond, vt, arm)
            if arm is None:
                raise ReflectError(f'Pattern::{n}/{cn}: no path')
            body = z3.If(M.is_(cn, p), arm, body)
        J.define([p] + xs, body, dec=0)
    return fns


def rs_judgement_contracts(fns):
    """Callers of the four judgements see the reflected logical function (a `function` in Dafny terms)."""
    class _C:
        def __init__(self, f):
            self.f = f

        def apply_rs(self, interp, ctx, args):
            return SV(self.f(interp.deref(args[0]).t, *[interp.zint(a) for a in args[1:]]), 'bool')
    return {f'Pattern::{n}': _C(f) for n, f in fns.items()}
