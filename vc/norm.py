"""Unfolding of spec functions by terminating rewriting.

norm(t): every application f(.., c(..), ..) of a spec function whose decreasing argument is constructor-headed is
replaced by its (simplified) body, innermost first, to a fixpoint.  What remains are 'stuck' applications on
symbolic arguments, which the solver sees as uninterpreted function applications (sound for validity: fewer
facts).  prep() additionally uses recognizer facts of the path condition (is_C(t)) to make t constructor-headed,
and can add one level of definitional case split for stuck applications (`split_depth`)."""
import z3
from .sorts import *  # noqa
from .spec import SpecFn


def _spec_of(t):
    if z3.is_app(t) and t.decl().kind() == z3.Z3_OP_UNINTERPRETED and t.num_args() > 0:
        return SpecFn.REG.get(t.decl().name())
    return None


def _is_ctor_headed(t):
    return z3.is_app(t) and t.decl().kind() == z3.Z3_OP_DT_CONSTRUCTOR


def _occurs(sub, t):
    stack, seen = [t], set()
    while stack:
        e = stack.pop()
        if e.get_id() in seen:
            continue
        seen.add(e.get_id())
        if e.eq(sub):
            return True
        if z3.is_app(e):
            stack.extend(e.children())
    return False


def _rebuild(t, args):
    k = t.decl().kind()
    if k == z3.Z3_OP_AND:
        return z3.And(*args)
    if k == z3.Z3_OP_OR:
        return z3.Or(*args)
    if k == z3.Z3_OP_DISTINCT:
        return z3.Distinct(*args)
    if k == z3.Z3_OP_ADD:
        return z3.Sum(*args)
    if k == z3.Z3_OP_MUL:
        return z3.Product(*args)
    return t.decl()(*args)


RULES = []   # proved rewrite lemmas: (vars, lhs, rhs), installed by solve.prove


def set_rules(lemmas):
    global RULES
    RULES = []
    for l in lemmas or []:
        if getattr(l, 'rewrite', False) and l.proved and z3.is_eq(l.stmt):
            RULES.append((l.vars, l.stmt.arg(0), l.stmt.arg(1)))


def _match(pat, term, varids, binding):
    if z3.is_const(pat) and pat.get_id() in varids:
        b = binding.get(pat.get_id())
        if b is None:
            if pat.sort() != term.sort():
                return False
            binding[pat.get_id()] = term
            return True
        return b.eq(term)
    if not z3.is_app(pat) or not z3.is_app(term):
        return pat.eq(term)
    if not pat.decl().eq(term.decl()) or pat.num_args() != term.num_args():
        return False
    return all(_match(a, b, varids, binding) for a, b in zip(pat.children(), term.children()))


class Normalizer:
    def __init__(self, max_steps=20000):
        self.cache = {}
        self.steps = 0
        self.max_steps = max_steps

    def norm(self, t):
        key = t.get_id()
        r = self.cache.get(key)
        if r is not None:
            return r[1]
        r = self._norm(t)
        self.cache[key] = (t, r)   # keep the key term alive: z3 recycles ast ids of collected terms
        return r

    def _norm(self, t):
        if not z3.is_app(t) or t.num_args() == 0:
            return t
        if z3.is_quantifier(t):
            return t
        # If: normalise the condition first so that decided branches are never expanded
        if t.decl().kind() == z3.Z3_OP_ITE:
            c = z3.simplify(self.norm(t.arg(0)))
            if z3.is_true(c):
                return self.norm(t.arg(1))
            if z3.is_false(c):
                return self.norm(t.arg(2))
            return z3.If(c, self.norm(t.arg(1)), self.norm(t.arg(2)))
        args = [self.norm(a) for a in t.children()]
        f = _spec_of(t)
        if f is not None and f.body is not None and _is_ctor_headed(args[f.dec]):
            self.steps += 1
            if self.steps > self.max_steps:
                raise RuntimeError('normalisation step limit')
            body = z3.substitute(f.body, *list(zip(f.params, args)))
            return self.norm(self._simp_ite(body))
        if f is not None and f.body is not None and z3.is_app(args[f.dec]) and args[f.dec].decl().kind() == z3.Z3_OP_ITE:
            # f(.., If(c, a, b), ..) -> If(c, f(.., a, ..), f(.., b, ..))
            ite = args[f.dec]
            a1 = list(args)
            a1[f.dec] = ite.arg(1)
            a2 = list(args)
            a2[f.dec] = ite.arg(2)
            return z3.If(ite.arg(0), self.norm(f.uf(*a1)), self.norm(f.uf(*a2)))
        if any(not a.eq(b) for a, b in zip(args, t.children())):
            t = _rebuild(t, args)
        k = t.decl().kind()
        if k in (z3.Z3_OP_DT_ACCESSOR, z3.Z3_OP_DT_IS, z3.Z3_OP_DT_RECOGNISER) and _is_ctor_headed(args[0]):
            return z3.simplify(t)
        if k == z3.Z3_OP_UNINTERPRETED:
            for vs, lhs, rhs in RULES:
                if lhs.decl().eq(t.decl()):
                    b = {}
                    if _match(lhs, t, {v.get_id() for v in vs}, b) and len(b) == len(vs):
                        self.steps += 1
                        if self.steps > self.max_steps:
                            raise RuntimeError('normalisation step limit')
                        return self.norm(z3.substitute(rhs, *[(v, b[v.get_id()]) for v in vs]))
        return t

    def _simp_ite(self, body):
        """Resolve the recogniser cascade of a definition body after substitution (cheap, local)."""
        while z3.is_app(body) and body.decl().kind() == z3.Z3_OP_ITE:
            c = z3.simplify(body.arg(0))
            if z3.is_true(c):
                body = body.arg(1)
            elif z3.is_false(c):
                body = body.arg(2)
            else:
                break
        return body


_SHARED = None


def shared_normalizer(reset=False):
    """One normaliser (and its cache) per unit: path conditions are shared by the obligations of a path."""
    global _SHARED
    if _SHARED is None or reset:
        _SHARED = Normalizer(max_steps=2000000)
    return _SHARED


def _recognizer_facts(assumptions):
    """Top-level literals is_C(t) with t not constructor-headed -> {t: C(acc(t)...)}"""
    subs = []
    for a in assumptions:
        if z3.is_app(a) and a.decl().kind() in (z3.Z3_OP_DT_IS, z3.Z3_OP_DT_RECOGNISER):
            t = a.arg(0)
            if _is_ctor_headed(t):
                continue
            sort = t.sort()
            # find the constructor this recogniser belongs to
            for i in range(sort.num_constructors()):
                if sort.recognizer(i).eq(a.decl()) or sort.recognizer(i).name() == a.decl().name() and \
                        str(a.decl().params()) == str(sort.recognizer(i).params()):
                    c = sort.constructor(i)
                    accs = [sort.accessor(i, j)(t) for j in range(c.arity())]
                    subs.append((t, c(*accs) if c.arity() else c()))
                    break
    return subs


def _stuck_apps(es):
    seen, out, stack = set(), [], list(es)
    while stack:
        e = stack.pop()
        i = e.get_id()
        if i in seen:
            continue
        seen.add(i)
        if z3.is_app(e):
            f = _spec_of(e)
            if f is not None and f.body is not None:
                out.append((f, e))
            stack.extend(e.children())
    return out


def prep(assumptions, goal, split_depth=0):
    a, gs = prep_many(assumptions, [goal], split_depth=split_depth)
    return a, gs[0]


def prep_many(assumptions, goals, split_depth=0, normalizer=None):
    """-> (assumptions', goals') with spec functions unfolded."""
    assumptions = list(assumptions)
    goals = list(goals)
    # 1b. equations  t == C(...)  of the path condition (t not constructor-headed, not occurring in the right-hand side) are used left to
    #     right (equals for equals), so that spec functions applied to t can be unfolded by the normaliser
    flat = []
    for a in assumptions:
        if z3.is_and(a):
            flat.extend(a.children())
        else:
            flat.append(a)
    assumptions = flat
    for _ in range(3):
        eqs = []
        for a in assumptions:
            if z3.is_eq(a) and a.num_args() == 2:
                l, r = a.arg(0), a.arg(1)
                if _is_ctor_headed(l) and not _is_ctor_headed(r):
                    l, r = r, l
                if _is_ctor_headed(r) and not _is_ctor_headed(l) and z3.is_app(l) and l.num_args() > 0 and not _occurs(l, r) and not any(l.eq(x) for x, _ in eqs):
                    eqs.append((l, r))
        if not eqs:
            break
        new = []
        changed = False
        for a in assumptions:
            if any(z3.is_eq(a) and ((a.arg(0).eq(l) and a.arg(1).eq(r)) or (a.arg(1).eq(l) and a.arg(0).eq(r))) for l, r in eqs):
                new.append(a)
                continue
            a2 = z3.substitute(a, *eqs)
            changed = changed or not a2.eq(a)
            new.append(a2)
        g2 = [z3.substitute(g, *eqs) for g in goals]
        changed = changed or any(not x.eq(y) for x, y in zip(g2, goals))
        assumptions, goals = new, g2
        if not changed:
            break
    # 1. recogniser facts make their subjects constructor-headed
    for _ in range(8):
        subs = _recognizer_facts(assumptions)
        # only substitute subjects that are not themselves inside another pending subject
        if not subs:
            break
        done = set()
        ssubs = []
        for t, c in subs:
            if t.get_id() in done:
                continue
            done.add(t.get_id())
            ssubs.append((t, c))
        eqs = [t == c for t, c in ssubs]
        assumptions = [a for a in assumptions if not any(a.eq(_rec_fact(t, c)) for t, c in ssubs)]
        assumptions = [z3.substitute(a, *ssubs) for a in assumptions] + eqs
        goals = [z3.substitute(g, *ssubs) for g in goals]
    n = normalizer or Normalizer()
    out = [n.norm(a) for a in assumptions]
    gs = [n.norm(g) for g in goals]
    # 1c. unfolding may have made further right-hand sides constructor-headed (e.g. e == inst(C(..), m)): orient those too and normalise again
    for _ in range(3):
        eqs = []
        for a in out:
            if z3.is_eq(a) and a.num_args() == 2:
                l, r = a.arg(0), a.arg(1)
                if _is_ctor_headed(l) and not _is_ctor_headed(r):
                    l, r = r, l
                if _is_ctor_headed(r) and not _is_ctor_headed(l) and z3.is_app(l) and l.num_args() > 0 and not _occurs(l, r) and not any(l.eq(x) for x, _ in eqs):
                    eqs.append((l, r))
        if not eqs:
            break
        new, changed = [], False
        for a in out:
            if any(z3.is_eq(a) and ((a.arg(0).eq(l) and a.arg(1).eq(r)) or (a.arg(1).eq(l) and a.arg(0).eq(r))) for l, r in eqs):
                new.append(a)
                continue
            a2 = z3.substitute(a, *eqs)
            if not a2.eq(a):
                changed = True
                a2 = n.norm(a2)
            new.append(a2)
        g2 = []
        for g in gs:
            x = z3.substitute(g, *eqs)
            if not x.eq(g):
                changed = True
                x = n.norm(x)
            g2.append(x)
        out, gs = new, g2
        if not changed:
            break
    # 2. optional definitional case split for stuck applications
    extra = []
    cur = out + gs
    for _ in range(split_depth):
        new = []
        for f, app in _stuck_apps(cur):
            body = z3.substitute(f.body, *list(zip(f.params, app.children())))
            new.append(n.norm(app == body) if False else app == body)
        if not new:
            break
        extra.extend(new)
        cur = new
    return out + extra, gs


def _rec_fact(t, c):
    sort = t.sort()
    for i in range(sort.num_constructors()):
        if sort.constructor(i).eq(c.decl()):
            return sort.recognizer(i)(t)
    return z3.BoolVal(True)


def ceval(t):
    """Evaluate a closed term (all decreasing arguments reduce to constructor terms)."""
    return z3.simplify(Normalizer().norm(t))
