"""SM: the spec stack machine of docs/proof-language.md, written from the document (not from the checker).

State: stack (TL, head = top), memory (TL, head = index 0, Save/Publish append), claims (ML, head = top), plus the
remaining input bytes of the current phase (IdL).  step(op) is total: it returns SMState.reject where the document's
machine aborts.  Spec decisions where the document is silent or garbled are listed in SPEC_DECISIONS (reported in evidence).
"""
import z3
from .sorts import *  # noqa
from .spec import *  # noqa
from .spec import _rec, _def, _case, mk_mcap, mk_all_judged, _il, ps_, vs_

SPEC_DECISIONS = [
    'opcode byte values are those of the Python Instruction enum / Instruction::from (the document gives no numbers); 7 = Mu, 8 = Exists',
    'CleanMetaVar (137, not in the document) = MetaVar with five empty lists',
    'ESubst/SSubst: meta-pattern on top of the stack, plug below; Substitution: theorem on top, plug below; ModusPonens: right premise on top',
    'Prop1/Prop2/Prop3 are the Lukasiewicz-style schemata phi0->(phi1->phi0), (phi0->(phi1->phi2))->((phi0->phi1)->(phi0->phi2)), ((phi0->bot)->bot)->phi0',
    'Generalization <x>: premise a->b with x judged fresh in b yields (exists x.a)->b (the document pastes the Quantifier conclusion here)',
    'Substitution <X>: theorem p and plug q yield p[q/X] computed with the deferred (meta-level) substitution; rejected when a traversed binder variable is not judged fresh in q',
    'Instantiate n ids: rejected when fewer than n id bytes remain, when fewer than n patterns are on the stack below the term, when a constraint list of a replaced metavariable is not judged to hold of its plug, or when resolving a pending substitution would capture; app_ctx_holes constraints are NOT checked (known finding)',
    'PropagationOr, PropagationExists, PreFixpoint, Singleton, Frame, KnasterTarski: the document never spells out their schemas / stack effect; the spec machine rejects them',
    'ESubst/SSubst well-formedness: body must be MetaVar|ESubst|SSubst, not redundant (var == plug, or var judged fresh in the body)',
    'Load i: rejected when i is not a valid memory index; Save on an empty stack is rejected; stack underflow and Pattern/Proved confusion are rejected',
    'verify: stack cleared between phases, memory and claims threaded; accepted iff no phase rejects and the claim stack is empty at the end',
]

OPC = {'EVar': 2, 'SVar': 3, 'Symbol': 4, 'Implies': 5, 'App': 6, 'Mu': 7, 'Exists': 8, 'MetaVar': 9, 'ESubst': 10, 'SSubst': 11,
       'Prop1': 12, 'Prop2': 13, 'Prop3': 14, 'Quantifier': 15, 'PropagationOr': 16, 'PropagationExists': 17, 'PreFixpoint': 18,
       'Existence': 19, 'Singleton': 20, 'ModusPonens': 21, 'Generalization': 22, 'Frame': 23, 'Substitution': 24,
       'KnasterTarski': 25, 'Instantiate': 26, 'Pop': 27, 'Save': 28, 'Load': 29, 'Publish': 30, 'CleanMetaVar': 137}
UNDOCUMENTED = ['PropagationOr', 'PropagationExists', 'PreFixpoint', 'Singleton', 'Frame', 'KnasterTarski']
PHASES = {'Gamma': 0, 'Claim': 1, 'Proof': 2}

p, q = z3.Const('p', MPat), z3.Const('q', MPat)
x, y = z3.Int('x'), z3.Int('y')

# ---- the document's judgements ----------------------------------------------------------------------------------------------------
doc_e_fresh = _rec('doc_e_fresh', MPat, I, B)
doc_s_fresh = _rec('doc_s_fresh', MPat, I, B)
doc_positive = _rec('doc_positive', MPat, I, B)
doc_negative = _rec('doc_negative', MPat, I, B)
_def(doc_e_fresh, [p, x], _case(p, [
    ('EVar', lambda n: x != n),
    ('Implies', lambda l, r: z3.And(doc_e_fresh(l, x), doc_e_fresh(r, x))),
    ('App', lambda l, r: z3.And(doc_e_fresh(l, x), doc_e_fresh(r, x))),
    ('Exists', lambda v, s: z3.Or(x == v, doc_e_fresh(s, x))),
    ('Mu', lambda v, s: doc_e_fresh(s, x)),
    ('MetaVar', lambda n, a, b, c, d, e: mem(x, a)),
    ('ESubst', lambda b, v, pl: z3.If(x == v, doc_e_fresh(pl, x), z3.And(doc_e_fresh(b, x), doc_e_fresh(pl, x)))),
    ('SSubst', lambda b, v, pl: z3.And(doc_e_fresh(b, x), doc_e_fresh(pl, x))),
], z3.BoolVal(True)))
_def(doc_s_fresh, [p, x], _case(p, [
    ('SVar', lambda n: x != n),
    ('Implies', lambda l, r: z3.And(doc_s_fresh(l, x), doc_s_fresh(r, x))),
    ('App', lambda l, r: z3.And(doc_s_fresh(l, x), doc_s_fresh(r, x))),
    ('Exists', lambda v, s: doc_s_fresh(s, x)),
    ('Mu', lambda v, s: z3.Or(v == x, doc_s_fresh(s, x))),
    ('MetaVar', lambda n, a, b, c, d, e: mem(x, b)),
    ('ESubst', lambda b, v, pl: z3.And(doc_s_fresh(b, x), doc_s_fresh(pl, x))),
    ('SSubst', lambda b, v, pl: z3.If(x == v, doc_s_fresh(pl, x), z3.And(doc_s_fresh(b, x), doc_s_fresh(pl, x)))),
], z3.BoolVal(True)))


def _plug_pos(b, v, pl):
    return z3.Or(doc_s_fresh(pl, x), z3.And(doc_positive(b, v), doc_positive(pl, x)), z3.And(doc_negative(b, v), doc_negative(pl, x)))


def _plug_neg(b, v, pl):
    return z3.Or(doc_s_fresh(pl, x), z3.And(doc_positive(b, v), doc_negative(pl, x)), z3.And(doc_negative(b, v), doc_positive(pl, x)))


_def(doc_positive, [p, x], _case(p, [
    ('Implies', lambda l, r: z3.And(doc_negative(l, x), doc_positive(r, x))),
    ('App', lambda l, r: z3.And(doc_positive(l, x), doc_positive(r, x))),
    ('Exists', lambda v, s: doc_positive(s, x)),
    ('Mu', lambda v, s: z3.Or(x == v, doc_positive(s, x))),
    ('MetaVar', lambda n, a, b, c, d, e: mem(x, c)),
    ('ESubst', lambda b, v, pl: z3.And(doc_positive(b, x), doc_s_fresh(pl, x))),
    ('SSubst', lambda b, v, pl: z3.If(x == v, _plug_pos(b, v, pl), z3.And(doc_positive(b, x), _plug_pos(b, v, pl)))),
], z3.BoolVal(True)))
_def(doc_negative, [p, x], _case(p, [
    ('SVar', lambda n: x != n),
    ('Implies', lambda l, r: z3.And(doc_positive(l, x), doc_negative(r, x))),
    ('App', lambda l, r: z3.And(doc_negative(l, x), doc_negative(r, x))),
    ('Exists', lambda v, s: doc_negative(s, x)),
    ('Mu', lambda v, s: z3.Or(x == v, doc_negative(s, x))),
    ('MetaVar', lambda n, a, b, c, d, e: mem(x, d)),
    ('ESubst', lambda b, v, pl: z3.And(doc_negative(b, x), doc_s_fresh(pl, x))),
    ('SSubst', lambda b, v, pl: z3.If(x == v, _plug_neg(b, v, pl), z3.And(doc_negative(b, x), _plug_neg(b, v, pl)))),
], z3.BoolVal(True)))
DOC_J = {'e_fresh': doc_e_fresh, 's_fresh': doc_s_fresh, 'positive': doc_positive, 'negative': doc_negative}
doc_mcap_e, doc_mcap_s = mk_mcap(doc_e_fresh, doc_s_fresh, 'doc')
from .spec import mk_inst_ok  # noqa: E402
doc_inst_ok, DOC_ALLS = None, None


def _mk_doc_inst_ok():
    global doc_inst_ok, DOC_ALLS
    # same shape as the checker-side predicate, over the document's judgements
    import vc.spec as S
    alls = {k: mk_all_judged('doc_all_' + k, DOC_J[k]) for k in DOC_J}
    ok = _rec('doc_inst_ok', MPat, IdL, ML, B)

    def mv(n, a, b, c, d, e):
        plug = ml_nth(ps_, il_index(vs_, n))
        return z3.Implies(mem(n, vs_), z3.And(il_index(vs_, n) < ml_len(ps_), alls['e_fresh'](a, plug), alls['s_fresh'](b, plug),
                                              alls['positive'](c, plug), alls['negative'](d, plug)))

    def sub(mc):
        def f(b, v, pl):
            hit = z3.Or(mv_hit(b, vs_), mv_hit(pl, vs_))
            dl = mzip(vs_, ps_)
            return z3.And(ok(b, vs_, ps_), ok(pl, vs_, ps_), z3.Implies(hit, z3.Not(mc(minst_rs(b, dl), v, minst_rs(pl, dl)))))
        return f
    _def(ok, [p, vs_, ps_], _case(p, [
        ('Implies', lambda l, r: z3.And(ok(l, vs_, ps_), ok(r, vs_, ps_))),
        ('App', lambda l, r: z3.And(ok(l, vs_, ps_), ok(r, vs_, ps_))),
        ('Exists', lambda v, s: ok(s, vs_, ps_)),
        ('Mu', lambda v, s: ok(s, vs_, ps_)),
        ('MetaVar', mv),
        ('ESubst', sub(doc_mcap_e)),
        ('SSubst', sub(doc_mcap_s)),
    ], z3.BoolVal(True)))
    doc_inst_ok, DOC_ALLS = ok, alls


_mk_doc_inst_ok()

# ---- schemata ------------------------------------------------------------------------------------------------------------------------
NIL = IDL.mk('inil')


def MV(i):
    return M.mk('MetaVar', i, NIL, NIL, NIL, NIL, NIL)


def IMP(a, b):
    return M.mk('Implies', a, b)


BOT = M.mk('Mu', 0, M.mk('SVar', 0))


def NOT(a):
    return IMP(a, BOT)


PROP1 = IMP(MV(0), IMP(MV(1), MV(0)))
PROP2 = IMP(IMP(MV(0), IMP(MV(1), MV(2))), IMP(IMP(MV(0), MV(1)), IMP(MV(0), MV(2))))
PROP3 = IMP(NOT(NOT(MV(0))), MV(0))
QUANTIFIER_IMPL = IMP(M.mk('ESubst', MV(0), 0, M.mk('EVar', 1)), M.mk('Exists', 0, MV(0)))            # what checker and generator use
QUANTIFIER_DOC = IMP(M.mk('ESubst', M.mk('MetaVar', 0, idl(1), NIL, NIL, NIL, NIL), 0, M.mk('EVar', 1)),
                     M.mk('Exists', 0, M.mk('MetaVar', 0, idl(1), NIL, NIL, NIL, NIL)))                 # document: phi has y fresh
EXISTENCE = M.mk('Exists', 0, M.mk('EVar', 0))

# ---- operand readers -------------------------------------------------------------------------------------------------------------------
n_ = z3.Int('n_')
rest_ = z3.Const('rest_', IdL)
acc_ = z3.Const('acc_', IdL)
# read_n(n, rest, acc): n bytes appended to acc, or rfail if the input is shorter
read_n = _rec('read_n', I, IdL, IdL, ReadRes)
_def(read_n, [n_, rest_, acc_], z3.If(n_ <= 0, RDR.mk('rdone', acc_, rest_),
                                      z3.If(IDL.is_('inil', rest_), RDR.mk('rfail'),
                                            read_n(n_ - 1, IDL.get('icons', 'itl', rest_), il_snoc(acc_, IDL.get('icons', 'ihd', rest_))))),
     dec=1)


def read_list(rest):
    """length-prefixed list: (ok, list, rest')"""
    ok0 = z3.Not(IDL.is_('inil', rest))
    r = read_n(IDL.get('icons', 'ihd', rest), IDL.get('icons', 'itl', rest), NIL)
    ok = z3.And(ok0, RDR.is_('rdone', r))
    return ok, RDR.get('rdone', 'r_list', r), RDR.get('rdone', 'r_rest', r)


stk_ = z3.Const('stk_', TL)
ids_ = z3.Const('ids_', IdL)
plugs_ = z3.Const('plugs_', ML)
# take_acc(n, rest, stack, ids, plugs): read n ids and pop n patterns (top first)
take_acc = _rec('take_acc', I, IdL, TL, IdL, ML, TakeRes)
_def(take_acc, [n_, rest_, stk_, ids_, plugs_],
     z3.If(n_ <= 0, TKR.mk('tdone', ids_, plugs_, rest_, stk_),
           z3.If(z3.Or(IDL.is_('inil', rest_), TLs.is_('tnil', stk_), z3.Not(TRM.is_('Pat', TLs.get('tcons', 'thd', stk_)))), TKR.mk('tfail'),
                 take_acc(n_ - 1, IDL.get('icons', 'itl', rest_), TLs.get('tcons', 'ttl', stk_),
                          il_snoc(ids_, IDL.get('icons', 'ihd', rest_)),
                          ml_snoc(plugs_, TRM.get('Pat', 'pat', TLs.get('tcons', 'thd', stk_)))))), dec=1)


# ---- one step per opcode: (ok, stack', mem', claims', rest') -------------------------------------------------------------------------
def _top(S):
    return TLs.get('tcons', 'thd', S)


def _pop(S):
    return TLs.get('tcons', 'ttl', S)


def _has(S, n):
    c = []
    cur = S
    for _ in range(n):
        c.append(TLs.is_('tcons', cur))
        cur = _pop(cur)
    return z3.And(*c) if c else z3.BoolVal(True)


def _pat(t):
    return TRM.get('Pat', 'pat', t)


def _prf(t):
    return TRM.get('Prf', 'prf', t)


def _push(S, t):
    return TLs.mk('tcons', t, S)


def _byte(rest):
    return z3.Not(IDL.is_('inil', rest)), IDL.get('icons', 'ihd', rest), IDL.get('icons', 'itl', rest)


def wf_subst(kind, b, v, pl):
    J = doc_e_fresh if kind == 'e' else doc_s_fresh
    var = M.mk('EVar' if kind == 'e' else 'SVar', v)
    return z3.And(z3.Or(M.is_('MetaVar', b), M.is_('ESubst', b), M.is_('SSubst', b)), pl != var, z3.Not(J(b, v)))


def step(op, phase, S, Mm, C, rest, quantifier=QUANTIFIER_IMPL):
    """op: opcode name; phase: 'Gamma'|'Claim'|'Proof'.  Returns (ok, S', M', C', rest') as z3 terms."""
    T = z3.BoolVal(True)
    if op in ('EVar', 'SVar', 'Symbol'):
        ok, b, r = _byte(rest)
        return ok, _push(S, TRM.mk('Pat', M.mk(op, b))), Mm, C, r
    if op in ('Implies', 'App'):
        ok = z3.And(_has(S, 2), TRM.is_('Pat', _top(S)), TRM.is_('Pat', _top(_pop(S))))
        return ok, _push(_pop(_pop(S)), TRM.mk('Pat', M.mk(op, _pat(_top(_pop(S))), _pat(_top(S))))), Mm, C, rest
    if op in ('Exists', 'Mu'):
        okb, b, r = _byte(rest)
        ok = z3.And(okb, _has(S, 1), TRM.is_('Pat', _top(S)))
        if op == 'Mu':
            ok = z3.And(ok, doc_positive(_pat(_top(S)), b))
        return ok, _push(_pop(S), TRM.mk('Pat', M.mk(op, b, _pat(_top(S))))), Mm, C, r
    if op == 'MetaVar':
        okb, b, r = _byte(rest)
        oks, lists = [okb], []
        for _ in range(5):
            o, l, r = read_list(r)
            oks.append(o)
            lists.append(l)
        wf = z3.Not(il_intersects(lists[4], lists[0]))
        return z3.And(*oks, wf), _push(S, TRM.mk('Pat', M.mk('MetaVar', b, *lists))), Mm, C, r
    if op == 'CleanMetaVar':
        ok, b, r = _byte(rest)
        return ok, _push(S, TRM.mk('Pat', MV(b))), Mm, C, r
    if op in ('ESubst', 'SSubst'):
        okb, b, r = _byte(rest)
        pat, plug = _pat(_top(S)), _pat(_top(_pop(S)))
        ok = z3.And(okb, _has(S, 2), TRM.is_('Pat', _top(S)), TRM.is_('Pat', _top(_pop(S))),
                    wf_subst('e' if op == 'ESubst' else 's', pat, b, plug))
        return ok, _push(_pop(_pop(S)), TRM.mk('Pat', M.mk(op, pat, b, plug))), Mm, C, r
    if op in ('Prop1', 'Prop2', 'Prop3', 'Quantifier', 'Existence'):
        sch = {'Prop1': PROP1, 'Prop2': PROP2, 'Prop3': PROP3, 'Quantifier': quantifier, 'Existence': EXISTENCE}[op]
        return T, _push(S, TRM.mk('Prf', sch)), Mm, C, rest
    if op == 'ModusPonens':
        p2, p1 = _prf(_top(S)), _prf(_top(_pop(S)))
        ok = z3.And(_has(S, 2), TRM.is_('Prf', _top(S)), TRM.is_('Prf', _top(_pop(S))), M.is_('Implies', p1),
                    M.get('Implies', 'left', p1) == p2)
        return ok, _push(_pop(_pop(S)), TRM.mk('Prf', M.get('Implies', 'right', p1))), Mm, C, rest
    if op == 'Generalization':
        okb, b, r = _byte(rest)
        pr = _prf(_top(S))
        l, rt = M.get('Implies', 'left', pr), M.get('Implies', 'right', pr)
        ok = z3.And(okb, _has(S, 1), TRM.is_('Prf', _top(S)), M.is_('Implies', pr), doc_e_fresh(rt, b))
        return ok, _push(_pop(S), TRM.mk('Prf', IMP(M.mk('Exists', b, l), rt))), Mm, C, r
    if op == 'Substitution':
        okb, b, r = _byte(rest)
        thm, plug = _prf(_top(S)), _pat(_top(_pop(S)))
        ok = z3.And(okb, _has(S, 2), TRM.is_('Prf', _top(S)), TRM.is_('Pat', _top(_pop(S))), z3.Not(doc_mcap_s(thm, b, plug)))
        return ok, _push(_pop(_pop(S)), TRM.mk('Prf', msubst_s_rs(thm, b, plug))), Mm, C, r
    if op == 'Instantiate':
        okb, n, r = _byte(rest)
        t = _top(S)
        tk = take_acc(n, r, _pop(S), NIL, MLs.mk('lnil'))
        ids, plugs = TKR.get('tdone', 't_ids', tk), TKR.get('tdone', 't_plugs', tk)
        body = z3.If(TRM.is_('Pat', t), _pat(t), _prf(t))
        ok = z3.And(okb, _has(S, 1), TKR.is_('tdone', tk), doc_inst_ok(body, ids, plugs))
        new = z3.If(mv_hit(body, ids), minst_rs(body, mzip(ids, plugs)), body)
        nt = z3.If(TRM.is_('Pat', t), TRM.mk('Pat', new), TRM.mk('Prf', new))
        return ok, _push(TKR.get('tdone', 't_stack', tk), nt), Mm, C, TKR.get('tdone', 't_rest', tk)
    if op == 'Pop':
        return _has(S, 1), _pop(S), Mm, C, rest
    if op == 'Save':
        return _has(S, 1), S, tl_snoc(Mm, _top(S)), C, rest
    if op == 'Load':
        okb, b, r = _byte(rest)
        ok = z3.And(okb, b >= 0, b < tl_len(Mm))
        return ok, _push(S, tl_nth(Mm, b)), Mm, C, r
    if op == 'Publish':
        if phase == 'Gamma':
            ok = z3.And(_has(S, 1), TRM.is_('Pat', _top(S)))
            return ok, _pop(S), tl_snoc(Mm, TRM.mk('Prf', _pat(_top(S)))), C, rest
        if phase == 'Claim':
            ok = z3.And(_has(S, 1), TRM.is_('Pat', _top(S)))
            return ok, _pop(S), Mm, MLs.mk('lcons', _pat(_top(S)), C), rest
        ok = z3.And(MLs.is_('lcons', C), _has(S, 1), TRM.is_('Prf', _top(S)), MLs.get('lcons', 'lhd', C) == _prf(_top(S)))
        return ok, _pop(S), Mm, MLs.get('lcons', 'ltl', C), rest
    return z3.BoolVal(False), S, Mm, C, rest


# ---- whole-phase run as a recursive spec function (one per phase) ------------------------------------------------------------------------
S_ = z3.Const('S_', TL)
M_ = z3.Const('M_', TL)
C_ = z3.Const('C_', ML)
RUN = {}


def _mk_run(phase, quantifier=QUANTIFIER_IMPL):
    f = _rec('sm_run_' + phase, IdL, TL, TL, ML, SMState)
    byte = IDL.get('icons', 'ihd', rest_)
    tail = IDL.get('icons', 'itl', rest_)
    body = SMS.mk('reject')
    for op, code in sorted(OPC.items(), key=lambda kv: -kv[1]):
        if op in UNDOCUMENTED:
            continue
        ok, S2, M2, C2, r2 = step(op, phase, S_, M_, C_, tail, quantifier)
        body = z3.If(byte == code, z3.If(ok, f(r2, S2, M2, C2), SMS.mk('reject')), body)
    _def(f, [rest_, S_, M_, C_], z3.If(IDL.is_('inil', rest_), SMS.mk('st', S_, M_, C_), body), dec=0)
    return f


for _ph in PHASES:
    RUN[_ph] = _mk_run(_ph)
