"""Running units (explore + discharge) in a process pool and collecting plain-data results."""
import multiprocessing as mp
import os
import time
import traceback
import z3
from . import engine, solve, lemmas as lem
from .sorts import *  # noqa


class Unit:
    def __init__(self, name, fn, kind='code', info=None, use_lemmas=True, max_paths=400):
        self.name = name
        self.fn = fn            # fn(ctx)
        self.kind = kind        # code | lemma | ground
        self.info = info or {}
        self.use_lemmas = use_lemmas
        self.max_paths = max_paths


def term_to_data(t):
    """Concrete z3 value -> nested python data (ctor name, children...) / int / bool."""
    if z3.is_int_value(t):
        return t.as_long()
    if z3.is_true(t):
        return True
    if z3.is_false(t):
        return False
    if z3.is_app(t):
        k = t.decl().kind()
        if k == z3.Z3_OP_DT_CONSTRUCTOR:
            return (t.decl().name(),) + tuple(term_to_data(c) for c in t.children())
    return ('?', t.sexpr())


def _mv_ids(d, acc):
    if isinstance(d, tuple):
        if d and d[0] in ('PMetaVar', 'MetaVar') and isinstance(d[1], int):
            acc.add(d[1])
        for x in d[1:]:
            _mv_ids(x, acc)


def decode_model(model, inputs):
    from .spec import sigma
    out = {}
    for name, sv in inputs.items():
        if isinstance(sv, engine.SV):
            try:
                out[name] = term_to_data(model.eval(sv.t, model_completion=True))
            except z3.Z3Exception as e:
                out[name] = ('?', str(e))
    ids = {0, 1, 2}
    for v in list(out.values()):
        _mv_ids(v, ids)
    for i in sorted(ids):
        try:
            out[f'$sigma:{i}'] = term_to_data(model.eval(sigma(z3.IntVal(i)), model_completion=True))
        except z3.Z3Exception:
            pass
    return out


_LIB = None
_UNITS = None
_OPTS = {}


def _proved_lib():
    return [l for l in (_LIB or {}).values() if l.proved]


def run_unit(unit, seed=0, both=False):
    t0 = time.time()
    res = {'unit': unit.name, 'kind': unit.kind, 'paths': 0, 'obligations': [], 'unsupported': [], 'covers': [],
           'outcomes': {}, 'error': None}
    try:
        if unit.kind == 'lemma':
            lm = unit.info['lemma']
            for arm, v in lem.prove_lemma(lm, _LIB, seed=seed):
                model = None
                if v.status == 'refuted' and getattr(v, 'inputs', None):
                    model = decode_model(v.model, {k: engine.SV(t, 'term') for k, t in v.inputs.items()})
                res['obligations'].append({'name': arm, 'status': v.status, 'backend': v.backend, 'seconds': v.seconds,
                                           'kind': 'lemma', 'model': model, 'detail': v.detail})
            res['paths'] = 1
            res['seconds'] = time.time() - t0
            return res
        from . import norm as _norm
        _norm.shared_normalizer(reset=True)
        lem.reset_memo()
        paths = engine.explore(unit.fn, unit.name, max_paths=unit.max_paths)
        for p in paths:
            o = p.outcome[0]
            res['outcomes'][o] = res['outcomes'].get(o, 0) + 1
            todo_obs = p.ctx.obligations
            if o == 'unsupported':
                res['unsupported'].append(p.outcome[1])
                # frame obligations raised BEFORE the construct the front end could not execute stand on their own (the path up to there is real)
                todo_obs = [ob for ob in p.ctx.obligations if ob.info.get('kind') == 'frame']
                if not todo_obs:
                    continue
            if o == 'infeasible':
                continue
            if o != 'unsupported':
                res['paths'] += 1
                res['covers'].extend(p.ctx.covers)
            missing = [d for d in p.ctx.lemma_deps if not (_LIB or {}).get(d) or not _LIB[d].proved]
            if missing:
                res['unsupported'].append('path condition uses unproved lemma(s): ' + ', '.join(sorted(missing)))
                continue
            groups = {}
            for ob in todo_obs:
                groups.setdefault(len(ob.assumptions), []).append(ob)
            for _, obs in sorted(groups.items()):
                vs = solve.prove_group(obs[0].assumptions, [ob.goal for ob in obs], seed=seed, both=both,
                                       lemmas=[l for l in _proved_lib() if l.name not in unit.info.get('lib_exclude', ())] if unit.use_lemmas else None,
                                       split_depth=unit.info.get('split_depth', 1))
                for ob, v in zip(obs, vs):
                    model = decode_model(v.model, p.ctx.inputs) if v.status == 'refuted' else None
                    res['obligations'].append({'name': ob.name, 'status': v.status, 'backend': v.backend,
                                               'seconds': v.seconds, 'kind': ob.info.get('kind', 'post'), 'model': model,
                                               'detail': v.detail, 'path': ''.join('T' if d else 'F' for d in p.trace),
                                               'info': {k: str(x) for k, x in ob.info.items()}})
        if unit.kind != 'lemma' and res['paths'] == 0 and not res['unsupported']:
            res['error'] = 'vacuous unit: no feasible path (contradictory requires?)'
    except Exception:
        res['error'] = traceback.format_exc()
    res['seconds'] = time.time() - t0
    return res


class UnitTimeout(BaseException):
    pass


UNIT_TIMEOUT_S = int(os.environ.get('VC_UNIT_TIMEOUT_S', '600'))


def _worker(i):
    import signal
    u = _UNITS[i]

    def on_alarm(sig, frm):
        raise UnitTimeout()
    signal.signal(signal.SIGALRM, on_alarm)
    signal.alarm(UNIT_TIMEOUT_S)
    try:
        return run_unit(u, **_OPTS)
    except UnitTimeout:
        # path explosion (typically on a changed tree): undecided, never a verdict
        return {'unit': u.name, 'kind': u.kind, 'paths': 0, 'obligations': [], 'unsupported': [f'unit time limit of {UNIT_TIMEOUT_S}s exceeded'],
                'covers': [], 'outcomes': {}, 'error': None, 'seconds': float(UNIT_TIMEOUT_S)}
    finally:
        signal.alarm(0)


def run_all(units, lib=None, jobs=None, seed=0, both=False):
    """Lemma units first (sequentially cheap, in pool), then code units with the proved lemmas available."""
    global _LIB, _UNITS, _OPTS
    _LIB = lib or {}
    _OPTS = {'seed': seed, 'both': both}
    jobs = jobs or min(16, os.cpu_count() or 4)
    lemma_units = [u for u in units if u.kind == 'lemma']
    code_units = [u for u in units if u.kind != 'lemma']
    results = []
    # lemmas are proved in the parent so that `proved` flags are inherited by forked workers
    for u in lemma_units:
        results.append(run_unit(u, seed=seed, both=both))
    _UNITS = code_units
    if code_units:
        if jobs == 1 or len(code_units) == 1:
            results.extend(run_unit(u, seed=seed, both=both) for u in code_units)
        else:
            ctxm = mp.get_context('fork')
            with ctxm.Pool(min(jobs, len(code_units))) as pool:
                results.extend(pool.map(_worker, range(len(code_units)), chunksize=1))
    return results


def lemma_units(lib, names=None):
    out, seen = [], set()
    for n, l in lib.items():
        if n in seen or (names is not None and n not in names):
            continue
        for g in [l] + l.companions:
            seen.add(g.name)
        out.append(Unit('lemma:' + n, None, kind='lemma', info={'lemma': l}))
    return out
