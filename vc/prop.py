"""Property-level orchestration: run units, map verdicts, replay, known findings, evidence, exit code.

Exit codes: 0 held (after KNOWN-FINDING lines) / 1 violation (VIOLATION line) / 2 undecided / 3 checker error."""
import hashlib
import json
import os
import sys
import time
import traceback
import z3
from . import run as runmod
from . import replay as rp
from .engine import SV
from .sorts import *  # noqa

VERIF = os.path.dirname(os.path.dirname(os.path.abspath(__file__)))
EVDIR = os.environ.get('VERIF_EVIDENCE_DIR') or os.path.join(VERIF, 'evidence')


class FnTarget:
    """Replay / bounded-search information for a unit that checks one real python function against a contract."""

    def __init__(self, module, qualname, contract, arm=None, call=None, prelude='', enum=None, sigma_ids=(0, 1)):
        self.module = module
        self.qualname = qualname
        self.contract = contract
        self.arm = arm
        self.call = call          # callable(argexprs: dict name->python source) -> python expression calling the real code
        self.prelude = prelude
        self.enum = enum          # callable(tier, rng) -> iterable of dict name->data   (bounded stand-in inputs)
        self.sigma_ids = sigma_ids

    def default_call(self, ax):
        names = [p[0] for p in self.contract.params]
        meth = self.qualname.split('.')[-1]
        if names and names[0] == 'self':
            return f"({ax['self']}).{meth}({', '.join(ax[n] for n in names[1:])})"
        return f"{self.qualname}({', '.join(ax[n] for n in names)})"

    def expr(self, inputs):
        ax = {}
        for p in self.contract.params:
            n, k = p[0], p[1]
            if n in inputs and inputs[n] is not None:
                ax[n] = rp.data_to_py(inputs[n])
            elif isinstance(k, tuple) and k[0] == 'obj':
                fs = ', '.join(f"{f}={rp.data_to_py(inputs[n + '.' + f])}" for f in k[3] if (n + '.' + f) in inputs)
                ax[n] = f'{k[2]}({fs})'
            else:
                ax[n] = 'None'
        return (self.call or self.default_call)(ax)

    def values(self, inputs):
        a = {}
        for p in self.contract.params:
            n, k = p[0], p[1]
            d = inputs.get(n)
            if isinstance(k, str) and k in ('ppat', 'mpat', 'pmap', 'idl', 'int', 'bool', 'name'):
                a[n] = SV(rp.data_to_term(d, k), k) if d is not None else None
            elif isinstance(k, tuple) and k[0] == 'obj':
                from .pyfe import Obj
                attrs = {}
                for f, fk in k[3].items():
                    fd = inputs.get(n + '.' + f)
                    attrs[f] = SV(rp.data_to_term(fd, fk), fk) if fd is not None and isinstance(fk, str) else fd
                a[n] = Obj(None, attrs)
            else:
                a[n] = d
        return a

    def eval_clauses(self, inputs, real, sigma):
        """-> list of (label, True|False|None) for the contract's ensures on the real outcome."""
        a = self.values(inputs)
        out = []
        if not real['ok']:
            nr = self.contract.noraise_if(a) if self.contract.noraise_if else None
            if nr is not None:
                v = rp.ceval_with(nr, rp.Interp0(sigma))
                out.append((f"noraise[{real['exc']}]", False if z3.is_true(v) else (True if z3.is_false(v) else None)))
            elif not self.contract.may_raise:
                out.append((f"noraise[{real['exc']}]", False))
            return out
        res = rp.data_to_value(rp.repr_to_data(real['repr']))
        try:
            clauses = self.contract.ensures(a, res)
        except Exception as e:   # shape mismatch = the real result is not even of the contract's result type
            return [('shape', False)]
        for label, c in clauses:
            v = rp.ceval_with(c, rp.Interp0(sigma))
            out.append((label, True if z3.is_true(v) else (False if z3.is_false(v) else None)))
        return out

    def requires_hold(self, inputs, sigma=None):
        a = self.values(inputs)
        for label, c in self.contract.requires(a):
            v = rp.ceval_with(c, rp.Interp0(sigma or {}))
            if not z3.is_true(v):
                return False
        return True


class PropSpec:
    def __init__(self, pid, units, lib=None, targets=None, trusted=None, assumptions=None, functions=None,
                 extra_checks=None, notes=None, regions=None):
        self.pid = pid
        self.units = units
        self.lib = lib or {}
        self.targets = targets or {}     # unit name -> FnTarget
        self.trusted = trusted or []
        self.assumptions = assumptions or []
        self.functions = functions or []   # (file, qualname)
        self.extra_checks = extra_checks or []   # callables(tier, seed) -> list of result dicts (ground / bounded checks)
        self.notes = notes or []
        self.lemma_replayers = {}


def load_known():
    p = os.path.join(VERIF, 'known_findings.json')
    if not os.path.exists(p):
        return []
    return json.load(open(p))


def replay_witness(k, root):
    """-> True if the recorded witness of an open known finding still shows the defect on the real code."""
    if k.get('witness_py'):
        r = rp.run_real([{'setup': k.get('witness_setup', ''), 'expr': k['witness_py']}], prelude=k.get('witness_prelude', ''), root=root)[0]
        return bool(r['ok'] and r['repr'] == 'True')
    if k.get('witness_rs'):
        from .rsreal import RustReal
        rr = RustReal(root)
        try:
            out = rr.run([k['witness_rs']])[0]
        finally:
            rr.close()
        return (out[0] + ' ' + out[1]).strip() == k['witness_rs_defect']
    return None


def label_of(obname):
    # '<unit>/post:sound' -> 'sound'
    tail = obname.split('/')[-1]
    return tail.split(':', 1)[1] if ':' in tail else tail


def confirm_model(target, ob, root):
    """Replay the solver's counterexample on the real code.  -> (confirmed, record)"""
    model = ob.get('model') or {}
    inputs = {k: v for k, v in model.items() if not k.startswith('$')}
    sigma = {int(k[7:]): v for k, v in model.items() if k.startswith('$sigma:')}
    rec = {'inputs': {k: repr(v) for k, v in inputs.items()}, 'sigma': {str(k): repr(v) for k, v in sigma.items()}}
    try:
        if not target.requires_hold(inputs, sigma):
            rec['note'] = 'model violates the precondition when evaluated concretely (abstract callee / stuck spec term)'
            return False, rec
        expr = target.expr(inputs)
        rec['expr'] = expr
        real = rp.run_real([{'expr': expr}], prelude=target.prelude, root=root)[0]
        rec['real'] = real
        want = label_of(ob['name'])
        for label, val in target.eval_clauses(inputs, real, sigma):
            if val is False and (label == want or want.startswith('noraise') and label.startswith('noraise')):
                rec['failed_clause'] = label
                return True, rec
        rec['note'] = 'clause holds on the real code for the model inputs'
    except Exception as e:
        rec['note'] = 'replay error: ' + repr(e)
    return False, rec


def bounded_search(target, want_label, tier, seed, root, budget=None):
    """Enumerate small real inputs against the contract; -> (witness record | None, evaluated count)."""
    import random
    rng = random.Random(seed)
    if target.enum is None:
        return None, 0
    cases = list(target.enum(tier, rng))
    budget = budget or (1500 if tier == 'quick' else 12000)
    if len(cases) > budget:
        cases = rng.sample(cases, budget)
    cases = [c for c in cases if target.requires_hold(c)]
    jobs = [{'expr': target.expr(c)} for c in cases]
    n = 0
    grounds = rp.ground_patterns()
    for i in range(0, len(jobs), 500):
        reals = rp.run_real(jobs[i:i + 500], prelude=target.prelude, root=root)
        for c, real in zip(cases[i:i + 500], reals):
            sigmas = [{}]
            if any(target.contract.name.endswith(s) for s in ('evar_is_free',)) or want_label == 'sound':
                sigmas = [dict(zip(target.sigma_ids, combo)) for combo in
                          rng.sample([(a, b) for a in grounds for b in grounds], 10)]
            for sg in sigmas:
                n += 1
                for label, val in target.eval_clauses(c, real, sg):
                    if val is False and (want_label is None or label == want_label or
                                         (want_label.startswith('noraise') and label.startswith('noraise'))):
                        return {'inputs': {k: repr(v) for k, v in c.items()}, 'sigma': {str(k): repr(v) for k, v in sg.items()},
                                'expr': target.expr(c), 'real': real, 'failed_clause': label}, n
    return None, n


def write_json(path, obj):
    os.makedirs(os.path.dirname(path), exist_ok=True)
    with open(path, 'w') as f:
        json.dump(obj, f, indent=1, default=str)


def run_property(spec, tier='quick', seed=0, root='/repo', jobs=None):
    t0 = time.time()
    pid = spec.pid
    both = tier == 'thorough'
    results = runmod.run_all(spec.units, spec.lib, jobs=jobs, seed=seed, both=both)
    extra = []
    from .replay import DriverError
    for chk in spec.extra_checks:
        try:
            extra.extend(chk(tier, seed))
        except DriverError as e:
            extra.append({'undecided': [(f'{pid}/bounded', str(e))]})
    known = [k for k in load_known() if k.get('property') == pid]
    open_known = [k for k in known if k.get('status', 'open') == 'open']
    lines = []
    violations = []
    undecided = []
    errors = []
    known_hit = []
    obligations = 0
    discharged = 0
    backend_count = {}
    solver_s = 0.0
    samples = []
    per_unit = []
    bstats = {}
    for r in results:
        if r['error']:
            errors.append((r['unit'], r['error']))
            continue
        if r['unsupported']:
            why = 'unsupported: ' + '; '.join(sorted(set(r['unsupported']))[:3])
            target = spec.targets.get(r['unit'])
            w, n = None, 0
            ub = getattr(spec, 'unit_bounded', None)
            if target is None and ub is not None:
                try:
                    w, n = ub(r['unit'], tier, seed)
                except Exception as e:
                    why += f' (bounded stand-in failed: {e!r})'
            if target is not None:
                # the front end cannot lower this (changed) function: bounded stand-in on the real code, same contract
                try:
                    w, n = bounded_search(target, None, tier, seed, root)
                except Exception as e:
                    why += f' (bounded stand-in failed: {e!r})'
            if w is not None:
                violations.append((r, {'name': f"{r['unit']}/bounded:{w['failed_clause']}", 'status': 'refuted-bounded',
                                       'backend': 'bounded enumeration on real code', 'model': None, 'detail': why,
                                       'confirmed': True, 'replay': w}))
            else:
                undecided.append((r['unit'], why + f' (bounded stand-in: {n} real evaluations, no failing input)'))
        n_ok = 0
        bdesc = getattr(spec, 'bounded_units', {}).get(r['unit'])
        for ob in r['obligations']:
            if bdesc is None:
                obligations += 1
            solver_s += ob['seconds']
            if ob['status'] == 'proved':
                if bdesc is None:
                    discharged += 1
                else:
                    # a unit that fixes a size (e.g. |delta| <= 3): a bounded stand-in, reported but never counted as proved
                    bstats.setdefault(r['unit'], {'kind': bdesc, 'obligations_discharged_within_bound': 0})['obligations_discharged_within_bound'] += 1
                    continue
                n_ok += 1
                backend_count[ob['backend']] = backend_count.get(ob['backend'], 0) + 1
                if len(samples) < 6 and ob['kind'] != 'lemma':
                    samples.append({'obligation': ob['name'], 'status': 'proved', 'backend': ob['backend'],
                                    'seconds': round(ob['seconds'], 4)})
            elif ob['status'] == 'unknown':
                undecided.append((ob['name'], 'solver: ' + ob.get('detail', '')))
            else:
                violations.append((r, ob))
        per_unit.append({'unit': r['unit'], 'paths': r['paths'], 'obligations': len(r['obligations']), 'proved': n_ok,
                         'seconds': round(r.get('seconds', 0), 3)})
    for x in extra:
        obligations += x.get('obligations', 0)
        discharged += x.get('discharged', 0)
        for v in x.get('violations', []):
            violations.append((None, v))
        for u in x.get('undecided', []):
            undecided.append(u)
    # ---- refuted obligations: replay / bounded search / known findings -------------------------------------------------
    final_viol = []
    replay_dir = os.path.join(EVDIR, 'replay', pid)
    seen_names = set()
    for r, ob in violations:
        name = ob['name']
        if name in seen_names:
            continue
        seen_names.add(name)
        rec = {'property': pid, 'obligation': name, 'solver': {'status': ob.get('status'), 'backend': ob.get('backend'),
                                                               'model': ob.get('model'), 'detail': ob.get('detail')}}
        confirmed = ob.get('confirmed', False)
        if 'replay' in ob:
            rec['replay'] = ob['replay']
        target = spec.targets.get(r['unit']) if r else None
        lr = None
        for pref, fnr in getattr(spec, 'lemma_replayers', {}).items():
            if name.startswith(pref):
                lr = fnr
        if lr is not None and not confirmed and ob.get('model'):
            try:
                confirmed, rec['replay'] = lr(name, ob['model'], root)
            except Exception as e:
                rec['replay'] = {'note': 'replay error: ' + repr(e)}
        if target is not None and not confirmed:
            ok, rr = confirm_model(target, ob, root)
            rec['replay'] = rr
            confirmed = ok
            if not confirmed:
                try:
                    # a frame breach shows in whichever clause the shared state corrupts: any failing clause is its witness
                    w, n = bounded_search(target, None if name.split('/')[-1].startswith('frame:') else label_of(name), tier, seed, root)
                except Exception as e:
                    w, n = None, 0
                    rec['bounded_error'] = repr(e)
                rec['bounded_evaluated'] = n
                if w is not None:
                    rec['replay'] = w
                    confirmed = True
        rec['confirmed_on_real_code'] = confirmed
        # known finding?
        hit = None
        for k in open_known:
            if k.get('obligation') == name or (k.get('obligation_prefix') and name.startswith(k['obligation_prefix'])):
                hit = k
                break
        if hit is not None:
            known_hit.append((hit, name))
            continue
        fn = hashlib.sha1(name.encode()).hexdigest()[:12] + '.json'
        path = os.path.join(replay_dir, fn)
        rr_ = rec.get('replay')
        if isinstance(rr_, dict) and rr_.get('expr') in rp.PRELUDE_OF and 'prelude' not in rr_:
            rr_['prelude'], rr_['setup'] = rp.PRELUDE_OF[rr_['expr']]
        write_json(path, rec)
        final_viol.append((name, path, confirmed))
    # ---- open known findings whose failing class is excluded from the obligations (region): replay the witness on the real code ----
    for k in open_known:
        if not k.get('witness_py') and not k.get('witness_rs'):
            continue
        try:
            still = replay_witness(k, root)
        except Exception as e:
            still = None
            print(f"NOTE property={pid} known finding {k.get('id')}: witness could not be replayed ({e!r})")
        if still:
            known_hit.append((k, k.get('obligation', k.get('id'))))
        elif still is False:
            print(f"NOTE property={pid} known finding {k.get('id')} is stale: its witness no longer fails on this tree")
    # ---- report -------------------------------------------------------------------------------------------------------------
    printed_known = set()
    for k, name in known_hit:
        key = k.get('id', k.get('obligation'))
        if key in printed_known:
            continue
        printed_known.add(key)
        print(f"KNOWN-FINDING: property={pid} {k.get('what', name)}")
    status = 0
    for name, path, confirmed in final_viol:
        suffix = '' if confirmed else ' no-failing-input-found'
        print(f'VIOLATION property={pid} replay={path} obligation={name}{suffix}')
        status = 1
    if errors:
        for u, e in errors:
            print(f'ERROR property={pid} unit={u}\n{e}', file=sys.stderr)
        if status == 0:
            status = 3
    if undecided and status == 0:
        for n, why in undecided[:20]:
            print(f'UNDECIDED property={pid} {n}: {why}')
        status = 2
    if obligations == 0 and status == 0:
        print(f'ERROR property={pid}: zero obligations generated')
        status = 3
    wall = time.time() - t0
    ev = {
        'property_id': pid, 'tier': tier, 'seed': seed, 'level': getattr(spec, 'level', 'proof'),
        'coverage': {
            'obligations': obligations, 'discharged': discharged,
            'checker_cmd': f'./check {pid} --tier {tier}',
            'trusted_base': spec.trusted,
            'backends': backend_count, 'solver_seconds': round(solver_s, 3),
            'functions_under_contract': spec.functions,
            'units': per_unit,
            'samples': samples,
            'known_findings_reported': [k.get('what') for k, _ in known_hit],
            'bounded_standins': [x.get('bounded') for x in extra if x.get('bounded')] + [dict(v, unit=k) for k, v in bstats.items()],
            'undecided': [f'{n}: {w}' for n, w in undecided],
            **{k: v for x in extra for k, v in (x.get('coverage') or {}).items()},
            **(getattr(spec, 'coverage_extra', None) or {}),
            'notes': spec.notes,
        },
        'assumptions': spec.assumptions,
        'wall_s': round(wall, 3),
        'violations': len(final_viol),
    }
    write_json(os.path.join(EVDIR, f'{pid}.json'), ev)
    print(f'{pid}: obligations={obligations} discharged={discharged} violations={len(final_viol)} '
          f'known={len(printed_known)} undecided={len(undecided)} wall={wall:.1f}s exit={status}')
    return status


def replay_file(path, root):
    """./check <ID> --replay <file>: re-run the recorded real-code witness on the current tree.
    exit 1 if the recorded failing outcome is reproduced, 0 if the outcome differs (no longer fails), 2 if the file carries no executable witness."""
    rec = json.load(open(path))
    r = rec.get('replay') or {}
    print(f"REPLAY property={rec.get('property')} obligation={rec.get('obligation')}")
    if isinstance(r, dict) and r.get('gamma') is not None:
        from .rsreal import RustReal
        rr = RustReal(root)
        try:
            out = rr.run(['verify ' + ' '.join((r.get(k) or '-') for k in ('gamma', 'claim', 'proof'))])[0]
        finally:
            rr.close()
        print(f"  real checker on the recorded files: {out[0]} {out[1]}")
        return 1 if out[0] != 'OK' else 0
    if isinstance(r, dict) and r.get('expr') and 'prelude' in r:
        real = rp.run_real([{'expr': r['expr'], 'setup': r.get('setup', '')}], prelude=r['prelude'], root=root)[0]
        was = r.get('real') or {}
        print(f"  expression: {r['expr'][:200]}")
        print(f"  recorded : {str(was.get('repr') if was.get('ok') else was.get('exc'))[:300]}")
        print(f"  now      : {str(real.get('repr') if real.get('ok') else real.get('exc'))[:300]}")
        same = (real.get('ok') == was.get('ok')) and ((real.get('repr') == was.get('repr')) if real.get('ok') else (real.get('exc') == was.get('exc')))
        print('  the recorded failing outcome is reproduced' if same else '  the outcome differs from the recorded one')
        return 1 if same else 0
    print('  the file carries no executable witness (no-failing-input-found): solver output follows')
    print('  ' + json.dumps(rec.get('solver'))[:1500])
    return 2
