"""Path exploration by re-execution, symbolic values, obligations.

A *unit* is a Python callable `fn(ctx)` (usually: symbolically execute one real function / one arm under its
contract).  explore(fn) runs it once per feasible path: every symbolic branch consults the decision prefix of
the current run; unexplored alternatives are queued.  State mutated by the executed code is ordinary Python
state of that run, so no state merging or copying is needed.
"""
import itertools
import time
import z3
from . import solve
from .sorts import *  # noqa


class Unsupported(Exception):
    """The front end cannot lower a construct: the unit is UNDECIDED (never a violation)."""


class Infeasible(Exception):
    """Current path condition became unsatisfiable (after an assume)."""


class PathEnd(Exception):
    """The path ends here on purpose (e.g. the inductive step of a loop under contract is complete)."""


class SymRaise(Exception):
    """The executed code raised an exception (abrupt outcome)."""

    def __init__(self, cls, msg='', where=''):
        super().__init__(cls, msg, where)
        self.cls = cls
        self.msg = msg
        self.where = where


class SV:
    """Symbolic value: a z3 term plus the Python-level kind it stands for."""
    __slots__ = ('t', 'kind', 'meta')

    def __init__(self, t, kind, meta=None):
        self.t = t
        self.kind = kind  # int | bool | ppat | mpat | idl | pmap | mmap | name | intset | term | tlist ...
        self.meta = meta

    def __repr__(self):
        return f'SV<{self.kind}:{self.t}>'


SORT_OF_KIND = {'int': Int, 'bool': Bool, 'ppat': PPat, 'mpat': MPat, 'idl': IdL, 'pmap': PMap, 'mmap': MMap,
                'name': Int, 'intset': z3.SetSort(Int), 'term': Term, 'tlist': TL, 'mlist': ML,
                'stack': TL, 'mem': TL, 'claims': ML, 'str': IdL, 'char': Int, 'intlist': IdL, 'plist': PTL, 'pclaims': PCL, 'bytes': IdL, 'pterm': PTerm}


class Obligation:
    def __init__(self, name, assumptions, goal, info=None):
        self.name = name
        self.assumptions = list(assumptions)
        self.goal = goal
        self.info = info or {}
        self.verdict = None


class Ctx:
    def __init__(self, prefix, unit_name, opts=None):
        self.prefix = list(prefix)
        self.pos = 0
        self.trace = []
        self.pc = []            # list of z3 Bool
        self.pending = []       # alternative prefixes discovered in this run
        self.obligations = []
        self.counter = itertools.count()
        self.unit = unit_name
        self.opts = opts or {}
        self.inputs = {}        # name -> SV   (for model decoding / replay)
        self.notes = []
        self.known_ctor = {}    # z3 ast id -> ctor name (facts already on the path)
        self.covers = []        # reachability covers
        self.lemma_deps = set()

    # ---- symbols ------------------------------------------------------------------------------------------
    def fresh(self, kind, hint='v', meta=None):
        n = next(self.counter)
        return SV(z3.Const(f'{hint}!{n}', SORT_OF_KIND[kind]), kind, meta)

    def input(self, kind, name, meta=None):
        v = SV(z3.Const(name, SORT_OF_KIND[kind]), kind, meta)
        self.inputs[name] = v
        return v

    # ---- path condition -------------------------------------------------------------------------------------
    def assume(self, cond):
        if z3.is_true(cond):
            return
        self.pc.append(cond)

    def lemma_fact(self, lemma_name, formula):
        """Add an instance of a library lemma to the path condition (the run fails if that lemma is not proved in this run)."""
        self.lemma_deps.add(lemma_name)
        self.pc.append(formula)

    def check_feasible(self):
        if not solve.feasible(self.pc):
            raise Infeasible()

    def nz(self, t):
        """normal form of a term (spec functions unfolded on constructor-headed arguments)"""
        from . import norm
        if getattr(self, '_nz', None) is None:
            self._nz = norm.Normalizer(max_steps=2000000)
        return self._nz.norm(t)

    def branch(self, cond, label=''):
        """Fork on a z3 Bool; returns the Python bool chosen for this run."""
        cond = z3.simplify(self.nz(cond))
        if z3.is_true(cond):
            return True
        if z3.is_false(cond):
            return False
        if self.pos < len(self.prefix):
            d = self.prefix[self.pos]
        else:
            t_ok = solve.feasible(self.pc + [cond])
            f_ok = solve.feasible(self.pc + [z3.Not(cond)])
            if t_ok and f_ok:
                self.pending.append(self.trace + [False])
                d = True
            elif t_ok:
                d = True
            elif f_ok:
                d = False
            else:
                raise Infeasible()
        self.pos += 1
        self.trace.append(d)
        self.pc.append(cond if d else z3.simplify(z3.Not(cond)))
        return d

    def choose(self, n, label=''):
        """Non-deterministic choice among n alternatives (no condition attached)."""
        for i in range(n - 1):
            b = z3.Bool(f'choice!{next(self.counter)}')
            if self.branch(b, label):
                return i
        return n - 1

    # ---- obligations ------------------------------------------------------------------------------------------
    def oblige(self, name, goal, **info):
        self.obligations.append(Obligation(f'{self.unit}/{name}', self.pc, goal, info))

    def cover(self, name):
        self.covers.append(name)


class PathResult:
    def __init__(self, trace, outcome, ctx, error=None):
        self.trace = trace
        self.outcome = outcome   # ('return', value) | ('raise', cls) | ('infeasible',) | ('unsupported', msg)
        self.ctx = ctx
        self.error = error


def explore(fn, unit_name, opts=None, max_paths=400):
    """Run fn(ctx) once per feasible path.  fn returns normally or raises SymRaise; both are outcomes."""
    todo = [[]]
    results = []
    while todo:
        prefix = todo.pop()
        ctx = Ctx(prefix, unit_name, opts)
        try:
            val = fn(ctx)
            out = ('return', val)
        except SymRaise as e:
            out = ('raise', e.cls, e.msg, e.where)
        except PathEnd:
            out = ('pathend',)
        except Infeasible:
            out = ('infeasible',)
        except Unsupported as e:
            out = ('unsupported', str(e))
        except (TypeError, AttributeError, KeyError, IndexError, ValueError, NotImplementedError, z3.Z3Exception) as e:
            # the symbolic executor itself tripped over a construct of the (possibly changed) source: a front-end limit, never a verdict
            import traceback as _tb
            last = _tb.extract_tb(e.__traceback__)[-1]
            out = ('unsupported', f'front end failed on this source: {type(e).__name__}: {str(e)[:120]} ({last.filename.split("/")[-1]}:{last.lineno})')
        todo.extend(ctx.pending)
        results.append(PathResult(ctx.trace, out, ctx))
        if len(results) > max_paths:
            results.append(PathResult([], ('unsupported', f'more than {max_paths} paths'), ctx))
            break
    return results


def discharge(ob, seed=0, both=False):
    t0 = time.time()
    ob.verdict = solve.prove(ob.assumptions, ob.goal, seed=seed, both=both)
    return ob.verdict
