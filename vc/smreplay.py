"""Concrete evaluation of the spec machine and differential replay against the real checker (harness)."""
import z3
from .sorts import *  # noqa
from . import sm, norm, replay as rp
from .rsreal import RustReal, data_to_tokens, parse_debug


def tl_list(d):
    out = []
    while d[0] == 'tcons':
        out.append(d[1])
        d = d[2]
    return out


def ml_list(d):
    out = []
    while d[0] == 'lcons':
        out.append(d[1])
        d = d[2]
    return out


def il_list(d):
    out = []
    while d[0] == 'icons':
        out.append(d[1])
        d = d[2]
    return out


def term_to_z3(t):
    return TRM.mk(t[0], rp.data_to_term(t[1], 'mpat'))


def mk_tl(items):
    r = TLs.mk('tnil')
    for t in reversed(items):
        r = TLs.mk('tcons', term_to_z3(t), r)
    return r


def mk_ml(items):
    r = MLs.mk('lnil')
    for t in reversed(items):
        r = MLs.mk('lcons', rp.data_to_term(t, 'mpat'), r)
    return r


def sm_run(phase, bytes_, stack, mem, claims):
    """stack/claims: top first; mem: index 0 first.  -> None (reject) or (stack, mem, claims) as data"""
    from .run import term_to_data
    r = norm.ceval(sm.RUN[phase](idl(*bytes_), mk_tl(stack), mk_tl(mem), mk_ml(claims)))
    d = term_to_data(r)
    if d[0] == 'reject':
        return None
    if d[0] != 'st':
        return ('?', str(r))
    return (tl_list(d[1]), tl_list(d[2]), ml_list(d[3]))


def exec_cmd(phase, bytes_, stack, mem, claims):
    def terms(ts):
        return ' '.join(('P ' if t[0] == 'Pat' else 'R ') + data_to_tokens(t[1]) for t in ts)
    hexs = ''.join('%02x' % (b % 256) for b in bytes_) or '-'
    return (f"exec {sm.PHASES[phase]} {hexs} S {len(stack)} {terms(stack)} M {len(mem)} {terms(mem)} "
            f"C {len(claims)} {' '.join(data_to_tokens(c) for c in claims)}")


def parse_state(text):
    """'STACK [..] MEMORY [..] CLAIMS [..]' -> (stack top first, mem, claims top first)"""
    i, j = text.index('MEMORY'), text.index('CLAIMS')
    st = parse_debug(text[len('STACK'):i].strip())
    me = parse_debug(text[i + len('MEMORY'):j].strip())
    cl = parse_debug(text[j + len('CLAIMS'):].strip())
    stack = list(reversed(st[1:]))
    mem = list(me[1:])
    claims = list(reversed(cl[1:]))
    return stack, mem, claims


def in_u8(d):
    if isinstance(d, bool):
        return True
    if isinstance(d, int):
        return 0 <= d <= 255
    if isinstance(d, tuple):
        return all(in_u8(x) for x in d[1:])
    return True


def differential(rr, phase, bytes_, stack, mem, claims):
    """-> (agree: bool, record)"""
    exp = sm_run(phase, bytes_, stack, mem, claims)
    cmd = exec_cmd(phase, bytes_, stack, mem, claims)
    out = rr.run([cmd])[0]
    rec = {'command': cmd, 'real': list(out), 'spec_machine': repr(exp)}
    if out[0] == 'PANIC':
        return exp is None, rec
    got = parse_state(out[1])
    rec['real_state'] = repr(got)
    if exp is None:
        return False, rec
    return (list(got[0]) == list(exp[0]) and list(got[1]) == list(exp[1]) and list(got[2]) == list(exp[2])), rec
