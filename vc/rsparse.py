"""rsparse -- a small hand-written tokenizer + recursive-descent / precedence-climbing parser for the
subset of Rust used by the non-test part of /repo/rust/src/lib.rs (pure stdlib).

Public API
    parse_file(path) -> [item]          parse_source(text) -> [item]
    parse_expr(text) / parse_pattern(text) / parse_type(text) / parse_block(text)   (snippet helpers)
    find_fn(items, name, impl=None) -> fn item | None        walk(node) -> iterator over all dict nodes
    strip_lines(node) -> copy of the AST without 'line' keys (handy for comparisons)
    ParseError (message starts with 'line N: ')

The AST is made of plain dicts/lists (JSON-serialisable); every node has 'k' (kind) and 'line'.
Types are kept as strings: the type's tokens joined by one space ('& Rc < Pattern >', 'Vec < Rc < Pattern > >').
'line' is the line of the node's first token, except for postfix nodes (mcall/field/call/index/try), where it
is the line of the method name / field name / '(' / '[' / '?' token (so chained calls on several lines differ).
A `#[cfg(test)] mod x { .. }` is not parsed: its braces are skipped and 'items' is None.
"""
import re

__all__ = ['parse_file', 'parse_source', 'parse_expr', 'parse_pattern', 'parse_type', 'parse_block',
           'find_fn', 'walk', 'strip_lines', 'tokenize', 'ParseError']


class ParseError(Exception):
    pass


# ------------------------------------------------------------------------------------------ tokenizer
class Tok:
    """kind: id | int | float | str | char | life | p (punctuation) | eof;  s/e = source offsets."""
    __slots__ = ('kind', 'text', 'line', 's', 'e')

    def __init__(self, kind, text, line, s, e):
        self.kind, self.text, self.line, self.s, self.e = kind, text, line, s, e

    def __repr__(self):
        return f'Tok({self.kind},{self.text!r},l{self.line})'


_IDENT = re.compile(r'[^\W\d]\w*')
_NUM = re.compile(r'0x[0-9a-fA-F_]+|0o[0-7_]+|0b[01_]+|[0-9][0-9_]*')
_DIGITS = re.compile(r'[0-9][0-9_]*')
_EXP = re.compile(r'[eE][+-]?[0-9][0-9_]*')
_RAWSTR = re.compile(r'b?r(#*)"')
_INT = re.compile(r'^(0x[0-9a-fA-F_]+|0o[0-7_]+|0b[01_]+|[0-9][0-9_]*)([^\W\d]\w*)?$')
_PUNCT = {3: {'<<=', '>>=', '...', '..='},
          2: {'::', '->', '=>', '==', '!=', '<=', '>=', '&&', '||', '+=', '-=', '*=', '/=', '%=', '^=', '&=',
              '|=', '<<', '>>', '..'},
          1: set('+-*/%^!&|=<>@.,;:#$?~()[]{}')}


def tokenize(src):
    """Token list ending with an 'eof' token.  Comments and doc comments are dropped."""
    toks, i, n, line = [], 0, len(src), 1

    def add(kind, end):
        nonlocal i, line
        text = src[i:end]
        toks.append(Tok(kind, text, line, i, end))
        line += text.count('\n')
        i = end

    def bad(msg):
        raise ParseError(f'line {line}: {msg}')

    while i < n:
        c = src[i]
        if c == '\n':
            line += 1
            i += 1
        elif c.isspace():
            i += 1
        elif src.startswith('//', i):
            j = src.find('\n', i)
            i = n if j < 0 else j
        elif src.startswith('/*', i):                       # nested block comments
            depth, j = 1, i + 2
            while j < n and depth:
                if src.startswith('/*', j):
                    depth, j = depth + 1, j + 2
                elif src.startswith('*/', j):
                    depth, j = depth - 1, j + 2
                else:
                    j += 1
            if depth:
                bad('unterminated block comment')
            line += src.count('\n', i, j)
            i = j
        elif (m := _RAWSTR.match(src, i)):                  # r"..", r#".."#, br".."
            close = '"' + m.group(1)
            j = src.find(close, m.end())
            if j < 0:
                bad('unterminated raw string')
            add('str', j + len(close))
        elif c == '"' or src.startswith('b"', i):
            j = i + (1 if c == '"' else 2)
            while j < n and src[j] != '"':
                j += 2 if src[j] == '\\' else 1
            if j >= n:
                bad('unterminated string literal')
            add('str', j + 1)
        elif c == "'" or src.startswith("b'", i):           # char literal or lifetime / label
            q = i if c == "'" else i + 1
            if src[q + 1:q + 2] == '\\':
                j = src.find("'", q + 3)
                if j < 0:
                    bad('unterminated char literal')
                add('char', j + 1)
            elif src[q + 2:q + 3] == "'":
                add('char', q + 3)
            else:
                m = _IDENT.match(src, q + 1) if c == "'" else None
                if not m:
                    bad('bad char literal / lifetime')
                add('life', m.end())
        elif (m := _IDENT.match(src, i)):
            add('id', m.end())
        elif (m := _NUM.match(src, i)):
            j, kind = m.end(), 'int'
            dec = src[i:i + 2] not in ('0x', '0o', '0b')
            after_dot = bool(toks) and toks[-1].kind == 'p' and toks[-1].text == '.'   # tuple index `t.0.1`
            if dec and not after_dot:
                if src[j:j + 1] == '.' and (m2 := _DIGITS.match(src, j + 1)):
                    j, kind = m2.end(), 'float'
                elif src[j:j + 1] == '.' and src[j + 1:j + 2] != '.' and not _IDENT.match(src, j + 1):
                    j, kind = j + 1, 'float'
                if (m3 := _EXP.match(src, j)):
                    j, kind = m3.end(), 'float'
            if not after_dot and (m4 := _IDENT.match(src, j)):                        # suffix: u8, usize, f64..
                j = m4.end()
                if dec and m4.group()[0] == 'f':
                    kind = 'float'
            add(kind, j)
        else:
            for ln in (3, 2, 1):
                if src[i:i + ln] in _PUNCT[ln]:
                    add('p', i + ln)
                    break
            else:
                bad(f'unexpected character {c!r}')
    toks.append(Tok('eof', '<eof>', line, n, n))
    return toks


# --------------------------------------------------------------------------------------------- parser
KEYWORDS = {'as', 'async', 'await', 'break', 'const', 'continue', 'crate', 'dyn', 'else', 'enum', 'extern', 'false',
            'fn', 'for', 'if', 'impl', 'in', 'let', 'loop', 'match', 'mod', 'move', 'mut', 'pub', 'ref', 'return',
            'self', 'Self', 'static', 'struct', 'super', 'trait', 'true', 'type', 'unsafe', 'use', 'where', 'while'}
PATH_KW = {'self', 'Self', 'super', 'crate'}
EXPR_KW = PATH_KW | {'if', 'match', 'while', 'for', 'loop', 'unsafe', 'return', 'break', 'continue', 'move', 'true',
                     'false', 'async'}
EXPR_PUNCT = {'(', '[', '-', '*', '!', '&', '&&', '|', '||', '..', '..=', '<', '::'}
ITEM_KW = {'fn', 'struct', 'enum', 'impl', 'type', 'use', 'static', 'mod', 'trait', 'pub', 'extern'}
P_AS, P_CMP, P_RANGE, P_ASSIGN = 14, 7, 4, 2
BINOPS = {'*': 13, '/': 13, '%': 13, '+': 12, '-': 12, '<<': 11, '>>': 11, '&': 10, '^': 9, '|': 8,
          '==': P_CMP, '!=': P_CMP, '<': P_CMP, '>': P_CMP, '<=': P_CMP, '>=': P_CMP, '&&': 6, '||': 5}
ASSIGN_OPS = {'=', '+=', '-=', '*=', '/=', '%=', '^=', '&=', '|=', '<<=', '>>='}
BLOCKLIKE_KW = {'if', 'match', 'while', 'for', 'loop'}
STRICT_MACROS = ('assert', 'debug_assert')   # (prefixes) argument parse failures are errors; also vec!/matches!
OPEN, CLOSE = {'(', '[', '{'}, {')', ']', '}'}


def node(k, line, **kw):
    d = {'k': k, 'line': line}
    d.update(kw)
    return d


class Parser:
    def __init__(self, toks, src):
        self.t, self.src, self.i = toks, src, 0
        self.no_struct = False      # True while parsing an if/while/match/for head: `{` does not start a struct literal

    # ---- token helpers
    def peek(self, k=0):
        return self.t[min(self.i + k, len(self.t) - 1)]

    def at(self, text, k=0):
        t = self.peek(k)
        return t.text == text and t.kind in ('p', 'id')

    def adv(self):
        t = self.t[self.i]
        if t.kind != 'eof':
            self.i += 1
        return t

    def eat(self, text):
        return self.adv() if self.at(text) else None

    def err(self, msg, tok=None):
        raise ParseError(f'line {(tok or self.peek()).line}: {msg}')

    def expect(self, text):
        if not self.at(text):
            self.err(f'expected `{text}`, found `{self.peek().text}`')
        return self.adv()

    def ident(self):
        t = self.peek()
        if t.kind != 'id' or (t.text in KEYWORDS and t.text not in PATH_KW):
            self.err(f'expected identifier, found `{t.text}`')
        return self.adv().text

    def split(self, first):
        """Split the current multi-char punctuation token (`>>`, `>=`, `&&`, ..) after its prefix `first`."""
        t = self.peek()
        k = len(first)
        self.t[self.i:self.i + 1] = [Tok('p', first, t.line, t.s, t.s + k), Tok('p', t.text[k:], t.line, t.s + k, t.e)]

    def expect_gt(self):
        if self.peek().kind == 'p' and self.peek().text in ('>>', '>=', '>>='):
            self.split('>')
        self.expect('>')

    def amp(self):
        """At `&` or `&&` (split): consume one `&`."""
        if self.at('&&'):
            self.split('&')
        self.expect('&')

    def unrestricted(self, fn, *a):
        old, self.no_struct = self.no_struct, False
        try:
            return fn(*a)
        finally:
            self.no_struct = old

    def restricted(self, fn, *a):
        old, self.no_struct = self.no_struct, True
        try:
            return fn(*a)
        finally:
            self.no_struct = old

    def delimited(self):
        """At an opening delimiter: skip the balanced group; return (first_inner_idx, close_idx)."""
        op = self.peek()
        if not (op.kind == 'p' and op.text in OPEN):
            self.err(f'expected a delimiter, found `{op.text}`')
        self.adv()
        start, depth = self.i, 1
        while depth:
            t = self.adv()
            if t.kind == 'eof':
                self.err('unclosed delimiter', op)
            if t.kind == 'p':
                depth += (t.text in OPEN) - (t.text in CLOSE)
        return start, self.i - 1

    def raw(self, start, end):
        """Source text of tokens [start, end)."""
        return self.src[self.t[start].s:self.t[end - 1].e] if end > start else ''

    def joined(self, start):
        return ' '.join(t.text for t in self.t[start:self.i])

    def sub(self, start, end):
        eof = Tok('eof', '<end of macro>', self.t[end].line, self.t[end].s, self.t[end].s)
        return Parser(self.t[start:end] + [eof], self.src)

    def at_eof(self):
        return self.peek().kind == 'eof'

    # ---- items
    def file(self):
        items = []
        while not self.at_eof():
            if self.at('#') and self.at('!', 1):
                line = self.adv().line
                self.adv()
                s, e = self.delimited()
                items.append(node('inner_attr', line, text=self.raw(s, e)))
            else:
                items.append(self.item(self.outer_attrs()))
        return items

    def outer_attrs(self):
        attrs = []
        while self.at('#') and self.at('[', 1):
            self.adv()
            s, e = self.delimited()
            attrs.append(self.raw(s, e))
        return attrs

    def at_item(self):
        t = self.peek()
        if t.kind != 'id':
            return False
        if t.text in ITEM_KW:
            return True
        if t.text == 'const':
            return not self.at('{', 1)
        if t.text in ('unsafe', 'async'):
            return self.peek(1).text in ('fn', 'impl', 'trait', 'extern')
        return t.text == 'macro_rules' and self.at('!', 1)

    def item(self, attrs):
        line = self.peek().line
        pub = bool(self.eat('pub'))
        if pub and self.at('('):
            self.delimited()                                 # pub(crate)
        if self.at('extern') and self.at('crate', 1):
            self.adv(), self.adv()
            name = self.ident()
            if self.eat('as'):
                self.ident()
            self.expect(';')
            return node('extern_crate', line, name=name)
        while True:                                          # fn qualifiers: const unsafe async extern "C"
            if self.at('unsafe') or self.at('async') or (self.at('const') and self.peek(1).text in
                                                          ('fn', 'unsafe', 'async', 'extern')):
                self.adv()
            elif self.at('extern'):
                self.adv()
                if self.peek().kind == 'str':
                    self.adv()
                if self.at('{'):
                    s, e = self.delimited()
                    return node('extern_block', line, raw=self.raw(s, e), attrs=attrs)
            else:
                break
        t = self.peek()
        kw = t.text if t.kind == 'id' else None
        if kw == 'fn':
            return self.fn_item(attrs, pub, line)
        if kw in ('enum', 'struct'):
            return self.adt_item(attrs, pub, line)
        if kw == 'impl':
            return self.impl_item(attrs, line)
        if kw == 'trait':
            self.adv()
            name = self.ident()
            generics = self.generics() if self.at('<') else None
            self.skip_until('{', ';')
            return node('trait', line, name=name, generics=generics, items=self.item_list(), attrs=attrs, pub=pub)
        if kw == 'type':
            self.adv()
            name = self.ident()
            generics = self.generics() if self.at('<') else None
            if self.eat(':'):
                self.skip_until('=', ';')
            ty = self.ty() if self.eat('=') else None
            self.expect(';')
            return node('type', line, name=name, ty=ty, generics=generics)
        if kw == 'use':
            self.adv()
            start = self.i
            self.skip_until(';')
            path = ' '.join(self.raw(start, self.i).split())
            self.expect(';')
            return node('use', line, path=path)
        if kw == 'mod':
            self.adv()
            name = self.ident()
            items = None
            if any('cfg(test)' in a.replace(' ', '') for a in attrs):
                if not self.eat(';'):
                    self.delimited()                         # skip the test module's balanced braces
            elif not self.eat(';'):
                items = self.item_list()
            return node('mod', line, name=name, items=items, attrs=attrs)
        if kw in ('const', 'static'):
            self.adv()
            mut = bool(self.eat('mut'))
            name = self.ident()
            self.expect(':')
            ty = self.ty()
            init = self.expr() if self.eat('=') else None
            self.expect(';')
            return node(kw, line, name=name, ty=ty, init=init, mut=mut, attrs=attrs, pub=pub)
        if t.kind == 'id' and self.at('!', 1):               # macro_rules! / item-position macro call
            name = self.adv().text
            self.adv()
            if self.peek().kind == 'id':
                name += ' ' + self.adv().text
            brace = self.at('{')
            s, e = self.delimited()
            if not brace:
                self.expect(';')
            return node('macro_item', line, name=name, raw=self.raw(s, e))
        self.err(f'expected an item, found `{t.text}`')

    def item_list(self):
        self.expect('{')
        items = []
        while not self.at('}'):
            if self.at('#') and self.at('!', 1):
                self.adv(), self.adv(), self.delimited()
                continue
            items.append(self.item(self.outer_attrs()))
        self.expect('}')
        return items

    def skip_until(self, *stops):
        """Skip tokens (balanced delimiters as units) up to, not including, one of `stops` at depth 0."""
        while not self.at_eof() and not (self.peek().kind == 'p' and self.peek().text in stops):
            if self.peek().kind == 'p' and self.peek().text in OPEN:
                self.delimited()
            else:
                self.adv()

    def generics(self):
        """At `<` of a generic parameter list: skip it (balanced) and return its tokens joined by ' '."""
        start = self.i
        self.expect('<')
        depth = 1
        while depth:
            t = self.peek()
            if t.kind == 'eof':
                self.err('unclosed `<`')
            if t.kind == 'p' and t.text in ('<', '<<'):
                depth += len(t.text)
                self.adv()
            elif t.kind == 'p' and t.text in ('>', '>>', '>=', '>>='):
                self.expect_gt()
                depth -= 1
            elif t.kind == 'p' and t.text in OPEN:
                self.delimited()
            else:
                self.adv()
        return self.joined(start)

    def fn_item(self, attrs, pub, line):
        self.expect('fn')
        name = self.ident()
        generics = self.generics() if self.at('<') else None
        self.expect('(')
        selfp, params, extra = None, [], {}
        while not self.at(')'):
            self.outer_attrs()
            j = 1 if self.at('&') else 0
            if j and self.peek(j).kind == 'life':
                j += 1
            m = self.at('mut', j)
            if not params and selfp is None and self.at('self', j + m) and not self.at('::', j + m + 1):
                selfp = ('&' if self.at('&') else '') + ('mut ' if m else '') + 'self'
                self.i += j + m + 1
                if self.eat(':'):
                    extra['self_ty'] = self.ty()
            else:
                pline = self.peek().line
                pat = self.pattern_no_alt()
                self.expect(':')
                p = {'name': None, 'ty': self.ty(), 'mut': False, 'line': pline}
                if pat['k'] == 'bind' and not pat['ref'] and pat['sub'] is None:
                    p['name'], p['mut'] = pat['name'], pat['mut']
                elif pat['k'] == 'wild':
                    p['name'] = '_'
                else:
                    p['pat'] = pat
                params.append(p)
            if not self.eat(','):
                break
        self.expect(')')
        ret = self.ty() if self.eat('->') else None
        if self.at('where'):
            start = self.i
            self.skip_until('{', ';')
            extra['where'] = self.joined(start)
        body = None if self.eat(';') else self.block()
        return node('fn', line, name=name, generics=generics, params=params, self=selfp, ret=ret, body=body,
                    attrs=attrs, pub=pub, **extra)

    def field_list(self, close, named):
        fields = []
        while not self.at(close):
            self.outer_attrs()
            if self.eat('pub') and self.at('('):
                self.delimited()
            name = None
            if named:
                name = self.ident()
                self.expect(':')
            fields.append([name, self.ty()])
            if not self.eat(','):
                break
        self.expect(close)
        return fields

    def variant_body(self):
        if self.eat('('):
            return 'tuple', self.field_list(')', False)
        if self.eat('{'):
            return 'struct', self.field_list('}', True)
        return 'unit', []

    def adt_item(self, attrs, pub, line):
        kw = self.adv().text
        name = self.ident()
        generics = self.generics() if self.at('<') else None
        self.skip_until('{', '(', ';')                       # where clause
        if kw == 'struct':
            kind, fields = self.variant_body()
            if kind != 'struct':
                self.skip_until(';')
                self.expect(';')
            return node('struct', line, name=name, generics=generics, kind=kind, fields=fields, attrs=attrs, pub=pub)
        self.expect('{')
        variants = []
        while not self.at('}'):
            self.outer_attrs()
            vline = self.peek().line
            vname = self.ident()
            kind, fields = self.variant_body()
            disc = self.unrestricted(self.expr) if self.eat('=') else None
            variants.append({'name': vname, 'kind': kind, 'fields': fields, 'disc': disc, 'line': vline})
            if not self.eat(','):
                break
        self.expect('}')
        return node('enum', line, name=name, variants=variants, attrs=attrs, pub=pub, generics=generics)

    def impl_item(self, attrs, line):
        self.expect('impl')
        generics = self.generics() if self.at('<') else None
        self.eat('!')
        target, trait = self.ty(), None
        if self.eat('for'):
            trait, target = target, self.ty()
        self.skip_until('{')
        return node('impl', line, target=target, items=self.item_list(), trait=trait, generics=generics, attrs=attrs)

    # ---- types (parsed for their extent; returned as the joined token string)
    def ty(self):
        start = self.i
        self._ty()
        return self.joined(start)

    def _ty(self):
        t = self.peek()
        if t.kind == 'p':
            if t.text in ('&', '&&'):
                self.amp()
                if self.peek().kind == 'life':
                    self.adv()
                self.eat('mut')
                return self._ty()
            if t.text == '*':
                self.adv()
                if not (self.eat('const') or self.eat('mut')):
                    self.err('expected `const` or `mut` after `*` in type')
                return self._ty()
            if t.text == '(':
                self.adv()
                while not self.at(')'):
                    self._ty()
                    if not self.eat(','):
                        break
                return self.expect(')')
            if t.text == '[':
                self.adv()
                self._ty()
                if self.eat(';'):
                    self.unrestricted(self.expr)
                return self.expect(']')
            if t.text == '!':
                return self.adv()
            if t.text == '<':                                # <T as Trait>::Assoc
                self.adv()
                self._ty()
                if self.eat('as'):
                    self._ty()
                self.expect_gt()
                self.expect('::')
                return self._ty_path()
            if t.text == '::':
                return self._ty_path()
        elif t.kind == 'id':
            if t.text in ('dyn', 'impl'):
                self.adv()
                return self._bounds()
            if t.text in ('fn', 'unsafe', 'extern'):         # fn pointer type
                while not self.at('fn'):
                    self.adv()
                self.adv()
                return self._fn_sig_tail()
            if t.text == 'for':                              # for<'a> fn(..)
                self.adv()
                self.generics()
                return self._ty()
            if t.text == '_' or t.text not in KEYWORDS or t.text in PATH_KW:
                return self._ty_path()
        self.err(f'expected a type, found `{t.text}`')

    def _fn_sig_tail(self):
        self.expect('(')
        while not self.at(')'):
            self._ty()
            if not self.eat(','):
                break
        self.expect(')')
        if self.eat('->'):
            self._ty()

    def _bounds(self):
        while True:
            self.eat('?')
            if self.at('for'):
                self.adv()
                self.generics()
            if self.peek().kind == 'life':
                self.adv()
            elif self.eat('('):
                self._ty_path()
                self.expect(')')
            else:
                self._ty_path()
            if not self.eat('+'):
                break

    def _ty_path(self):
        self.eat('::')
        while True:
            seg = self.ident()
            if self.at('<'):
                self.generic_args()
            elif self.at('::') and self.at('<', 1):
                self.adv()
                self.generic_args()
            elif self.at('(') and seg in ('Fn', 'FnMut', 'FnOnce'):
                self._fn_sig_tail()
            if self.at('::') and self.peek(1).kind == 'id':
                self.adv()
            else:
                break

    def generic_args(self):
        """`< args >` in type / turbofish position: lifetimes, types, `Name = Type`, const literals / blocks."""
        self.expect('<')
        while not (self.peek().kind == 'p' and self.peek().text in ('>', '>>', '>=', '>>=')):
            t = self.peek()
            if t.kind in ('life', 'int', 'str', 'char', 'float') or t.text in ('true', 'false'):
                self.adv()
            elif self.at('-'):
                self.adv(), self.adv()
            elif self.at('{'):
                self.delimited()
            else:
                self._ty()
                if self.eat('='):
                    self._ty()
                elif self.eat(':'):
                    self._bounds()
            if not self.eat(','):
                break
        self.expect_gt()

    # ---- paths (expression / pattern position; generic args are dropped)
    def path_segs(self):
        segs = []
        if self.at('<'):                                     # qualified path <T as Trait>::f
            start = self.i
            self.adv()
            self._ty()
            if self.eat('as'):
                self._ty()
            self.expect_gt()
            segs.append(self.joined(start))
            self.expect('::')
        else:
            self.eat('::')
        while True:
            segs.append(self.ident())
            if not self.at('::') or not (self.at('<', 1) or self.peek(1).kind == 'id'):
                break
            self.adv()
            if self.at('<'):
                self.generic_args()
                if not self.eat('::'):
                    break
        return segs

    # ---- patterns
    def pattern(self):
        line = self.peek().line
        self.eat('|')
        pats = [self.pattern_no_alt()]
        while self.eat('|'):
            pats.append(self.pattern_no_alt())
        return pats[0] if len(pats) == 1 else node('por', line, pats=pats)

    def pat_list(self, close):
        pats, trailing = [], False
        while not self.at(close):
            pats.append(self.pattern())
            trailing = bool(self.eat(','))
            if not trailing:
                break
        self.expect(close)
        return pats, trailing

    def pat_literal(self):
        """Literal (optionally negative) or path usable as a range-pattern bound; None if not at one."""
        t = self.peek()
        line = t.line
        if t.kind == 'p' and t.text == '-' and self.peek(1).kind in ('int', 'float'):
            self.adv()
            v = self.literal()
            return node('lit', line, v=-v['v'])
        if t.kind in ('int', 'float', 'str', 'char') or (t.kind == 'id' and t.text in ('true', 'false')):
            return node('lit', line, v=self.literal()['v'])
        return None

    def pat_range(self, lo, line):
        if self.at('..=') or self.at('...') or self.at('..'):
            incl = self.adv().text != '..'
            hi = self.pat_literal()
            if hi is None and self.peek().kind == 'id' and self.peek().text not in KEYWORDS:
                hi = node('ppath', self.peek().line, segs=self.path_segs())
            return node('prange', line, lo=lo, hi=hi, inclusive=incl)
        return lo

    def bind_tail(self, line, name, mut, ref):
        sub = self.pattern_no_alt() if self.eat('@') else None
        return node('bind', line, name=name, mut=mut, ref=ref, sub=sub)

    def pattern_no_alt(self):
        t = self.peek()
        line = t.line
        lit = self.pat_literal()
        if lit is not None:
            return self.pat_range(lit, line)
        if t.kind == 'p':
            if t.text in ('&', '&&'):
                self.amp()
                mut = bool(self.eat('mut'))
                return node('pref', line, pat=self.pattern_no_alt(), mut=mut)
            if t.text == '(':
                self.adv()
                pats, trailing = self.pat_list(')')
                if len(pats) == 1 and not trailing and pats[0]['k'] != 'rest':
                    return pats[0]
                return node('ptuple', line, pats=pats)
            if t.text == '[':
                self.adv()
                return node('pslice', line, pats=self.pat_list(']')[0])
            if t.text == '..':
                self.adv()
                return node('rest', line)
            if t.text == '..=':
                return self.pat_range(None, line)
        elif t.kind == 'id':
            if t.text == '_':
                self.adv()
                return node('wild', line)
            if t.text in ('ref', 'mut'):
                ref = bool(self.eat('ref'))
                mut = bool(self.eat('mut'))
                return self.bind_tail(line, self.ident(), mut, ref)
            if t.text not in KEYWORDS or t.text in PATH_KW:
                segs = self.path_segs()
                if self.eat('('):
                    return node('tstruct', line, path=segs, pats=self.pat_list(')')[0])
                if self.at('{'):
                    return self.pat_struct(segs, line)
                if len(segs) == 1 and (segs[0][0].islower() or segs[0][0] == '_') and segs[0] not in PATH_KW:
                    return self.bind_tail(line, segs[0], False, False)
                return self.pat_range(node('ppath', line, segs=segs), line)
        self.err(f'expected a pattern, found `{t.text}`')

    def pat_struct(self, segs, line):
        self.expect('{')
        fields, rest = [], False
        while not self.at('}'):
            self.outer_attrs()
            if self.eat('..'):
                rest = True
                break
            fline = self.peek().line
            if self.at(':', 1) and self.peek().kind in ('id', 'int'):
                name = self.adv().text
                self.adv()
                fields.append([name, self.pattern()])
            else:
                ref = bool(self.eat('ref'))
                mut = bool(self.eat('mut'))
                name = self.ident()
                fields.append([name, node('bind', fline, name=name, mut=mut, ref=ref, sub=None)])
            if not self.eat(','):
                break
        self.expect('}')
        return node('pstruct', line, path=segs, fields=fields, rest=rest)

    # ---- blocks and statements
    def block(self):
        return self.unrestricted(self._block)

    def _block(self):
        line = self.expect('{').line
        stmts, tail = [], None
        while not self.at('}'):
            if self.eat(';'):
                continue
            if self.at('#') and self.at('!', 1):
                self.adv(), self.adv(), self.delimited()
                continue
            attrs = self.outer_attrs()
            sline = self.peek().line
            if self.at('let'):
                stmts.append(self.let_stmt())
            elif self.at_item():
                stmts.append(node('item', sline, item=self.item(attrs)))
            else:
                e, complete = self.expr_stmt()
                if self.eat(';'):
                    stmts.append(node('expr', sline, e=e, semi=True))
                elif self.at('}'):
                    tail = e
                elif complete:
                    stmts.append(node('expr', sline, e=e, semi=False))
                else:
                    self.err(f'expected `;` or `}}`, found `{self.peek().text}`')
        self.expect('}')
        return node('block', line, stmts=stmts, expr=tail)

    def let_stmt(self):
        line = self.expect('let').line
        pat = self.pattern()
        ty = self.ty() if self.eat(':') else None
        init = self.expr() if self.eat('=') else None
        extra = {'else': self.block()} if self.eat('else') else {}
        self.expect(';')
        return node('let', line, pat=pat, ty=ty, init=init, **extra)

    def starts_blocklike(self):
        t = self.peek()
        if t.kind == 'life':
            return self.at(':', 1)
        if t.kind == 'id':
            return (t.text in BLOCKLIKE_KW or (t.text == 'unsafe' and self.at('{', 1))
                    or (t.text not in KEYWORDS and self.at('!', 1) and self.at('{', 2)))
        return self.at('{')

    def expr_stmt(self):
        """Expression in statement / match-arm-body position.  Returns (expr, complete): complete means a
        block-like expression (if/match/loop/{}..) that ends the statement without `;` -- as in rustc, only
        `.method()` / `?` may continue it, binary operators may not."""
        if self.starts_blocklike():
            e = self.primary()
            e2 = self.postfix(e, only_dot=True)
            if e2 is e:
                return e, True
            return self.expr_bp(0, e2), False
        return self.expr(), False

    # ---- expressions
    def expr(self):
        return self.expr_bp(0)

    def can_start_expr(self):
        t = self.peek()
        if t.kind in ('int', 'float', 'str', 'char', 'life'):
            return True
        if t.kind == 'id':
            return t.text not in KEYWORDS or t.text in EXPR_KW
        if t.kind == 'p':
            return t.text in EXPR_PUNCT or (t.text == '{' and not self.no_struct)
        return False

    def expr_bp(self, minp, lhs=None):
        line = self.peek().line if lhs is None else lhs['line']
        if lhs is None:
            if self.at('..') or self.at('..='):              # prefix range  ..hi
                incl = self.adv().text == '..='
                hi = self.expr_bp(P_RANGE + 1) if self.can_start_expr() else None
                return node('range', line, lo=None, hi=hi, inclusive=incl)
            lhs = self.unary()
        while True:
            t = self.peek()
            op = t.text
            if t.kind == 'id' and op == 'as':
                if P_AS < minp:
                    break
                self.adv()
                lhs = node('cast', line, e=lhs, ty=self.ty())
            elif t.kind != 'p':
                break
            elif op in BINOPS:
                p = BINOPS[op]
                if p < minp:
                    break
                self.adv()
                lhs = node('binary', line, op=op, l=lhs, r=self.expr_bp(p + 1))
                if p == P_CMP and self.peek().kind == 'p' and BINOPS.get(self.peek().text) == P_CMP:
                    self.err('comparison operators cannot be chained')
            elif op in ('..', '..='):
                if P_RANGE < minp:
                    break
                self.adv()
                hi = self.expr_bp(P_RANGE + 1) if self.can_start_expr() else None
                lhs = node('range', line, lo=lhs, hi=hi, inclusive=(op == '..='))
            elif op in ASSIGN_OPS:
                if P_ASSIGN < minp:
                    break
                self.adv()
                lhs = node('assign', line, op=op, l=lhs, r=self.expr_bp(P_ASSIGN))     # right associative
            else:
                break
        return lhs

    def unary(self):
        t = self.peek()
        line = t.line
        if t.kind == 'p':
            if t.text in ('&', '&&'):
                self.amp()
                op = '&mut' if self.eat('mut') else '&'
                return node('unary', line, op=op, e=self.unary())
            if t.text in ('*', '!', '-'):
                self.adv()
                return node('unary', line, op=t.text, e=self.unary())
            if t.text in ('|', '||'):
                return self.closure()
        elif t.kind == 'id' and t.text == 'move':
            return self.closure()
        return self.postfix(self.primary())

    def closure(self):
        line = self.peek().line
        mv = bool(self.eat('move'))
        params = []
        if not self.eat('||'):
            self.expect('|')
            while not self.at('|'):
                params.append(self.pattern_no_alt())
                if self.eat(':'):
                    self.ty()                                # parameter type annotation: dropped
                if not self.eat(','):
                    break
            self.expect('|')
        if self.eat('->'):
            self.ty()
            body = node('blockexpr', self.peek().line, block=self.block())
        else:
            body = self.expr()
        return node('closure', line, params=params, body=body, move=mv)

    def args(self, close):
        """Comma separated expressions up to `close` (opening delimiter already consumed)."""
        def go():
            out = []
            while not self.at(close):
                out.append(self.expr())
                if not self.eat(','):
                    break
            self.expect(close)
            return out
        return self.unrestricted(go)

    def postfix(self, e, only_dot=False):
        while True:
            t = self.peek()
            if t.kind != 'p':
                break
            if t.text == '.':
                self.adv()
                name = self.peek()
                if name.kind == 'int':
                    self.adv()
                    e = node('field', name.line, recv=e, name=name.text)
                    continue
                if name.kind != 'id':
                    self.err(f'expected field or method name, found `{name.text}`')
                self.adv()
                if self.at('::'):                            # turbofish: dropped
                    self.adv()
                    self.generic_args()
                    if not self.at('('):
                        self.err('expected `(` after method turbofish')
                if self.eat('('):
                    e = node('mcall', name.line, recv=e, m=name.text, args=self.args(')'))
                else:
                    e = node('field', name.line, recv=e, name=name.text)
            elif t.text == '?':
                self.adv()
                e = node('try', t.line, e=e)
            elif only_dot:
                break
            elif t.text == '(':
                self.adv()
                e = node('call', t.line, f=e, args=self.args(')'))
            elif t.text == '[':
                self.adv()
                idx = self.unrestricted(self.expr)
                self.expect(']')
                e = node('index', t.line, recv=e, idx=idx)
            else:
                break
        return e

    def literal(self):
        t = self.adv()
        if t.kind == 'int':
            m = _INT.match(t.text)
            if not m:
                self.err(f'bad integer literal `{t.text}`', t)
            body = m.group(1).replace('_', '')
            v = int(body, 0) if body[:2] in ('0x', '0o', '0b') else int(body, 10)
            return node('lit', t.line, v=v, suffix=m.group(2))
        if t.kind == 'float':
            m = re.match(r'^([0-9_.]+(?:[eE][+-]?[0-9_]+)?)(f32|f64)?$', t.text)
            if not m:
                self.err(f'bad float literal `{t.text}`', t)
            return node('lit', t.line, v=float(m.group(1).replace('_', '')), suffix=m.group(2))
        if t.kind == 'str':
            a, b = t.text.index('"'), t.text.rindex('"')
            extra = {'bytes': True} if t.text[0] == 'b' else {}
            return node('lit', t.line, v=t.text[a + 1:b], suffix=None, **extra)
        if t.kind == 'char':
            return node('lit', t.line, v=t.text[t.text.index("'") + 1:-1], suffix=None, char=True)
        if t.kind == 'id' and t.text in ('true', 'false'):
            return node('lit', t.line, v=(t.text == 'true'), suffix=None)
        self.err(f'expected a literal, found `{t.text}`', t)

    def primary(self):
        t = self.peek()
        line = t.line
        if t.kind in ('int', 'float', 'str', 'char'):
            return self.literal()
        if t.kind == 'life':                                 # labelled loop / block
            label = self.adv().text
            self.expect(':')
            e = self.primary()
            e['label'] = label
            return e
        if t.kind == 'p':
            if t.text == '(':
                self.adv()
                elts, trailing = [], True
                def go():
                    nonlocal trailing
                    while not self.at(')'):
                        elts.append(self.expr())
                        trailing = bool(self.eat(','))
                        if not trailing:
                            break
                self.unrestricted(go)
                self.expect(')')
                if len(elts) == 1 and not trailing:
                    return elts[0]
                return node('tuple', line, elts=elts)
            if t.text == '[':
                self.adv()
                elts, repeat = self.expr_list(']')
                return node('array', line, elts=elts, **({} if repeat is None else {'repeat': repeat}))
            if t.text == '{':
                return node('blockexpr', line, block=self.block())
            if t.text in ('<', '::'):
                return self.path_expr(line)
            self.err(f'expected an expression, found `{t.text}`')
        if t.kind != 'id':
            self.err(f'expected an expression, found `{t.text}`')
        kw = t.text
        if kw in ('true', 'false'):
            return self.literal()
        if kw == 'if':
            return self.if_expr()
        if kw == 'match':
            return self.match_expr()
        if kw == 'while':
            self.adv()
            if self.eat('let'):
                pat = self.pattern()
                self.expect('=')
                e = self.restricted(self.let_scrutinee)
                return node('whilelet', line, pat=pat, e=e, body=self.block())
            cond = self.restricted(self.expr)
            return node('while', line, cond=cond, body=self.block())
        if kw == 'for':
            self.adv()
            pat = self.pattern()
            self.expect('in')
            it = self.restricted(self.expr)
            return node('for', line, pat=pat, iter=it, body=self.block())
        if kw == 'loop':
            self.adv()
            return node('loop', line, body=self.block())
        if kw == 'unsafe' and self.at('{', 1):
            self.adv()
            return node('blockexpr', line, block=self.block(), unsafe=True)
        if kw == 'return':
            self.adv()
            return node('return', line, e=self.expr() if self.can_start_expr() else None)
        if kw == 'break':
            self.adv()
            extra = {}
            if self.peek().kind == 'life' and not self.at(':', 1):
                extra['label'] = self.adv().text
            if self.can_start_expr():
                extra['e'] = self.expr()
            return node('break', line, **extra)
        if kw == 'continue':
            self.adv()
            extra = {'label': self.adv().text} if self.peek().kind == 'life' else {}
            return node('continue', line, **extra)
        if kw in KEYWORDS and kw not in PATH_KW:
            self.err(f'expected an expression, found keyword `{kw}`')
        return self.path_expr(line)

    def path_expr(self, line):
        segs = self.path_segs()
        if self.at('!') and self.peek(1).kind == 'p' and self.peek(1).text in OPEN:
            return self.macro('::'.join(segs), line)
        if self.at('{') and not self.no_struct:
            return self.unrestricted(self.struct_lit, segs, line)
        return node('path', line, segs=segs)

    def struct_lit(self, segs, line):
        self.expect('{')
        fields, extra = [], {}
        while not self.at('}'):
            self.outer_attrs()
            if self.eat('..'):
                extra['base'] = self.expr()
                break
            t = self.peek()
            if t.kind not in ('id', 'int') or t.text in KEYWORDS:
                self.err(f'expected a field name in struct literal, found `{t.text}`')
            self.adv()
            e = self.expr() if self.eat(':') else node('path', t.line, segs=[t.text])
            fields.append([t.text, e])
            if not self.eat(','):
                break
        self.expect('}')
        return node('struct', line, path=segs, fields=fields, **extra)

    def expr_list(self, close):
        """`a, b, c` or `a; n` up to `close` (None: up to the end of a macro's tokens) -> (exprs, repeat|None)."""
        def go():
            elts, repeat = [], None
            while not (self.at(close) if close else self.at_eof()):
                elts.append(self.expr())
                if len(elts) == 1 and self.eat(';'):
                    repeat = self.expr()
                    break
                if not self.eat(','):
                    break
            return elts, repeat
        elts, repeat = self.unrestricted(go)
        if close:
            self.expect(close)
        elif not self.at_eof():
            self.err(f'unexpected `{self.peek().text}` in macro arguments')
        return elts, repeat

    def let_scrutinee(self):
        """Scrutinee of `if let` / `while let`: binds tighter than `&&` / `||` (no let-chains)."""
        e = self.expr_bp(P_CMP)
        if self.at('&&') or self.at('||'):
            self.err('let-chains / lazy boolean operators in a `let` scrutinee are not supported (parenthesise)')
        return e

    def if_expr(self):
        line = self.expect('if').line
        if self.eat('let'):
            pat = self.pattern()
            self.expect('=')
            head = {'pat': pat, 'e': self.restricted(self.let_scrutinee)}
            kind = 'iflet'
        else:
            head = {'cond': self.restricted(self.expr)}
            kind = 'if'
        then = self.block()
        els = None
        if self.eat('else'):
            els = self.if_expr() if self.at('if') else self.block()
        return node(kind, line, **head, then=then, **{'else': els})

    def match_expr(self):
        line = self.expect('match').line
        scrut = self.restricted(self.expr)
        self.expect('{')
        arms = []

        def go():
            while not self.at('}'):
                self.outer_attrs()
                aline = self.peek().line
                pat = self.pattern()
                guard = self.expr() if self.eat('if') else None
                self.expect('=>')
                body, complete = self.expr_stmt()
                arms.append({'pat': pat, 'guard': guard, 'body': body, 'line': aline})
                if not self.eat(',') and not self.at('}') and not complete:
                    self.err(f'expected `,` or `}}` after match arm, found `{self.peek().text}`')
        self.unrestricted(go)
        self.expect('}')
        return node('match', line, e=scrut, arms=arms)

    def macro(self, name, line):
        """`name!(..)` / `name![..]` / `name!{..}`: arguments are parsed as expressions where possible."""
        self.expect('!')
        s, e = self.delimited()
        raw = self.raw(s, e)
        sp = self.sub(s, e)
        try:
            if name == 'matches':
                ex = sp.expr()
                sp.expect(',')
                pat = sp.pattern()
                guard = sp.expr() if sp.eat('if') else None
                sp.eat(',')
                if not sp.at_eof():
                    sp.err(f'unexpected `{sp.peek().text}` in matches!')
                return node('matches', line, e=ex, pat=pat, guard=guard)
            args, repeat = sp.expr_list(None)
        except ParseError:
            if name in ('vec', 'matches') or name.startswith(STRICT_MACROS):
                raise
            args, repeat = [], None                          # panic!/format!-like: keep only the raw text
        extra = {} if repeat is None else {'repeat': repeat}
        return node('macro', line, name=name, args=args, **extra, raw=raw)


# ------------------------------------------------------------------------------------------ public API
def parse_source(text):
    return Parser(tokenize(text), text).file()


def parse_file(path):
    with open(path, encoding='utf-8') as f:
        return parse_source(f.read())


def _snippet(text, method):
    p = Parser(tokenize(text), text)
    out = getattr(p, method)()
    if not p.at_eof():
        p.err(f'unexpected trailing `{p.peek().text}`')
    return out


def parse_expr(text):
    return _snippet(text, 'expr')


def parse_pattern(text):
    return _snippet(text, 'pattern')


def parse_type(text):
    return _snippet(text, 'ty')


def parse_block(text):
    """Parse a `{ ... }` block; returns the BLOCK node."""
    return _snippet(text, 'block')


def walk(n):
    """Yield every dict node (anything with a 'k' key, plus match arms / params / variants) depth-first."""
    if isinstance(n, dict):
        yield n
        for v in n.values():
            yield from walk(v)
    elif isinstance(n, list):
        for v in n:
            yield from walk(v)


def strip_lines(n):
    if isinstance(n, dict):
        return {k: strip_lines(v) for k, v in n.items() if k != 'line'}
    if isinstance(n, list):
        return [strip_lines(v) for v in n]
    return n


def find_fn(items, name, impl=None):
    """Find fn `name`: among top-level fns (impl=None) or inside `impl <impl>` (target string, e.g. 'Pattern')."""
    for it in items:
        if impl is None and it['k'] == 'fn' and it['name'] == name:
            return it
        if impl is not None and it['k'] == 'impl' and it['target'] == impl:
            for f in it['items']:
                if f['k'] == 'fn' and f['name'] == name:
                    return f
        if it['k'] == 'mod' and it.get('items'):
            f = find_fn(it['items'], name, impl)
            if f:
                return f
    return None


if __name__ == '__main__':
    import json
    import sys
    json.dump(parse_file(sys.argv[1]), sys.stdout, indent=1)
