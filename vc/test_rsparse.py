#!/usr/bin/env python3
"""Tests for vc/rsparse.py.  Run: python3 /verif/vc/test_rsparse.py"""
import json
import os
import re
import sys

sys.path.insert(0, os.path.dirname(os.path.dirname(os.path.abspath(__file__))))
from vc import rsparse as R  # noqa: E402

LIB = '/repo/rust/src/lib.rs'
S = R.strip_lines
NCHECK = 0


def check(cond, msg):
    global NCHECK
    NCHECK += 1
    if not cond:
        raise AssertionError(msg)


def eq(got, want, what):
    check(got == want, f'{what}\n   got:  {json.dumps(got)}\n   want: {json.dumps(want)}')


def E(s):
    return S(R.parse_expr(s))


def P(s):
    return S(R.parse_pattern(s))


def B(s):
    return S(R.parse_block(s))


def path(*segs):
    return {'k': 'path', 'segs': list(segs)}


def lit(v, suffix=None):
    return {'k': 'lit', 'v': v, 'suffix': suffix}


def bind(name, mut=False, ref=False, sub=None):
    return {'k': 'bind', 'name': name, 'mut': mut, 'ref': ref, 'sub': sub}


def binop(op, l, r):
    return {'k': 'binary', 'op': op, 'l': l, 'r': r}


def un(op, e):
    return {'k': 'unary', 'op': op, 'e': e}


def mcall(recv, m, *args):
    return {'k': 'mcall', 'recv': recv, 'm': m, 'args': list(args)}


def call(f, *args):
    return {'k': 'call', 'f': f, 'args': list(args)}


def block(stmts=(), expr=None):
    return {'k': 'block', 'stmts': list(stmts), 'expr': expr}


def stmt(e, semi=True):
    return {'k': 'expr', 'e': e, 'semi': semi}


def well_formed(n):
    """Every node with 'k' has 'line'; the whole thing is JSON-serialisable."""
    json.dumps(n)
    for d in R.walk(n):
        if 'k' in d:
            check(isinstance(d.get('line'), int), f'node without line: {d}')


# ------------------------------------------------------------------------------------------ unit tests
def test_exprs():
    x, y, a, b, c = path('x'), path('y'), path('a'), path('b'), path('c')
    # literals
    eq(E('137'), lit(137), 'int')
    eq(E('0xFF_u8'), lit(255, 'u8'), 'hex + suffix')
    eq(E('1_000usize'), lit(1000, 'usize'), 'underscore + suffix')
    eq(E('0b101'), lit(5), 'binary literal')
    eq(E('true'), lit(True), 'bool')
    eq(E(r'"a\nb {:?}"'), lit(r'a\nb {:?}'), 'string kept raw')
    eq(E("'x'")['v'], 'x', 'char')
    # paths / calls
    eq(E('Pattern::EVar'), path('Pattern', 'EVar'), 'path')
    eq(E('self'), path('self'), 'self')
    eq(E('Rc::new(x)'), call(path('Rc', 'new'), x), 'call')
    eq(E('Vec::<u8>::with_capacity(n)'), call(path('Vec', 'with_capacity'), path('n')), 'turbofish dropped')
    eq(E('it.collect::<Vec<Rc<Pattern>>>()'), mcall(path('it'), 'collect'), 'method turbofish with >>>')
    eq(E('x.f(a).g()'), mcall(mcall(x, 'f', a), 'g'), 'mcall chain')
    eq(E('x.left'), {'k': 'field', 'recv': x, 'name': 'left'}, 'field')
    eq(E('x.0.1'), {'k': 'field', 'recv': {'k': 'field', 'recv': x, 'name': '0'}, 'name': '1'}, 'tuple index')
    eq(E('plugs[pos]'), {'k': 'index', 'recv': path('plugs'), 'idx': path('pos')}, 'index')
    eq(E('&memory[index as usize]'),
       un('&', {'k': 'index', 'recv': path('memory'), 'idx': {'k': 'cast', 'e': path('index'), 'ty': 'usize'}}),
       'index with cast')
    # unary / binary / precedence
    eq(E('*name != evar'), binop('!=', un('*', path('name')), path('evar')), 'deref compare')
    eq(E('&mut buffer.iter()'), un('&mut', mcall(path('buffer'), 'iter')), '&mut')
    eq(E('&&x'), un('&', un('&', x)), '&& as two refs')
    eq(E('!a.b()'), un('!', mcall(a, 'b')), 'not')
    eq(E('-x + 1'), binop('+', un('-', x), lit(1)), 'neg')
    eq(E('a || b && c == x'), binop('||', a, binop('&&', b, binop('==', c, x))), '|| && ==')
    eq(E('a && b || c'), binop('||', binop('&&', a, b), c), '&& ||')
    eq(E('a + b * c - 1'), binop('-', binop('+', a, binop('*', b, c)), lit(1)), 'arith')
    eq(E('a - b - c'), binop('-', binop('-', a, b), c), 'left assoc')
    eq(E('a | b ^ c & x << 1'), binop('|', a, binop('^', b, binop('&', c, binop('<<', x, lit(1))))), 'bit ops')
    eq(E('a >> 1 >= b'), binop('>=', binop('>>', a, lit(1)), b), '>> and >= in expressions stay operators')
    eq(E('a % b / c'), binop('/', binop('%', a, b), c), '% /')
    eq(E('(a + b) * c'), binop('*', binop('+', a, b), c), 'parens')
    eq(E('x == *id || (a.p(*b) && c.q(y))'),
       binop('||', binop('==', x, un('*', path('id'))), binop('&&', mcall(a, 'p', un('*', b)), mcall(c, 'q', y))),
       'mixed')
    try:
        E('a < b < c')
        check(False, 'chained comparison must be rejected')
    except R.ParseError:
        check(True, '')
    # casts
    eq(E('x as usize'), {'k': 'cast', 'e': x, 'ty': 'usize'}, 'cast')
    eq(E('a * b as usize'), binop('*', a, {'k': 'cast', 'e': b, 'ty': 'usize'}), 'cast binds tighter than *')
    eq(E('*iterator.next().expect("Expected id") as Id'),
       {'k': 'cast', 'e': un('*', mcall(mcall(path('iterator'), 'next'), 'expect', lit('Expected id'))), 'ty': 'Id'},
       'deref-call-cast')
    eq(E('(*iterator.next().expect("len")) as usize')['k'], 'cast', 'paren cast')
    eq(E('Instruction::SVar as InstByte'), {'k': 'cast', 'e': path('Instruction', 'SVar'), 'ty': 'InstByte'}, 'enum cast')
    # assignment
    eq(E('*p = ret'), {'k': 'assign', 'op': '=', 'l': un('*', path('p')), 'r': path('ret')}, '*p = ret')
    eq(E('_ = pop_stack(stack)'), {'k': 'assign', 'op': '=', 'l': path('_'), 'r': call(path('pop_stack'), path('stack'))},
       '_ = e')
    eq(E('x += 1'), {'k': 'assign', 'op': '+=', 'l': x, 'r': lit(1)}, '+=')
    eq(E('inst_left = Some(Rc::clone(left))')['r'], call(path('Some'), call(path('Rc', 'clone'), path('left'))), 'assign rhs')
    # struct literals
    eq(E('Pattern::Mu { var, subpattern }'),
       {'k': 'struct', 'path': ['Pattern', 'Mu'], 'fields': [['var', path('var')], ['subpattern', path('subpattern')]]},
       'struct shorthand')
    eq(E('Pattern::MetaVar { id: var_id, e_fresh: vec![], positive, }'),
       {'k': 'struct', 'path': ['Pattern', 'MetaVar'],
        'fields': [['id', path('var_id')], ['e_fresh', {'k': 'macro', 'name': 'vec', 'args': [], 'raw': ''}],
                   ['positive', path('positive')]]}, 'struct mixed')
    # struct literal vs block ambiguity
    eq(E('if x == Foo { a } else { b }'),
       {'k': 'if', 'cond': binop('==', x, path('Foo')), 'then': block(expr=a), 'else': block(expr=b)},
       'if: `{` after path is the block')
    eq(E('if x == (Foo { a: 1 }) { b }')['cond']['r'], {'k': 'struct', 'path': ['Foo'], 'fields': [['a', lit(1)]]},
       'struct literal allowed inside parens in cond')
    eq(E('if f(Foo { a }) { b }')['cond'], call(path('f'), {'k': 'struct', 'path': ['Foo'], 'fields': [['a', a]]}),
       'struct literal allowed in call args in cond')
    m = E('match p.as_ref() { Pattern::EVar(e) => 1, _ => 2 }')
    eq(m['e'], mcall(path('p'), 'as_ref'), 'match scrutinee not a struct literal')
    eq(len(m['arms']), 2, 'match arms')
    eq(E('match phase { ExecutionPhase::Gamma => a, _ => b, }')['e'], path('phase'), 'match on path')
    eq(E('while x { a; }'), {'k': 'while', 'cond': x, 'body': block([stmt(a)])}, 'while')
    eq(E('for _ in 0..len { a; }'),
       {'k': 'for', 'pat': {'k': 'wild'}, 'iter': {'k': 'range', 'lo': lit(0), 'hi': path('len'), 'inclusive': False},
        'body': block([stmt(a)])}, 'for over range')
    eq(E('for (i, &v) in xs.iter().enumerate() {}')['pat'],
       {'k': 'ptuple', 'pats': [bind('i'), {'k': 'pref', 'pat': bind('v'), 'mut': False}]}, 'for tuple pattern')
    eq(E('loop { break; }'), {'k': 'loop', 'body': block([stmt({'k': 'break'})])}, 'loop/break')
    eq(E("'o: loop { continue 'o; }")['label'], "'o", 'labelled loop')
    # if / if let / else chains
    eq(E('if a { x } else if b { y } else { c }'),
       {'k': 'if', 'cond': a, 'then': block(expr=x),
        'else': {'k': 'if', 'cond': b, 'then': block(expr=y), 'else': block(expr=c)}}, 'else-if chain')
    il = E('if let Some(pos) = vars.iter().position(|&x| x == *id) { return Some(Rc::clone(&plugs[pos])); } else { b }')
    eq(il['k'], 'iflet', 'iflet kind')
    eq(il['pat'], {'k': 'tstruct', 'path': ['Some'], 'pats': [bind('pos')]}, 'iflet pat')
    eq(il['e']['args'][0], {'k': 'closure', 'params': [{'k': 'pref', 'pat': bind('x'), 'mut': False}],
                            'body': binop('==', x, un('*', path('id'))), 'move': False}, 'closure |&x| x == *id')
    eq(il['then']['stmts'][0]['e'],
       {'k': 'return', 'e': call(path('Some'), call(path('Rc', 'clone'),
                                                  un('&', {'k': 'index', 'recv': path('plugs'), 'idx': path('pos')})))},
       'return Some(Rc::clone(&plugs[pos]));')
    eq(il['else'], block(expr=b), 'if let ... else')
    eq(E('if let Some(ret) = f(p) { *p = ret }')['then']['expr']['k'], 'assign', 'if let, assign tail')
    eq(E('while let Some(i) = iterator.next() { a; }'),
       {'k': 'whilelet', 'pat': {'k': 'tstruct', 'path': ['Some'], 'pats': [bind('i')]},
        'e': mcall(path('iterator'), 'next'), 'body': block([stmt(a)])}, 'while let')
    # closures
    eq(E('|| esubst(Rc::clone(pattern), evar_id)')['params'], [], 'closure no params')
    eq(E('move |a: u8, (b, c)| a')['move'], True, 'move closure with typed / tuple params')
    fe = E('iterator.take(n).for_each(|arg| { ids.push(*arg as Id); plugs.push(pop_stack_pattern(stack)) })')
    eq(fe['m'], 'for_each', 'for_each')
    cl = fe['args'][0]
    eq(cl['params'], [bind('arg')], 'closure param')
    eq(cl['body']['k'], 'blockexpr', 'closure block body')
    eq(len(cl['body']['block']['stmts']), 1, 'closure body stmts')
    eq(cl['body']['block']['expr']['m'], 'push', 'closure body tail')
    eq(E('xs.into_iter().any(|hole| e_fresh.contains(hole))')['args'][0]['body'],
       mcall(path('e_fresh'), 'contains', path('hole')), 'any closure')
    # return / try / tuple / range / blockexpr
    eq(E('return'), {'k': 'return', 'e': None}, 'bare return')
    eq(E('Some(mu(*var, new_sub?))')['args'][0]['args'][1], {'k': 'try', 'e': path('new_sub')}, 'postfix ?')
    eq(E('()'), {'k': 'tuple', 'elts': []}, 'unit')
    eq(E('(a, b)'), {'k': 'tuple', 'elts': [a, b]}, 'tuple')
    eq(E('(a,)'), {'k': 'tuple', 'elts': [a]}, '1-tuple')
    eq(E('(a)'), a, 'paren')
    eq(E('a..=b'), {'k': 'range', 'lo': a, 'hi': b, 'inclusive': True}, 'inclusive range')
    eq(E('&v[1..]')['e']['idx'], {'k': 'range', 'lo': lit(1), 'hi': None, 'inclusive': False}, 'open range')
    eq(E('..n'), {'k': 'range', 'lo': None, 'hi': path('n'), 'inclusive': False}, 'prefix range')
    eq(E('{ a; b }'), {'k': 'blockexpr', 'block': block([stmt(a)], b)}, 'block expr')
    # macros
    pm = E('panic!("Constructed meta-var {:?} is ill-formed.", &metavar_pat)')
    eq(pm['name'], 'panic', 'macro name')
    eq(pm['args'], [lit('Constructed meta-var {:?} is ill-formed.'), un('&', path('metavar_pat'))], 'panic args')
    eq(pm['raw'], '"Constructed meta-var {:?} is ill-formed.", &metavar_pat', 'macro raw')
    am = E('assert!(\n plug.e_fresh(*var),\n "EVar substitution would capture free variable {}!",\n var\n)')
    eq(am['args'][0], mcall(path('plug'), 'e_fresh', un('*', path('var'))), 'assert cond')
    eq(len(am['args']), 3, 'assert args')
    eq(E('assert_eq!(a, b)')['args'], [a, b], 'assert_eq')
    eq(E('unimplemented!("Instruction: {}", instr_u32)')['args'][1], path('instr_u32'), 'unimplemented')
    eq(E('unreachable!()'), {'k': 'macro', 'name': 'unreachable', 'args': [], 'raw': ''}, 'unreachable')
    eq(E('format!("{} {x}", a, x = 1)')['args'][2]['k'], 'assign', 'format named arg')
    eq(E('panic!(some $ weird tokens)'), {'k': 'macro', 'name': 'panic', 'args': [], 'raw': 'some $ weird tokens'},
       'unparsable macro args fall back to []')
    eq(E('vec![fresh]')['args'], [path('fresh')], 'vec list')
    v = E('vec![0u8; n]')
    eq((v['args'], v['repeat']), ([lit(0, 'u8')], path('n')), 'vec repeat')
    mt = E('matches!(\n pattern.as_ref(),\n Pattern::MetaVar { .. } | Pattern::ESubst { .. } | Pattern::SSubst { .. }\n)')
    eq(mt['k'], 'matches', 'matches!')
    eq(mt['e'], mcall(path('pattern'), 'as_ref'), 'matches! expr')
    eq([p['path'][1] for p in mt['pat']['pats']], ['MetaVar', 'ESubst', 'SSubst'], 'matches! or-pattern')
    eq(mt['guard'], None, 'matches! no guard')
    eq(E('matches!(t, Some(n) if n > 1)')['guard'], binop('>', path('n'), lit(1)), 'matches! guard')
    eq(E('!self.is_redundant_subst() && matches!(p.as_ref(), Pattern::MetaVar { .. })')['r']['k'], 'matches',
       'matches! as operand')


def test_match():
    m = E('''match pattern.as_ref() {
        Pattern::EVar(e) => { if *e == evar_id { Rc::clone(plug) } else { Rc::clone(pattern) } }
        Pattern::Implies { left, right } => implies(f(left), f(right)),
        Pattern::Exists { var, .. } if *var == evar_id => Rc::clone(pattern),
        Pattern::Exists { var, subpattern } | Pattern::Mu { var, subpattern } => g(*var),
        | Pattern::ESubst { .. } => wrap_subst(),
        Pattern::ESubst { pattern, plug, .. } =>
        // comment
        {
            pattern.positive(svar) && plug.s_fresh(svar)
        }
        Pattern::SSubst { .. } => match x { _ => 1 },
        Term::Pattern(mut p) => { f(&mut p); }
        2 => Instruction::EVar,
        _ => panic!("Bad Instruction!")
    }''')
    arms = m['arms']
    eq(len(arms), 10, 'arm count')
    eq(arms[0]['body']['k'], 'blockexpr', 'block arm body without comma')
    eq(arms[0]['body']['block']['expr']['k'], 'if', 'if as block tail')
    eq(arms[1]['pat'], {'k': 'pstruct', 'path': ['Pattern', 'Implies'],
                        'fields': [['left', bind('left')], ['right', bind('right')]], 'rest': False}, 'pstruct shorthand')
    eq(arms[2]['pat'], {'k': 'pstruct', 'path': ['Pattern', 'Exists'], 'fields': [['var', bind('var')]], 'rest': True},
       'pstruct with ..')
    eq(arms[2]['guard'], binop('==', un('*', path('var')), path('evar_id')), 'arm guard')
    eq(arms[3]['pat']['k'], 'por', 'or-pattern arm')
    eq([p['path'] for p in arms[3]['pat']['pats']], [['Pattern', 'Exists'], ['Pattern', 'Mu']], 'or-pattern alternatives')
    eq(arms[4]['pat']['k'], 'pstruct', 'leading | allowed')
    eq(arms[5]['body']['block']['expr']['op'], '&&', 'block body after comment')
    eq(arms[6]['body']['k'], 'match', 'nested match body')
    eq(arms[7]['pat'], {'k': 'tstruct', 'path': ['Term', 'Pattern'], 'pats': [bind('p', mut=True)]}, 'tstruct mut bind')
    eq(arms[8]['pat'], {'k': 'lit', 'v': 2}, 'int literal pattern')
    eq(arms[9]['pat'], {'k': 'wild'}, 'wildcard')
    eq(arms[9]['body']['name'], 'panic', 'last arm without trailing comma')


def test_patterns():
    eq(P('_'), {'k': 'wild'}, 'wild')
    eq(P('x'), bind('x'), 'bind')
    eq(P('mut p'), bind('p', mut=True), 'mut bind')
    eq(P('ref mut x'), bind('x', mut=True, ref=True), 'ref mut bind')
    eq(P('n @ 1..=5'), bind('n', sub={'k': 'prange', 'lo': {'k': 'lit', 'v': 1}, 'hi': {'k': 'lit', 'v': 5},
                                      'inclusive': True}), 'bind @ range')
    eq(P('-3'), {'k': 'lit', 'v': -3}, 'negative literal')
    eq(P('"s"'), {'k': 'lit', 'v': 's'}, 'string literal')
    eq(P('true'), {'k': 'lit', 'v': True}, 'bool literal')
    eq(P('ExecutionPhase::Gamma'), {'k': 'ppath', 'segs': ['ExecutionPhase', 'Gamma']}, 'ppath')
    eq(P('None'), {'k': 'ppath', 'segs': ['None']}, 'uppercase ident is a path')
    eq(P('Pattern::EVar(name)'), {'k': 'tstruct', 'path': ['Pattern', 'EVar'], 'pats': [bind('name')]}, 'tstruct')
    eq(P('Some(Term::Proved(_))'), {'k': 'tstruct', 'path': ['Some'],
                                    'pats': [{'k': 'tstruct', 'path': ['Term', 'Proved'], 'pats': [{'k': 'wild'}]}]},
       'nested tstruct')
    eq(P('Pattern::MetaVar { e_fresh, .. }'),
       {'k': 'pstruct', 'path': ['Pattern', 'MetaVar'], 'fields': [['e_fresh', bind('e_fresh')]], 'rest': True}, 'pstruct ..')
    eq(P('Pattern::Implies { left: l, right: Some(r), ref mut x, }'),
       {'k': 'pstruct', 'path': ['Pattern', 'Implies'],
        'fields': [['left', bind('l')], ['right', {'k': 'tstruct', 'path': ['Some'], 'pats': [bind('r')]}],
                   ['x', bind('x', mut=True, ref=True)]], 'rest': False}, 'pstruct renames')
    eq(P('&x'), {'k': 'pref', 'pat': bind('x'), 'mut': False}, 'pref')
    eq(P('&mut x'), {'k': 'pref', 'pat': bind('x'), 'mut': True}, 'pref mut')
    eq(P('&&x')['pat']['k'], 'pref', '&& pattern')
    eq(P('A | B | C')['k'], 'por', 'por')
    eq(len(P('| A | B')['pats']), 2, 'leading |')
    eq(P('(a, _, ..)'), {'k': 'ptuple', 'pats': [bind('a'), {'k': 'wild'}, {'k': 'rest'}]}, 'ptuple with rest')
    eq(P('(A | B)')['k'], 'por', 'parenthesised or-pattern')
    eq(P('[first, .., last]')['pats'][1], {'k': 'rest'}, 'slice pattern')


def test_types():
    T = R.parse_type
    eq(T('Vec<Rc<Pattern>>'), 'Vec < Rc < Pattern > >', '>> split in types')
    eq(T('Option<Vec<Rc<Pattern>>>'), 'Option < Vec < Rc < Pattern > > >', '>>> split')
    eq(T('&Rc<Pattern>'), '& Rc < Pattern >', 'ref type')
    eq(T("&'a mut [Id]"), "& 'a mut [ Id ]", 'lifetime, mut, slice')
    eq(T("core::slice::Iter<'a, InstByte>"), "core :: slice :: Iter < 'a , InstByte >", 'path type with lifetime arg')
    eq(T('(u8, &str)'), '( u8 , & str )', 'tuple type')
    eq(T('[u8; 4]'), '[ u8 ; 4 ]', 'array type')
    eq(T('impl Fn(u8) -> bool'), 'impl Fn ( u8 ) -> bool', 'impl Fn')
    eq(T("Box<dyn Iterator<Item = u8> + 'a>"), "Box < dyn Iterator < Item = u8 > + 'a >", 'dyn + assoc binding')
    eq(T('*const u8'), '* const u8', 'raw pointer')
    eq(T('fn(u8) -> u8'), 'fn ( u8 ) -> u8', 'fn pointer')
    b = B('{ let mut plugs: Vec<Rc<Pattern>> = Vec::with_capacity(n); let x: Vec<u8>= y; }')
    eq(b['stmts'][0], {'k': 'let', 'pat': bind('plugs', mut=True), 'ty': 'Vec < Rc < Pattern > >',
                       'init': call(path('Vec', 'with_capacity'), path('n'))}, 'let with nested generic type')
    eq(b['stmts'][1]['ty'], 'Vec < u8 >', '`>=` split after a type')


def test_blocks():
    b = B('{ if a { x } else { y } *p = ret }')
    eq(b['stmts'][0]['semi'], False, 'block-like stmt needs no semicolon')
    eq(b['stmts'][0]['e']['k'], 'if', 'if stmt')
    eq(b['expr'], {'k': 'assign', 'op': '=', 'l': un('*', path('p')), 'r': path('ret')}, 'tail assign after if stmt')
    b = B('{ match x { _ => 1 } - 1 }')
    eq((b['stmts'][0]['e']['k'], b['expr']), ('match', un('-', lit(1))), 'match stmt then unary minus')
    b = B('{ match x { _ => a }.foo(); if c { } }')
    eq(b['stmts'][0]['e']['k'], 'mcall', 'method call on block-like stmt')
    eq(b['expr']['k'], 'if', 'trailing block-like becomes block expr')
    b = B('{ _ = pop_stack(stack); }')
    eq(b, block([stmt({'k': 'assign', 'op': '=', 'l': path('_'), 'r': call(path('pop_stack'), path('stack'))})]), '_ = e;')
    b = B('{ let Some(x) = y else { return; }; let (a, mut b) = t; let z; ; fn inner(q: u8) -> u8 { q } inner(1) }')
    eq(b['stmts'][0]['else']['stmts'][0]['e'], {'k': 'return', 'e': None}, 'let-else')
    eq(b['stmts'][1]['pat'], {'k': 'ptuple', 'pats': [bind('a'), bind('b', mut=True)]}, 'let tuple')
    eq(b['stmts'][2], {'k': 'let', 'pat': bind('z'), 'ty': None, 'init': None}, 'let without init')
    eq(b['stmts'][3]['k'], 'item', 'nested item')
    eq(b['stmts'][3]['item']['name'], 'inner', 'nested fn')
    eq(b['expr'], call(path('inner'), lit(1)), 'tail call')
    b = B('{ while let Some(i) = it.next() { match f(*i) { A::B => { s.push(1) } _ => { unimplemented!("x {}", i) } } } }')
    eq(b['expr']['k'], 'whilelet', 'while-let as tail')
    eq(len(b['expr']['body']['expr']['arms']), 2, 'arms without commas')


def test_items():
    items = R.parse_source('''
        #![no_std]
        extern crate alloc;
        use alloc::{rc::Rc, vec::Vec as V};
        /// doc comment
        #[inline(always)]
        pub(crate) fn f<'a, T: Clone>(x: &'a T, mut y: u8, _: (), (p, q): (u8, u8)) -> Vec<Vec<u8>> where T: Copy { /* c /* nested */ */ }
        #[derive(Debug)]
        pub struct S<T> { pub a: Vec<Vec<T>>, b: u8 }
        struct U(u8, pub Rc<u8>);
        const N: usize = 1 << 4;
        trait Tr { fn m(&self) -> u8; fn d(&mut self) {} }
        impl<T> Tr for S<T> { fn m(&self) -> u8 { self.b } }
        impl S<u8> { pub fn new() -> Self { S { a: Vec::new(), b: 0 } } fn by_val(mut self, k: u8) {} }
        mod inner { pub fn g() {} }
        #[cfg(test)]
        mod tests { use super::*; #[test] fn t() { let x = <<<weird>>> "}" ; } }
        ''')
    well_formed(items)
    eq([it['k'] for it in items],
       ['inner_attr', 'extern_crate', 'use', 'fn', 'struct', 'struct', 'const', 'trait', 'impl', 'impl', 'mod', 'mod'], 'kinds')
    eq(items[2]['path'], 'alloc::{rc::Rc, vec::Vec as V}', 'use path')
    f = items[3]
    eq((f['name'], f['generics'], f['ret'], f['attrs'], f['pub'], f['self']),
       ('f', "< 'a , T : Clone >", 'Vec < Vec < u8 > >', ['inline(always)'], True, None), 'fn header')
    eq([(p['name'], p['ty'], p['mut']) for p in f['params']],
       [('x', "& 'a T", False), ('y', 'u8', True), ('_', '( )', False), (None, '( u8 , u8 )', False)], 'fn params')
    eq(S(f['body']), block(), 'empty body with nested comment')
    eq(items[4]['fields'], [['a', 'Vec < Vec < T > >'], ['b', 'u8']], 'struct fields')
    eq(items[5]['fields'], [[None, 'u8'], [None, 'Rc < u8 >']], 'tuple struct fields')
    eq(S(items[6]['init']), binop('<<', lit(1), lit(4)), 'const init')
    eq([(m['name'], m['self'], m['body'] is None) for m in items[7]['items']],
       [('m', '&self', True), ('d', '&mut self', False)], 'trait methods')
    eq((items[8]['target'], items[8]['trait']), ('S < T >', 'Tr'), 'trait impl')
    eq([(m['name'], m['self']) for m in items[9]['items']], [('new', None), ('by_val', 'mut self')], 'inherent impl')
    eq(items[10]['items'][0]['name'], 'g', 'plain mod parsed')
    eq((items[11]['name'], items[11]['items'], items[11]['attrs']), ('tests', None, ['cfg(test)']), 'cfg(test) mod skipped')
    e = R.parse_source('enum E { A = 2, B, C(u8, Rc<E>), D { x: u8, y: Vec<Vec<u8>> }, Z = (9 + 128) }')[0]
    eq([(v['name'], v['kind'], v['fields']) for v in e['variants']],
       [('A', 'unit', []), ('B', 'unit', []), ('C', 'tuple', [[None, 'u8'], [None, 'Rc < E >']]),
        ('D', 'struct', [['x', 'u8'], ['y', 'Vec < Vec < u8 > >']]), ('Z', 'unit', [])], 'enum variants')
    eq(S(e['variants'][0]['disc']), lit(2), 'discriminant')
    eq(S(e['variants'][4]['disc']), binop('+', lit(9), lit(128)), 'parenthesised discriminant')


def test_errors():
    for src, line in [('fn f() {\n let x = ;\n}', 2), ('fn f() {\n\n\n  a b\n}', 4), ('fn f() {\n', 2),
                      ('fn f() { "abc', 1), ('\n\nstruct', 3)]:
        try:
            R.parse_source(src)
            check(False, f'no error for {src!r}')
        except R.ParseError as e:
            check(re.match(rf'line {line}: ', str(e)), f'expected error at line {line}, got: {e}')


# ------------------------------------------------------------------------------------------ lib.rs
PATTERN_VARIANTS = [
    ('EVar', 'tuple', [None]), ('SVar', 'tuple', [None]), ('Symbol', 'tuple', [None]),
    ('Implies', 'struct', ['left', 'right']), ('App', 'struct', ['left', 'right']),
    ('Exists', 'struct', ['var', 'subpattern']), ('Mu', 'struct', ['var', 'subpattern']),
    ('MetaVar', 'struct', ['id', 'e_fresh', 's_fresh', 'positive', 'negative', 'app_ctx_holes']),
    ('ESubst', 'struct', ['pattern', 'evar_id', 'plug']), ('SSubst', 'struct', ['pattern', 'svar_id', 'plug'])]


def check_lib(items, verbose=False, src=None):
    well_formed(items)
    if verbose:
        print('top-level items:')
        for it in items:
            name = it.get('name') or it.get('target') or it.get('path') or it.get('text')
            sub = ''
            if it['k'] == 'impl':
                sub = '  { ' + ', '.join(f['name'] for f in it['items']) + ' }'
            elif it['k'] == 'enum':
                sub = f'  ({len(it["variants"])} variants)'
            elif it['k'] == 'mod':
                sub = '  (skipped)' if it['items'] is None else ''
            print(f'  {it["line"]:5d}  {it["k"]:12s} {name}{sub}')
    for name in ['e_fresh', 's_fresh', 'positive', 'negative', 'well_formed', 'is_redundant_subst']:
        f = R.find_fn(items, name, impl='Pattern')
        check(f is not None and f['self'] == '&self', f'Pattern::{name} not found')
    f = R.find_fn(items, 'from', impl='Instruction')
    check(f is not None and f['self'] is None and f['params'][0]['ty'] == 'InstByte', 'Instruction::from')
    check(len(f['body']['expr']['arms']) >= 31, 'Instruction::from arms')
    for name in ['apply_esubst', 'apply_ssubst', 'instantiate_internal', 'instantiate_in_place', 'pop_stack',
                 'pop_stack_pattern', 'pop_stack_proved', 'read_u8_vec', 'execute_instructions', 'verify']:
        check(R.find_fn(items, name) is not None, f'fn {name} not found')
    ex = R.find_fn(items, 'execute_instructions')
    eq(ex['generics'], "< 'a >", 'execute_instructions generics')
    eq([p['name'] for p in ex['params']], ['buffer', 'stack', 'memory', 'claims', 'phase'], 'execute_instructions params')
    eq(ex['params'][1]['ty'], '& mut Stack', 'stack param type')
    loops = [n for n in R.walk(ex['body']) if n.get('k') == 'whilelet']
    check(len(loops) == 1, 'one while-let in execute_instructions')
    body = loops[0]['body']
    main = body['expr'] if body['expr'] is not None else body['stmts'][-1]['e']
    check(main['k'] == 'match' and S(main['e'])['f'] == path('Instruction', 'from'), 'main match on Instruction::from(..)')
    narms = len(main['arms'])
    # NB: the 31-arm match is Instruction::from (checked above); the dispatch match in execute_instructions has
    # 24 instruction arms + `_` = 25 in the source (cross-checked against a textual count below).
    check(narms >= 25, f'execute_instructions match has {narms} arms (< 25)')
    if src is not None:
        lines = src.split('\n')[ex['line'] - 1:R.find_fn(items, 'verify')['line'] - 1]
        textual = sum(1 for ln in lines if re.match(r' {12}(Instruction::\w+( \| Instruction::\w+)*|_) =>', ln))
        eq(narms, textual, 'execute_instructions arm count vs textual count of 12-space-indented arms')
    pat = [it for it in items if it['k'] == 'enum' and it['name'] == 'Pattern'][0]
    eq([(v['name'], v['kind'], [f[0] for f in v['fields']]) for v in pat['variants']], PATTERN_VARIANTS, 'enum Pattern')
    check(all(f[1] in ('Id', 'IdList', 'Rc < Pattern >') for v in pat['variants'] for f in v['fields']), 'Pattern field types')
    ins = [it for it in items if it['k'] == 'enum' and it['name'] == 'Instruction'][0]
    check(ins['variants'][0]['name'] == 'EVar' and S(ins['variants'][0]['disc']) == lit(2), 'Instruction::EVar = 2')
    check(S(ins['variants'][-1]['disc']) == binop('+', lit(9), lit(128)), 'CleanMetaVar = (9 + 128)')
    check(ins['attrs'][0] == 'rustfmt::skip', 'enum attrs')
    mods = [it for it in items if it['k'] == 'mod']
    check(len(mods) == 1 and mods[0]['items'] is None and 'cfg(test)' in mods[0]['attrs'], 'test module skipped')
    eq([it['text'] for it in items if it['k'] == 'inner_attr'], ['deny(warnings)', 'no_std'], 'inner attrs')
    ii = R.find_fn(items, 'instantiate_internal')
    eq(ii['ret'], 'Option < Rc < Pattern > >', 'instantiate_internal ret')
    eq(ii['params'][2]['ty'], '& [ Rc < Pattern > ]', 'slice param')
    check(any(n.get('k') == 'try' for n in R.walk(ii['body'])), '`new_sub?` present')
    check(any(n.get('k') == 'iflet' for n in R.walk(ii['body'])), 'if let present')
    wf = R.find_fn(items, 'well_formed', impl='Pattern')
    check(sum(n.get('k') == 'matches' for n in R.walk(wf['body'])) >= 2, 'matches! in well_formed')
    return narms


def sub_once(text, pattern, repl, what):
    out, n = re.subn(pattern, repl, text, count=1, flags=re.S)
    check(n == 1, f'scratch variant {what}: anchor not found in lib.rs')
    return out


def test_lib_and_variants():
    src = open(LIB, encoding='utf-8').read()
    items = R.parse_source(src)
    eq(items, R.parse_file(LIB), 'parse_file == parse_source')
    narms = check_lib(items, verbose=True, src=src)
    print(f'execute_instructions main match: {narms} arms; Instruction::from match: '
          f'{len(R.find_fn(items, "from", impl="Instruction")["body"]["expr"]["arms"])} arms')
    os.makedirs('/tmp/rsparse_variants', exist_ok=True)
    # (a) extra assert! statement inside a match-arm block
    va = sub_once(src, r'(Pattern::Exists \{ var, subpattern \} => \{\n)',
                  r'\1            assert!(plug.s_fresh(*var), "msg {}", var);\n', 'a')
    # (b) two match arms merged by an or-pattern (twice)
    vb = sub_once(src, r'Pattern::Implies \{ left, right \} => (left\.e_fresh\(evar\) && right\.e_fresh\(evar\)),\n'
                       r'\s*Pattern::App \{ left, right \} => left\.e_fresh\(evar\) && right\.e_fresh\(evar\),',
                  r'Pattern::Implies { left, right } | Pattern::App { left, right } => \1,', 'b1')
    vb = sub_once(vb, r'Pattern::Exists \{ subpattern, \.\. \} => subpattern\.negative\(svar\),\n'
                      r'\s*Pattern::Mu \{ var, subpattern \} => (svar == \*var \|\| subpattern\.negative\(svar\)),',
                  r'Pattern::Exists { var, subpattern } | Pattern::Mu { var, subpattern } => \1,', 'b2')
    # (c) read_u8_vec body replaced
    vc_ = sub_once(src, r"(fn read_u8_vec<'a>\(iterator: &mut InstrIterator\) -> Vec<u8> \{\n).*?\n\}\n",
                   r'\1    let len = (*iterator.next().expect("Expected length for array")) as usize;\n'
                   r'    return iterator.take(len).copied().collect();\n}\n', 'c')
    for tag, text in (('a', va), ('b', vb), ('c', vc_)):
        p = f'/tmp/rsparse_variants/lib_{tag}.rs'
        with open(p, 'w', encoding='utf-8') as f:
            f.write(text)
        its = R.parse_file(p)
        check_lib(its, src=text)
        if tag == 'a':
            n = sum(1 for x in R.walk(its) if x.get('k') == 'macro' and x['name'] == 'assert' and len(x['args']) == 3
                    and S(x['args'][1]) == lit('msg {}'))
            check(n == 1, 'variant a: added assert! found')
        elif tag == 'b':
            ors = [x for x in R.walk(its) if x.get('k') == 'por']
            check(any([p_['path'][1] for p_ in o['pats']] == ['Implies', 'App'] for o in ors), 'variant b: Implies|App')
            check(any([p_['path'][1] for p_ in o['pats']] == ['Exists', 'Mu'] for o in ors), 'variant b: Exists|Mu')
        else:
            body = R.find_fn(its, 'read_u8_vec')['body']
            eq(len(body['stmts']), 2, 'variant c: two statements')
            eq(S(body['stmts'][1]['e']),
               {'k': 'return', 'e': mcall(mcall(mcall(path('iterator'), 'take', path('len')), 'copied'), 'collect')},
               'variant c: return iterator.take(len).copied().collect();')
        print(f'scratch variant ({tag}) {p}: parsed OK')


if __name__ == '__main__':
    for t in (test_exprs, test_match, test_patterns, test_types, test_blocks, test_items, test_errors,
              test_lib_and_variants):
        t()
        print(f'{t.__name__}: ok')
    print(f'ALL OK ({NCHECK} checks)')
