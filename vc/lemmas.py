"""Lemmas about spec functions: proved by explicit structural induction (one VC per constructor), then made
available to code VCs by trigger-based instantiation (our own, deterministic E-matching over the VC's terms).
The solver is never asked to do induction."""
import z3
from .sorts import *  # noqa
from . import solve

_SORT_ADT = {}


def _adt_for(sort):
    for A in (M, P, MMp, PMp, IDL, MLs, TLs, TRM, PTLs, PCLs, PTR):
        if A.sort == sort:
            return A
    raise KeyError(sort)


class Lemma:
    def __init__(self, name, vars, stmt, ind=None, triggers=None, uses=(), companions=(), ih_extra=None, doc='',
                 nonind=False, split_depth=0, hints=(), rewrite=False, trusted=False, int_ind=None, crewrite=False):
        self.name = name
        self.vars = vars
        self.stmt = stmt
        self.ind = ind
        self.triggers = triggers or []
        self.uses = list(uses)
        self.companions = list(companions)   # other Lemma objects proved simultaneously (mutual induction)
        self.ih_extra = ih_extra             # callable(field_term, vars)->list of substitutions lists for extra IH instances
        self.doc = doc
        self.nonind = nonind
        self.split_depth = split_depth
        self.crewrite = crewrite     # conditional equation H => lhs == rhs: once H is entailed by the VC, lhs is replaced by rhs (solve.saturate)
        self.rewrite = rewrite       # an unconditional equation lhs == rhs used left-to-right by the normaliser
        self.hints = list(hints)     # explicit instances: (lemma name, [terms])
        self.int_ind = int_ind       # strong induction on a natural number: callable(n, vars) -> list of (smaller term m, [extra substitutions])
        self.trusted = trusted       # an axiom of the trusted base (textbook meta-theory): never proved here, always reported
        self.proved = None

    def inst(self, *terms):
        return z3.substitute(self.stmt, *list(zip(self.vars, terms)))

    def inst_map(self, mp):
        return z3.substitute(self.stmt, *[(v, mp.get(v.get_id(), v)) for v in self.vars])


_SUB_MEMO = {}


def reset_memo():
    _SUB_MEMO.clear()


def subterms(es):
    """All subterms of the formulas (memoised per top-level formula; the memo keeps the terms alive)."""
    out = {}
    for e in es:
        k = e.get_id()
        m = _SUB_MEMO.get(k)
        if m is None:
            m = (e, _subterms1([e]))
            _SUB_MEMO[k] = m
        for t in m[1]:
            out[t.get_id()] = t
    return list(out.values())


def _subterms1(es):
    seen = {}
    stack = list(es)
    while stack:
        e = stack.pop()
        i = e.get_id()
        if i in seen:
            continue
        seen[i] = e
        if z3.is_app(e):
            stack.extend(e.children())
        elif z3.is_quantifier(e):
            pass
    return list(seen.values())


def match(pat, term, varids, binding):
    """One-way syntactic matching of trigger `pat` (with lemma vars) against ground-ish `term`."""
    if z3.is_const(pat) and pat.get_id() in varids:
        b = binding.get(pat.get_id())
        if b is None:
            if pat.sort() != term.sort():
                return False
            binding[pat.get_id()] = term
            return True
        return b.eq(term)
    if not z3.is_app(pat) or not z3.is_app(term):
        return pat.eq(term)
    if not pat.decl().eq(term.decl()) or pat.num_args() != term.num_args():
        return False
    for a, b in zip(pat.children(), term.children()):
        if not match(a, b, varids, binding):
            return False
    return True


def instantiate(lemmas, formulas, rounds=3, limit=4000, tagged=False):
    """Instances of proved lemmas whose trigger matches a subterm of the formulas."""
    out = []
    tags = []
    seen = set()
    cur = list(formulas)
    for _ in range(rounds):
        new = []
        terms = subterms(cur + out)
        by_decl = {}
        for t in terms:
            if z3.is_app(t):
                by_decl.setdefault(t.decl().name(), []).append(t)
        for lm in lemmas:
            varids = {v.get_id() for v in lm.vars}
            for trig in lm.triggers:
                trigs = trig if isinstance(trig, (list, tuple)) else [trig]
                # multi-trigger: all patterns must match with a common binding
                bindings = [{}]
                for tp in trigs:
                    nb = []
                    for t in by_decl.get(tp.decl().name(), []):
                        for b in bindings:
                            b2 = dict(b)
                            if match(tp, t, varids, b2):
                                nb.append(b2)
                    bindings = nb
                    if not bindings:
                        break
                for b in bindings:
                    if len(b) != len(lm.vars):
                        continue
                    key = (lm.name, tuple(b[v.get_id()].get_id() for v in lm.vars))
                    if key in seen:
                        continue
                    seen.add(key)
                    f = lm.inst_map(b)
                    new.append(f)
                    tags.append(lm)
                    if len(out) + len(new) > limit:
                        return (out + new, tags) if tagged else out + new
        if not new:
            break
        out.extend(new)
        cur = new
    return (out, tags) if tagged else out


def prove_lemma(lm, library, seed=0):
    """Induction on lm.ind; returns list of (arm name, Verdict)."""
    group = [lm] + lm.companions
    results = []
    if lm.trusted:
        lm.proved = True
        return results
    if lm.int_ind is not None:
        # well-founded induction on n >= 0: hypotheses are instances at explicitly given smaller naturals m (0 <= m < n is proved)
        n = lm.ind
        hy = []
        side = []
        for m, subs in lm.int_ind(n, lm.vars):
            hy.append(z3.Implies(z3.And(m >= 0, m < n), z3.substitute(lm.stmt, (n, m), *subs)))
        hy += [library[h].inst(*ts) for h, ts in lm.hints]
        v = solve.prove(hy + [n >= 0], lm.stmt, seed=seed, lemmas=[library[u] for u in lm.uses], split_depth=max(1, lm.split_depth))
        results.append((f'lemma:{lm.name}/strong-induction', v))
        lm.proved = v.status == 'proved'
        return results
    if lm.nonind:
        goal = lm.stmt
        hy = [library[n].inst(*ts) for n, ts in lm.hints]
        v = solve.prove(hy, goal, seed=seed, lemmas=[library[u] for u in lm.uses], split_depth=max(1, lm.split_depth))
        results.append((f'lemma:{lm.name}/direct', v))
        lm.proved = v.status == 'proved'
        # vacuity guard: the antecedent of an implication must be satisfiable together with the hints
        if z3.is_implies(goal):
            ok = solve.feasible(hy + [goal.arg(0)], timeout_ms=5000)
            if not ok:
                results.append((f'lemma:{lm.name}/vacuity', solve.Verdict('unknown', 'z3', 0.0, detail='antecedent unsatisfiable: lemma holds vacuously')))
                lm.proved = False
        return results
    ok = True
    for g in group:
        A = _adt_for(g.ind.sort())
        for cn, c in A.ctor.items():
            fields = []
            for j in range(c.arity()):
                fields.append(z3.Const(f'{g.name}!{cn}!{j}', c.domain(j)))
            val = c(*fields) if c.arity() else c()
            goal = z3.substitute(g.stmt, (g.ind, val))
            ih = []
            for f in fields:
                for h in group:
                    if h.ind.sort() == f.sort():
                        ih.append(z3.substitute(h.stmt, (h.ind, f)))
                        if h.ih_extra:
                            for subs in h.ih_extra(f, val, h.vars):
                                ih.append(z3.substitute(h.stmt, (h.ind, f), *subs))
            v = solve.prove(ih, goal, seed=seed, lemmas=[library[u] for u in g.uses], split_depth=g.split_depth)
            if v.status == 'refuted':
                v.inputs = {str(x): (val if x.eq(g.ind) else x) for x in g.vars}
            results.append((f'lemma:{g.name}/arm={cn}', v))
            ok = ok and v.status == 'proved'
    for g in group:
        g.proved = ok
    return results
