"""MMNUM: the compressed-proof number codec of the Metamath book, Appendix B -- spec functions and its algebra, stated directly on
character codes.  A number is written  u_1 ... u_k l  with u_i in U..Y (values 1..5, most significant first) and l in A..T (1..20):
    value = ((...(u_1*5 + u_2)*5 + ... + u_k) * 20 + l          (left-to-right Horner evaluation of the book's decoder)
"""
import z3
from .sorts import *  # noqa
from .spec import _rec, _def, SpecFn
from .lemmas import Lemma

I = z3.IntSort()
B = z3.BoolSort()
l_ = z3.Const('l', IdL)
s_ = z3.Const('s_', IdL)
t_ = z3.Const('t_', IdL)
a_ = z3.Int('a_')
d_ = z3.Int('d_')
n_ = z3.Int('n_')
k_ = z3.Int('k_')

hd = lambda t: IDL.get('icons', 'ihd', t)
tl = lambda t: IDL.get('icons', 'itl', t)
nil = IDL.mk('inil')
U = 84   # ord('U') - 1: msd value of char c is c - 84
A = 64   # ord('A') - 1: lsd value of char c is c - 64


def mdig(c):
    return c - U


def is_msd(c):
    return z3.And(c >= 85, c <= 89)


def is_lsd(c):
    return z3.And(c >= 65, c <= 84)


# hval(a, w): the book's decoder on the U..Y prefix, most significant first, from accumulator a
hval = _rec('mm_hval', I, IdL, I)
_def(hval, [a_, l_], z3.If(IDL.is_('inil', l_), a_, hval(a_ * 5 + mdig(hd(l_)), tl(l_))), dec=1)
# val_rev(s): value of a U..Y sequence given LEAST significant first
val_rev = _rec('mm_val_rev', IdL, I)
_def(val_rev, [s_], z3.If(IDL.is_('inil', s_), z3.IntVal(0), mdig(hd(s_)) + 5 * val_rev(tl(s_))))
rev_acc = _rec('mm_rev_acc', IdL, IdL, IdL)
_def(rev_acc, [l_, s_], z3.If(IDL.is_('inil', l_), s_, rev_acc(tl(l_), IDL.mk('icons', hd(l_), s_))))
msds = _rec('mm_msds', IdL, B)
_def(msds, [s_], z3.If(IDL.is_('inil', s_), True, z3.And(is_msd(hd(s_)), msds(tl(s_)))))
enc_rev = _rec('mm_enc_rev', I, IdL)
_def(enc_rev, [n_], z3.If(n_ <= 0, nil, IDL.mk('icons', ((n_ - 1) % 5) + 1 + U, enc_rev((n_ - 1) / 5))), dec=0)
il_app = _rec('il_app', IdL, IdL, IdL)
_def(il_app, [l_, s_], z3.If(IDL.is_('inil', l_), s_, IDL.mk('icons', hd(l_), il_app(tl(l_), s_))))
pow5 = z3.Function('pow5', I, I)       # python pow(5, k), k >= 0


def number(word_msds, lsd_char):
    """value of the word: U..Y chars (most significant first) followed by one A..T char"""
    return hval(z3.IntVal(0), word_msds) * 20 + (lsd_char - A)


def encode(n):
    """(reversed msd chars, lsd char) of n >= 1"""
    return enc_rev((n - 1) / 20), ((n - 1) % 20) + 1 + A


LIB = {}


def L(name, vars, stmt, **kw):
    l = Lemma(name, vars, stmt, **kw)
    LIB[name] = l
    return l


from .spec import il_len, il_snoc  # noqa: E402
L('pow5_def', [k_], z3.And(pow5(0) == 1, z3.Implies(k_ >= 0, z3.And(pow5(k_ + 1) == 5 * pow5(k_), pow5(k_) >= 1))), triggers=[pow5(k_)], trusted=True,
  doc='python int pow(5, k) for k >= 0: pow(5,0) = 1, pow(5,k+1) = 5*pow(5,k)')
L('mm_rev_horner', [l_, s_, a_], z3.Implies(val_rev(s_) == a_, val_rev(rev_acc(l_, s_)) == hval(a_, l_)), ind=l_,
  triggers=[rev_acc(l_, s_)],
  ih_extra=lambda f, val, vars: [[(vars[1], IDL.mk('icons', val.arg(0), vars[1])), (vars[2], vars[2] * 5 + mdig(val.arg(0)))]])
L('mm_val_enc', [n_], z3.Implies(n_ >= 0, z3.And(val_rev(enc_rev(n_)) == n_, msds(enc_rev(n_)))), ind=n_,
  int_ind=lambda n, vs: [((n - 1) / 5, [])], triggers=[enc_rev(n_)], split_depth=2,
  doc='every natural number has an encoding that decodes back to it')
L('mm_val_nonneg', [s_], z3.Implies(msds(s_), z3.And(val_rev(s_) >= 0, (val_rev(s_) == 0) == IDL.is_('inil', s_))), ind=s_,
  triggers=[val_rev(s_)])
L('mm_enc_val', [s_], z3.Implies(msds(s_), enc_rev(val_rev(s_)) == s_), ind=s_, triggers=[enc_rev(val_rev(s_))],
  uses=['mm_val_nonneg'], split_depth=2, doc='and exactly one: encoding the value of a U..Y sequence gives the sequence back')
L('il_len_nonneg2', [s_], il_len(s_) >= 0, ind=s_, triggers=[il_len(s_)])
L('mm_val_snoc', [s_, d_], val_rev(il_snoc(s_, d_)) == val_rev(s_) + mdig(d_) * pow5(il_len(s_)), ind=s_, triggers=[val_rev(il_snoc(s_, d_))],
  uses=['pow5_def', 'il_len_nonneg2'])
L('il_app_snoc', [s_, d_, t_], il_app(il_snoc(s_, d_), t_) == il_app(s_, IDL.mk('icons', d_, t_)), ind=s_, triggers=[il_app(il_snoc(s_, d_), t_)])
L('il_app_nil', [s_], il_app(s_, nil) == s_, ind=s_, triggers=[il_app(s_, nil)])
L('il_len_snoc2', [s_, d_], il_len(il_snoc(s_, d_)) == il_len(s_) + 1, ind=s_, triggers=[il_len(il_snoc(s_, d_))])
