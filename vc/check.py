"""Entry point: python3-vt -m vc.check <ID> [--tier quick|thorough] [--replay file]"""
import argparse
import importlib
import json
import os
import sys
import traceback


def main():
    ap = argparse.ArgumentParser()
    ap.add_argument('pid')
    ap.add_argument('--tier', default=os.environ.get('VERIF_TIER', 'quick'))
    ap.add_argument('--replay')
    ap.add_argument('--jobs', type=int, default=None)
    ap.add_argument('--root', default=os.environ.get('PI2_ROOT', '/repo'))
    a = ap.parse_args()
    os.environ['PI2_ROOT'] = a.root
    seed = int(os.environ.get('VERIF_SEED', '0') or 0)
    sys.setrecursionlimit(20000)
    from vc.pyfe import Repo
    from vc import prop
    try:
        mod = importlib.import_module('props.' + a.pid.lower())
        if a.replay:
            return mod.replay(a.replay, a.root) if hasattr(mod, 'replay') else prop.replay_file(a.replay, a.root)
        repo = Repo(a.root)
        spec = mod.build(repo, a.tier)
        return prop.run_property(spec, tier=a.tier, seed=seed, root=a.root, jobs=a.jobs)
    except Exception:
        traceback.print_exc()
        print(f'ERROR property={a.pid}: checker crashed')
        return 3


if __name__ == '__main__':
    sys.exit(main())
