"""Contracts on real functions and the two ways they are used.

  * caller side  (Contract.apply): prove `requires`, fork into the raising outcome if the contract allows one,
    otherwise introduce a fresh result and ASSUME `ensures`  -- the callee body is never looked at;
  * callee side (verify_unit): symbolic inputs, ASSUME `requires`, execute the REAL body, and emit one
    obligation per `ensures` clause on every normally returning path, plus `noraise` obligations on raising paths.
"""
import z3
from .engine import SV, SymRaise, Unsupported
from .pyfe import Interp, Obj
from .sorts import *  # noqa


class Contract:
    def __init__(self, name, params, result, requires=None, ensures=None, noraise_if=None, may_raise=False,
                 raises_cls='AssertionError', doc='', pure=True, result_cond=None):
        self.name = name
        self.params = params          # [(pname, kind or descriptor)]
        self.result = result          # descriptor or callable(args)->descriptor
        self._requires = requires or (lambda a: [])
        self._ensures = ensures or (lambda a, r: [])
        self.noraise_if = noraise_if  # callable(args)-> z3 Bool : under this condition no exception may escape
        self.may_raise = may_raise
        self.raises_cls = raises_cls
        self.doc = doc
        self.ncalls = 0

    def requires(self, a):
        return self._requires(a)

    def ensures(self, a, r):
        return self._ensures(a, r)

    def bind(self, args, kwargs=None):
        kwargs = kwargs or {}
        out = {}
        names = [p[0] for p in self.params]
        for i, n in enumerate(names):
            if i < len(args):
                out[n] = args[i]
            elif n in kwargs:
                out[n] = kwargs[n]
            else:
                p = self.params[i]
                if len(p) > 2:
                    out[n] = p[2]
                else:
                    raise SymRaise('TypeError', f'{self.name}: missing {n}')
        return out

    # ---- caller side -----------------------------------------------------------------------------------------
    def apply(self, interp, ctx, args, kwargs=None):
        a = self.bind(args, kwargs)
        k = sum(1 for x in interp.call_log if x == '@' + self.name)
        interp.call_log.append('@' + self.name)
        for label, cond in self.requires(a):
            ctx.oblige(f'callpre:{self.name}#{k}:{label}', cond, kind='callpre')
        if self.may_raise:
            nr = self.noraise_if(a) if self.noraise_if else None
            if nr is None or not z3.is_true(z3.simplify(nr)):
                b = z3.Bool(f'raises!{self.name}!{next(ctx.counter)}')
                if ctx.branch(b, f'{self.name} raises'):
                    if nr is not None:
                        ctx.assume(z3.Not(nr))
                        ctx.check_feasible()
                    raise SymRaise(self.raises_cls, '', f'callee {self.name}')
        desc = self.result(a) if callable(self.result) else self.result
        res = fresh_value(interp, ctx, desc, a)
        for label, cond in self.ensures(a, res):
            ctx.assume(cond)
        return res


def fresh_value(interp, ctx, desc, a=None, hint='r'):
    if desc is None or desc == 'none':
        return None
    if isinstance(desc, str):
        meta = None
        return ctx.fresh(desc, hint, meta)
    tag = desc[0]
    if tag == 'opt':
        cond = desc[2](a) if len(desc) > 2 and desc[2] is not None else z3.Bool(f'some!{next(ctx.counter)}')
        if ctx.branch(cond, 'result is not None'):
            return fresh_value(interp, ctx, desc[1], a, hint)
        return None
    if tag == 'tuple':
        return tuple(fresh_value(interp, ctx, d, a, f'{hint}{i}') for i, d in enumerate(desc[1:]))
    if tag == 'obj':
        cls = interp.repo.cls(desc[1], desc[2])
        return Obj(cls, {k: fresh_value(interp, ctx, d, a, k) for k, d in desc[3].items()})
    if tag == 'const':
        return desc[1]
    raise Unsupported(f'result descriptor {desc!r}')


def make_input(interp, ctx, name, kind, arm=None):
    """Symbolic input for parameter `name`.  arm: constructor name -> the input is that constructor applied to
    fresh fields (one arm of the structural induction)."""
    if isinstance(kind, tuple) and kind[0] == 'obj':
        cls = interp.repo.cls(kind[1], kind[2])
        return Obj(cls, {k: make_input(interp, ctx, f'{name}.{k}', d) for k, d in kind[3].items()})
    if isinstance(kind, tuple) and kind[0] == 'const':
        return kind[1]
    if kind in ('ppat', 'mpat') and arm:
        A = P if kind == 'ppat' else M
        zs = []
        for f in FIELDS[arm]:
            fk = FKIND[f]
            k2 = {'pat': kind, 'int': 'int', 'idl': 'idl', 'map': 'pmap'}[fk]
            zs.append(ctx.input(k2, f'{name}.{f}').t)
        v = SV(A.mk(arm, *zs), kind)
        ctx.inputs[name] = v
        return v
    return ctx.input(kind, name)


def verify_unit(repo, contracts, func, contract, arm=None, arm_param='self', opts=None, extra_assume=None):
    """Returns fn(ctx) for engine.explore: the callee-side check of `contract` on the real `func`."""
    opts = opts or {}

    def unit(ctx):
        interp = Interp(repo, ctx, contracts, opts=opts)
        args = []
        amap = {}
        for p in contract.params:
            pname, kind = p[0], p[1]
            v = make_input(interp, ctx, pname, kind, arm if pname == arm_param else None)
            amap[pname] = v
            args.append(v)
        for label, cond in contract.requires(amap):
            ctx.assume(cond)
        if extra_assume:
            for c in extra_assume(amap):
                ctx.assume(c)
        ctx.check_feasible()
        ctx.cover('requires')
        try:
            if func.kind == 'classmethod':
                res = interp.run_function(func, args)
            else:
                res = interp.run_function(func, args)
        except SymRaise as e:
            nr = contract.noraise_if(amap) if contract.noraise_if else None
            if nr is not None:
                ctx.oblige(f'noraise[{e.cls}@{e.where}]', z3.Not(nr), kind='noraise', exc=e.cls, where=e.where)
            elif not contract.may_raise:
                ctx.oblige(f'noraise[{e.cls}@{e.where}]', z3.BoolVal(False), kind='noraise', exc=e.cls, where=e.where)
            raise
        for label, cond in contract.ensures(amap, res):
            ctx.oblige(f'post:{label}', cond, kind='post')
        return res
    return unit


class ShapeMismatch(Exception):
    """The real function returned a value of a different shape than the contract's result type."""


def zb(v):
    if isinstance(v, bool):
        return z3.BoolVal(v)
    if isinstance(v, SV) and v.kind == 'bool':
        return v.t
    raise ShapeMismatch(f'expected bool, got {v!r}')


def zi(v):
    if isinstance(v, bool):
        raise ShapeMismatch(f'expected int, got {v!r}')
    if isinstance(v, int):
        return z3.IntVal(v)
    if isinstance(v, SV) and v.kind in ('int', 'name'):
        return v.t
    raise ShapeMismatch(f'expected int, got {v!r}')


def zp(v, kind='ppat'):
    if isinstance(v, SV) and v.kind == kind:
        return v.t
    raise ShapeMismatch(f'expected {kind}, got {v!r}')


def zm(v):
    if isinstance(v, SV) and v.kind == 'pmap':
        return v.t
    if isinstance(v, dict):
        r = PMp.mk('pnil')
        for k, x in reversed(list(v.items())):
            r = PMp.mk('pcons', zi(k), zp(x), r)
        return r
    raise ShapeMismatch(f'expected mapping, got {v!r}')
