"""Semantic layer for C01: validity as an abstract predicate constrained by the TRUSTED soundness of the textbook Hilbert
system of applicative matching logic (Chen, Lucanu, Rosu), admissible valuations with capture-free pending substitutions,
and the glue lemmas (proved by induction) that connect the checker's meta-level operations to ground substitution."""
import z3
from .sorts import *  # noqa
from .spec import *  # noqa
from .spec import _rec, _def, _case
from .lemmas import Lemma

p, q = z3.Const('p', MPat), z3.Const('q', MPat)
x, y = z3.Int('x'), z3.Int('y')
a_, b_ = z3.Const('a_', MPat), z3.Const('b_', MPat)
c_ = z3.Const('c_', MPat)

Valid = z3.Function('Valid', MPat, B)      # "holds in every model under every valuation" -- abstract

# actual capture: a binder of a variable free in the plug lies above a free occurrence of the substituted variable
capr_e = _rec('capr_e', MPat, I, MPat, B)
_def(capr_e, [p, y, q], _case(p, [
    ('Implies', lambda l, r: z3.Or(capr_e(l, y, q), capr_e(r, y, q))),
    ('App', lambda l, r: z3.Or(capr_e(l, y, q), capr_e(r, y, q))),
    ('Exists', lambda v, s: z3.And(v != y, z3.Or(z3.And(fve(q, v), fve(s, y)), capr_e(s, y, q)))),
    ('Mu', lambda v, s: z3.Or(z3.And(fvs(q, v), fve(s, y)), capr_e(s, y, q))),
], z3.BoolVal(False)))
capr_s = _rec('capr_s', MPat, I, MPat, B)
_def(capr_s, [p, y, q], _case(p, [
    ('Implies', lambda l, r: z3.Or(capr_s(l, y, q), capr_s(r, y, q))),
    ('App', lambda l, r: z3.Or(capr_s(l, y, q), capr_s(r, y, q))),
    ('Exists', lambda v, s: z3.Or(z3.And(fve(q, v), fvs(s, y)), capr_s(s, y, q))),
    ('Mu', lambda v, s: z3.And(v != y, z3.Or(z3.And(fvs(q, v), fvs(s, y)), capr_s(s, y, q)))),
], z3.BoolVal(False)))


class Sem:
    """inst / adm / thm for one valuation symbol (an uninterpreted function Int -> MPat: 'for every valuation')."""

    def __init__(self, sig, suffix):
        self.sig = sig
        inst = _rec('inst_' + suffix, MPat, MPat)
        _def(inst, [p], _case(p, [
            ('Implies', lambda l, r: M.mk('Implies', inst(l), inst(r))),
            ('App', lambda l, r: M.mk('App', inst(l), inst(r))),
            ('Exists', lambda v, s: M.mk('Exists', v, inst(s))),
            ('Mu', lambda v, s: M.mk('Mu', v, inst(s))),
            ('MetaVar', lambda n, a, b, c, d, e: sig(n)),
            ('ESubst', lambda b, v, pl: subst_e(inst(b), v, inst(pl))),
            ('SSubst', lambda b, v, pl: subst_s(inst(b), v, inst(pl))),
        ], p))
        adm = _rec('admc_' + suffix, MPat, B)
        _def(adm, [p], _case(p, [
            ('Implies', lambda l, r: z3.And(adm(l), adm(r))),
            ('App', lambda l, r: z3.And(adm(l), adm(r))),
            ('Exists', lambda v, s: adm(s)),
            ('Mu', lambda v, s: adm(s)),
            ('MetaVar', lambda n, a, b, c, d, e: z3.And(all_efresh(a, sig(n)), all_sfresh(b, sig(n)), all_pos(c, sig(n)), all_neg(d, sig(n)))),
            ('ESubst', lambda b, v, pl: z3.And(adm(b), adm(pl), z3.Not(capr_e(inst(b), v, inst(pl))))),
            ('SSubst', lambda b, v, pl: z3.And(adm(b), adm(pl), z3.Not(capr_s(inst(b), v, inst(pl))))),
        ], z3.BoolVal(True)))
        self.inst, self.adm = inst, adm

    def thm(self, t):
        return z3.Implies(self.adm(t), Valid(self.inst(t)))


sigma2 = z3.Function('sigma2', I, MPat)
S1 = Sem(sigma, 's1')
S2 = Sem(sigma2, 's2')

BOT = M.mk('Mu', 0, M.mk('SVar', 0))


def IMP(u, v):
    return M.mk('Implies', u, v)


# ---- TRUSTED: soundness of the Hilbert system (one axiom per rule the checker implements) ---------------------------------------
TRUSTED = {}


def AX(name, vars, stmt, triggers, doc):
    l = Lemma(name, vars, stmt, triggers=triggers, trusted=True, doc=doc)
    TRUSTED[name] = l
    return l


AX('ax_prop1', [a_, b_], Valid(IMP(a_, IMP(b_, a_))), [Valid(IMP(a_, IMP(b_, a_)))], 'a -> (b -> a) is valid')
AX('ax_prop2', [a_, b_, c_], Valid(IMP(IMP(a_, IMP(b_, c_)), IMP(IMP(a_, b_), IMP(a_, c_)))),
   [Valid(IMP(IMP(a_, IMP(b_, c_)), IMP(IMP(a_, b_), IMP(a_, c_))))], '(a->(b->c)) -> ((a->b)->(a->c)) is valid')
AX('ax_prop3', [a_], Valid(IMP(IMP(IMP(a_, BOT), BOT), a_)), [Valid(IMP(IMP(IMP(a_, BOT), BOT), a_))], '((a->bot)->bot) -> a is valid')
AX('ax_mp', [a_, b_], z3.Implies(z3.And(Valid(IMP(a_, b_)), Valid(a_)), Valid(b_)), [[Valid(IMP(a_, b_)), Valid(a_)]], 'modus ponens preserves validity')
AX('ax_quantifier', [a_, x, y], z3.Implies(z3.Not(capr_e(a_, x, M.mk('EVar', y))), Valid(IMP(subst_e(a_, x, M.mk('EVar', y)), M.mk('Exists', x, a_)))),
   [Valid(IMP(subst_e(a_, x, M.mk('EVar', y)), M.mk('Exists', x, a_)))], 'a[y/x] -> exists x. a is valid when the substitution is capture-free')
AX('ax_gen', [a_, b_, x], z3.Implies(z3.And(Valid(IMP(a_, b_)), z3.Not(fve(b_, x))), Valid(IMP(M.mk('Exists', x, a_), b_))),
   [Valid(IMP(M.mk('Exists', x, a_), b_))], 'a -> b valid and x not free in b give (exists x. a) -> b valid')
AX('ax_existence', [x], Valid(M.mk('Exists', x, M.mk('EVar', x))), [Valid(M.mk('Exists', x, M.mk('EVar', x)))], 'exists x. x is valid')
AX('ax_subst_s', [a_, x, b_], z3.Implies(z3.And(Valid(a_), z3.Not(capr_s(a_, x, b_))), Valid(subst_s(a_, x, b_))),
   [Valid(subst_s(a_, x, b_))], 'validity is preserved by capture-free set-variable substitution')

# ---- glue lemmas (proved) ----------------------------------------------------------------------------------------------------------------
GLUE = {}


def G(name, vars, stmt, **kw):
    l = Lemma(name, vars, stmt, **kw)
    GLUE[name] = l
    return l


phi, psi = z3.Const('phi', MPat), z3.Const('psi', MPat)
X, Y = z3.Int('X'), z3.Int('Y')
for S in (S1, S2):
    sfx = 's1' if S is S1 else 's2'
    G('inst_msubst_e_' + sfx, [phi, Y, psi], S.inst(msubst_e_rs(phi, Y, psi)) == subst_e(S.inst(phi), Y, S.inst(psi)), ind=phi,
      triggers=[S.inst(msubst_e_rs(phi, Y, psi))], rewrite=True)
    G('inst_msubst_s_' + sfx, [phi, Y, psi], S.inst(msubst_s_rs(phi, Y, psi)) == subst_s(S.inst(phi), Y, S.inst(psi)), ind=phi,
      triggers=[S.inst(msubst_s_rs(phi, Y, psi))], rewrite=True)
# the spec-level valuation of C06 (inst_g / adm) is S1's inst and a consequence of S1's adm
G('inst_s1_is_inst_g', [phi], S1.inst(phi) == inst_g(phi), ind=phi, triggers=[S1.inst(phi)])
G('admc_implies_adm', [phi], z3.Implies(S1.adm(phi), adm(phi)), ind=phi, triggers=[S1.adm(phi)])


# ---- proof-rule soundness at the level of the checker's syntactic side conditions ---------------------------------------------------
DELTA = z3.Const('DELTA', MMap)
IDS = z3.Const('IDS', IdL)
PLUGS = z3.Const('PLUGS', ML)
kk = z3.Int('kk')
il = z3.Const('il_', IdL)
pl_ = z3.Const('ps__', ML)

# sigma2 is the valuation "sigma after DELTA": a definition (function comprehension), not an assumption about the code
AX('def_sigma2', [kk], sigma2(kk) == z3.If(mhas(DELTA, kk), S1.inst(mget(DELTA, kk)), sigma(kk)), [sigma2(kk)],
   'definition of the composed valuation sigma2 = sigma o DELTA')

ml_all_adm1 = _rec('ml_all_adm1', ML, B)
_ml = z3.Const('ml_', ML)
_def(ml_all_adm1, [_ml], z3.If(MLs.is_('lnil', _ml), True, z3.And(S1.adm(MLs.get('lcons', 'lhd', _ml)), ml_all_adm1(MLs.get('lcons', 'ltl', _ml)))))
# pend_adm(p): sigma is admissible for the instantiated plug of every pending substitution of p (also when that plug is
# dropped because the substituted variable does not occur) -- the ASSUMED part of admissibility, see DESIGN C01
pend_adm = _rec('pend_adm', MPat, B)
_def(pend_adm, [p], _case(p, [
    ('Implies', lambda l, r: z3.And(pend_adm(l), pend_adm(r))),
    ('App', lambda l, r: z3.And(pend_adm(l), pend_adm(r))),
    ('Exists', lambda v, s: pend_adm(s)),
    ('Mu', lambda v, s: pend_adm(s)),
    ('ESubst', lambda b, v, pl: z3.And(pend_adm(b), pend_adm(pl), S1.adm(minst_rs(pl, DELTA)))),
    ('SSubst', lambda b, v, pl: z3.And(pend_adm(b), pend_adm(pl), S1.adm(minst_rs(pl, DELTA)))),
], z3.BoolVal(True)))


def rule_lemmas(rsf, rs_preds):
    """rsf: reflected judgements; rs_preds = (inst_ok, alls, mcap_e, mcap_s) over them.  Returns {name: Lemma}."""
    ok, alls, mce, mcs = rs_preds
    out = {}

    def R(name, vars, stmt, **kw):
        l = Lemma(name, vars, stmt, **kw)
        out[name] = l
        return l
    jsound = ['rs_e_fresh_sound', 'rs_s_fresh_sound', 'inst_s1_is_inst_g', 'admc_implies_adm']
    # plug presence: if the substituted variable occurs in the instance, the plug is part of the result
    R('plug_present_e', [phi, Y, psi], z3.Implies(z3.And(S1.adm(msubst_e_rs(phi, Y, psi)), fve(S1.inst(phi), Y)), S1.adm(psi)), ind=phi,
      triggers=[S1.adm(msubst_e_rs(phi, Y, psi))])
    R('plug_present_s', [phi, Y, psi], z3.Implies(z3.And(S1.adm(msubst_s_rs(phi, Y, psi)), fvs(S1.inst(phi), Y)), S1.adm(psi)), ind=phi,
      triggers=[S1.adm(msubst_s_rs(phi, Y, psi))])
    # the checker's judged capture check implies actual capture-freeness of the ground substitution
    R('nocapture_e', [phi, Y, psi], z3.Implies(z3.And(z3.Not(mce(phi, Y, psi)), S1.adm(msubst_e_rs(phi, Y, psi))),
                                               z3.And(S1.adm(phi), z3.Not(capr_e(S1.inst(phi), Y, S1.inst(psi))))), ind=phi,
      triggers=[mce(phi, Y, psi)], uses=jsound + ['plug_present_e'])
    R('nocapture_s', [phi, Y, psi], z3.Implies(z3.And(z3.Not(mcs(phi, Y, psi)), S1.adm(msubst_s_rs(phi, Y, psi))),
                                               z3.And(S1.adm(phi), z3.Not(capr_s(S1.inst(phi), Y, S1.inst(psi))))), ind=phi,
      triggers=[mcs(phi, Y, psi)], uses=jsound + ['plug_present_s'])
    # judged constraint lists transfer to the instance
    sem_all = {'e_fresh': all_efresh, 's_fresh': all_sfresh, 'positive': all_pos, 'negative': all_neg}
    snd = {'e_fresh': 'rs_e_fresh_sound', 's_fresh': 'rs_s_fresh_sound', 'positive': 'rs_positive_sound', 'negative': 'rs_negative_sound'}
    for k in sem_all:
        R(f'all_judged_{k}', [il, psi], z3.Implies(z3.And(alls[k](il, psi), adm(psi)), sem_all[k](il, inst_g(psi))), ind=il,
          triggers=[alls[k](il, psi)], uses=[snd[k]])
    R('plugs_adm_nth', [pl_, kk], z3.Implies(z3.And(ml_all_adm1(pl_), kk >= 0, kk < ml_len(pl_)), S1.adm(ml_nth(pl_, kk))), ind=pl_,
      triggers=[ml_nth(pl_, kk)], ih_extra=lambda f, val, vars: [[(vars[1], vars[1] - 1)]], split_depth=1)
    # instantiation = change of valuation
    R('inst_minst', [phi], S1.inst(minst_rs(phi, DELTA)) == S2.inst(phi), ind=phi, triggers=[S1.inst(minst_rs(phi, DELTA)), S2.inst(phi)],
      uses=['def_sigma2', 'inst_msubst_e_s1', 'inst_msubst_s_s1'])
    hyp = z3.And(DELTA == mzip(IDS, PLUGS), wf_rs(phi), S1.adm(minst_rs(phi, DELTA)), ok(phi, IDS, PLUGS), ml_all_adm1(PLUGS), pend_adm(phi))
    R('adm_minst', [phi], z3.Implies(hyp, S2.adm(phi)), ind=phi, triggers=[S2.adm(phi)],
      uses=['def_sigma2', 'inst_minst', 'nocapture_e', 'nocapture_s', 'minst_rs_nohit', 'mzip_get', 'mzip_has_mem', 'plugs_adm_nth',
            'inst_s1_is_inst_g', 'admc_implies_adm', 'il_index_nonneg'] + [f'all_judged_{k}' for k in sem_all], split_depth=1)
    # ---- the rules (non-inductive: consequences of the above + trusted axioms) --------------------------------------------------------
    from . import sm
    axs = ['ax_prop1', 'ax_prop2', 'ax_prop3', 'ax_mp', 'ax_quantifier', 'ax_gen', 'ax_existence', 'ax_subst_s']
    for nm, sch in (('prop1', sm.PROP1), ('prop2', sm.PROP2), ('prop3', sm.PROP3), ('quantifier', sm.QUANTIFIER_IMPL), ('existence', sm.EXISTENCE)):
        R('rule_' + nm, [], S1.thm(sch), nonind=True, uses=axs)
    R('rule_mp', [phi, psi], z3.Implies(z3.And(S1.thm(IMP(phi, psi)), S1.thm(phi), z3.Implies(S1.adm(psi), S1.adm(phi))), S1.thm(psi)),
      nonind=True, uses=axs, doc='ASSUMES: admissibility for the consequent extends to the antecedent')
    R('rule_gen', [phi, psi, X], z3.Implies(z3.And(S1.thm(IMP(phi, psi)), rsf['e_fresh'](psi, X)), S1.thm(IMP(M.mk('Exists', X, phi), psi))),
      nonind=True, uses=axs + jsound)
    R('rule_subst', [phi, X, psi], z3.Implies(z3.And(S1.thm(phi), z3.Not(mcs(phi, X, psi))), S1.thm(msubst_s_rs(phi, X, psi))),
      nonind=True, uses=axs + ['nocapture_s', 'inst_msubst_s_s1'])
    R('rule_inst', [phi], z3.Implies(z3.And(S2.thm(phi), DELTA == mzip(IDS, PLUGS), wf_rs(phi), ok(phi, IDS, PLUGS), ml_all_adm1(PLUGS), pend_adm(phi)),
                                     S1.thm(minst_rs(phi, DELTA))),
      nonind=True, hints=[('adm_minst', [phi]), ('inst_minst', [phi])],
      doc='ASSUMES: sigma admissible for every plug and for plugs dropped by vacuous pending substitutions')
    return out


# ---- the soundness invariant of the machine, per opcode (over the spec machine's step; C05 ties the real arms to it) -------------------
def _mk_all_thm(S, suffix):
    f = _rec('tl_all_thm_' + suffix, TL, B)
    t = z3.Const('tl_', TL)
    hd = TLs.get('tcons', 'thd', t)
    _def(f, [t], z3.If(TLs.is_('tnil', t), True,
                       z3.And(z3.Implies(TRM.is_('Prf', hd), S.thm(TRM.get('Prf', 'prf', hd))), f(TLs.get('tcons', 'ttl', t)))))
    return f


ALL_THM1 = _mk_all_thm(S1, 's1')
ALL_THM2 = _mk_all_thm(S2, 's2')


def invariant_lemmas(rules):
    """One non-inductive lemma per opcode and phase: the invariant 'every Proved entry of stack and memory is a schematic theorem'
    (assumed at the valuations sigma and sigma2 = instances of 'for all valuations', proved at the arbitrary valuation sigma)
    is preserved by the spec machine's step."""
    from . import sm
    Sv, Mv, Cv, Rv = z3.Const('S_', TL), z3.Const('M_', TL), z3.Const('C_', ML), z3.Const('rest_', IdL)
    tl_ = z3.Const('tl__', TL)
    tt_ = z3.Const('tt__', Term)
    kk_ = z3.Int('kk')
    out = {}
    # invariant and list operations
    for nm, F, Sx in (('s1', ALL_THM1, S1), ('s2', ALL_THM2, S2)):
        out[f'all_thm_snoc_{nm}'] = Lemma(f'all_thm_snoc_{nm}', [tl_, tt_],
                                          F(tl_snoc(tl_, tt_)) == z3.And(F(tl_), z3.Implies(TRM.is_('Prf', tt_), Sx.thm(TRM.get('Prf', 'prf', tt_)))),
                                          ind=tl_, triggers=[F(tl_snoc(tl_, tt_))], rewrite=True)
        out[f'all_thm_nth_{nm}'] = Lemma(f'all_thm_nth_{nm}', [tl_, kk_],
                                         z3.Implies(z3.And(F(tl_), kk_ >= 0, kk_ < tl_len(tl_), TRM.is_('Prf', tl_nth(tl_, kk_))),
                                                    Sx.thm(TRM.get('Prf', 'prf', tl_nth(tl_, kk_)))),
                                         ind=tl_, triggers=[tl_nth(tl_, kk_)], ih_extra=lambda f, val, vars: [[(vars[1], vars[1] - 1)]], split_depth=1)
    # popping n plugs leaves a stack on which the invariants still hold
    n_ = z3.Int('n_')
    ids_, plugs_ = z3.Const('ids_', IdL), z3.Const('plugs_', ML)

    def _ih_take(f, val, vars):
        # vars = [rest, n, stk, ids, plugs]; val = icons(h, t); IH at (t, n-1, ttl stk, snoc(ids,h), snoc(plugs, pat(thd stk)))
        h = val.arg(0)
        stk = vars[2]
        return [[(vars[1], vars[1] - 1), (stk, TLs.get('tcons', 'ttl', stk)), (vars[3], il_snoc(vars[3], h)),
                 (vars[4], ml_snoc(vars[4], TRM.get('Pat', 'pat', TLs.get('tcons', 'thd', stk))))]]
    for nm, F in (('thm1', ALL_THM1), ('thm2', ALL_THM2), ('wf', tl_all_wf)):
        tk = sm.take_acc(n_, Rv, Sv, ids_, plugs_)
        out[f'take_keeps_{nm}'] = Lemma(f'take_keeps_{nm}', [Rv, n_, Sv, ids_, plugs_],
                                        z3.Implies(z3.And(F(Sv), TKR.is_('tdone', tk)), F(TKR.get('tdone', 't_stack', tk))),
                                        ind=Rv, triggers=[[F(Sv), tk]], ih_extra=_ih_take, split_depth=1)
    base = ['all_thm_snoc_s1', 'all_thm_nth_s1', 'all_thm_snoc_s2', 'all_thm_nth_s2', 'tl_all_wf_nth', 'take_keeps_thm1',
            'take_keeps_thm2', 'take_keeps_wf']
    rule_for = {'Prop1': ['rule_prop1'], 'Prop2': ['rule_prop2'], 'Prop3': ['rule_prop3'], 'Quantifier': ['rule_quantifier'],
                'Existence': ['rule_existence']}
    for op in sm.OPC:
        if op in sm.UNDOCUMENTED:
            continue
        for ph in (['Gamma', 'Claim', 'Proof'] if op == 'Publish' else ['Proof']):
            ok, S2_, M2_, C2_, r2 = sm.step(op, ph, Sv, Mv, Cv, Rv)
            hyps = [ALL_THM1(Sv), ALL_THM1(Mv), ALL_THM2(Sv), ALL_THM2(Mv), tl_all_wf(Sv), tl_all_wf(Mv), ok]
            hints = [(r, []) for r in rule_for.get(op, [])]
            uses = list(base)
            top = TLs.get('tcons', 'thd', Sv)
            nxt = TLs.get('tcons', 'thd', TLs.get('tcons', 'ttl', Sv))
            if op == 'ModusPonens':
                p1 = TRM.get('Prf', 'prf', nxt)
                l, r = M.get('Implies', 'left', p1), M.get('Implies', 'right', p1)
                hyps.append(z3.Implies(S1.adm(r), S1.adm(l)))        # ASSUMED (see DESIGN C01)
                hints.append(('rule_mp', [l, r]))
            if op == 'Generalization':
                pr = TRM.get('Prf', 'prf', top)
                hints.append(('rule_gen', [M.get('Implies', 'left', pr), M.get('Implies', 'right', pr), IDL.get('icons', 'ihd', Rv)]))
                uses += ['rs_e_fresh_is_doc']
            if op == 'Substitution':
                hints.append(('rule_subst', [TRM.get('Prf', 'prf', top), IDL.get('icons', 'ihd', Rv), TRM.get('Pat', 'pat', nxt)]))
                uses += ['rs_mcap_s_is_doc']
            if op == 'Instantiate':
                n = IDL.get('icons', 'ihd', Rv)
                tk = sm.take_acc(n, IDL.get('icons', 'itl', Rv), TLs.get('tcons', 'ttl', Sv), IDL.mk('inil'), MLs.mk('lnil'))
                ids, plugs = TKR.get('tdone', 't_ids', tk), TKR.get('tdone', 't_plugs', tk)
                body = TRM.get('Prf', 'prf', top)
                hyps += [z3.Implies(TRM.is_('Prf', top), z3.And(DELTA == mzip(ids, plugs), IDS == ids, PLUGS == plugs,
                                                                 ml_all_adm1(plugs), pend_adm(body)))]   # ASSUMED part: ml_all_adm1, pend_adm
                hints.append(('rule_inst', [body]))
                uses += ['rs_inst_ok_is_doc']
            if op == 'Publish' and ph == 'Gamma':
                ax = TRM.get('Pat', 'pat', top)
                hyps.append(z3.And(S1.thm(ax), S2.thm(ax)))           # the theory is assumed valid (property statement)
            concl = z3.And(ALL_THM1(S2_), ALL_THM1(M2_))
            nm = f'inv_step_{op}_{ph}'
            out[nm] = Lemma(nm, [Sv, Mv, Cv, Rv], z3.Implies(z3.And(*hyps), concl), nonind=True, uses=uses, hints=hints,
                            split_depth=3 if op in ('ModusPonens', 'Instantiate', 'Substitution', 'Generalization') else 2)
    return out
