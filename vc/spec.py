"""Spec functions (the oracles), written from the textbook / docs/proof-language.md, independently of the code.

All are total structurally recursive z3 RecFunctions over MPat.  Where a function is only meaningful on
ground patterns (no MetaVar/ESubst/SSubst), the remaining constructors get a fixed 'junk' value chosen so
that every lemma below holds on ALL MPat values (so no groundness side conditions are ever needed).
"""
import z3
from .sorts import *  # noqa

I = z3.IntSort()
B = z3.BoolSort()


class SpecFn:
    """A total recursive spec function: an uninterpreted z3 function symbol + its defining body.  VCs never hand
    recursive definitions to the solver: vc/norm.py unfolds applications whose decreasing argument is
    constructor-headed (terminating rewriting) and leaves the others as opaque function applications."""
    REG = {}

    def __init__(self, name, *sig):
        self.name = name
        self.uf = z3.Function(name, *sig)
        self.params = None
        self.body = None
        self.dec = 0
        SpecFn.REG[name] = self

    def __call__(self, *args):
        args = [z3.IntVal(a) if isinstance(a, int) and not isinstance(a, bool) else a for a in args]
        return self.uf(*args)

    def define(self, params, body, dec=None):
        self.params = params
        self.body = body
        if dec is None:
            # the decreasing argument: first parameter of an inductive datatype sort
            dec = 0
            for i, p in enumerate(params):
                if p.sort().kind() == z3.Z3_DATATYPE_SORT:
                    dec = i
                    break
        self.dec = dec


def _rec(name, *sig):
    return SpecFn(name, *sig)


def _def(f, params, body, dec=None):
    f.define(params, body, dec)


def _case(p, arms, default):
    """arms: list of (ctor_name, lambda fields...: expr); builds nested If on recognizers."""
    e = default
    for cn, fn in reversed(arms):
        fs = [M.get(cn, f, p) for f in FIELDS[cn]]
        e = z3.If(M.is_(cn, p), fn(*fs), e)
    return e


# ---- id lists -----------------------------------------------------------------------------------------
mem = _rec('mem', I, IdL, B)
_x, _l = z3.Int('x'), z3.Const('l', IdL)
_def(mem, [_x, _l], z3.If(IDL.is_('inil', _l), False,
                                         z3.Or(IDL.get('icons', 'ihd', _l) == _x, mem(_x, IDL.get('icons', 'itl', _l)))))

p, q = z3.Const('p', MPat), z3.Const('q', MPat)
x, y = z3.Int('x'), z3.Int('y')

# ---- free variables (ground semantics; MetaVar/ESubst/SSubst: nothing free) -----------------------------
fve = _rec('fve', MPat, I, B)
_def(fve, [p, x], _case(p, [
    ('EVar', lambda n: n == x),
    ('Implies', lambda l, r: z3.Or(fve(l, x), fve(r, x))),
    ('App', lambda l, r: z3.Or(fve(l, x), fve(r, x))),
    ('Exists', lambda v, s: z3.And(v != x, fve(s, x))),
    ('Mu', lambda v, s: fve(s, x)),
], z3.BoolVal(False)))

fvs = _rec('fvs', MPat, I, B)
_def(fvs, [p, x], _case(p, [
    ('SVar', lambda n: n == x),
    ('Implies', lambda l, r: z3.Or(fvs(l, x), fvs(r, x))),
    ('App', lambda l, r: z3.Or(fvs(l, x), fvs(r, x))),
    ('Exists', lambda v, s: fvs(s, x)),
    ('Mu', lambda v, s: z3.And(v != x, fvs(s, x))),
], z3.BoolVal(False)))

# ---- polarity: pos(p,X) = no free NEGATIVE occurrence of X; neg(p,X) = no free POSITIVE occurrence --------
pos = _rec('pos', MPat, I, B)
neg = _rec('neg', MPat, I, B)
_def(pos, [p, x], _case(p, [
    ('Implies', lambda l, r: z3.And(neg(l, x), pos(r, x))),
    ('App', lambda l, r: z3.And(pos(l, x), pos(r, x))),
    ('Exists', lambda v, s: pos(s, x)),
    ('Mu', lambda v, s: z3.Or(v == x, pos(s, x))),
], z3.BoolVal(True)))
_def(neg, [p, x], _case(p, [
    ('SVar', lambda n: n != x),
    ('Implies', lambda l, r: z3.And(pos(l, x), neg(r, x))),
    ('App', lambda l, r: z3.And(neg(l, x), neg(r, x))),
    ('Exists', lambda v, s: neg(s, x)),
    ('Mu', lambda v, s: z3.Or(v == x, neg(s, x))),
], z3.BoolVal(True)))

# ---- naive substitution on ground patterns (capture is a separate predicate) ------------------------------
subst_e = _rec('subst_e', MPat, I, MPat, MPat)
_def(subst_e, [p, y, q], _case(p, [
    ('EVar', lambda n: z3.If(n == y, q, p)),
    ('Implies', lambda l, r: M.mk('Implies', subst_e(l, y, q), subst_e(r, y, q))),
    ('App', lambda l, r: M.mk('App', subst_e(l, y, q), subst_e(r, y, q))),
    ('Exists', lambda v, s: z3.If(v == y, p, M.mk('Exists', v, subst_e(s, y, q)))),
    ('Mu', lambda v, s: M.mk('Mu', v, subst_e(s, y, q))),
], p))
subst_s = _rec('subst_s', MPat, I, MPat, MPat)
_def(subst_s, [p, y, q], _case(p, [
    ('SVar', lambda n: z3.If(n == y, q, p)),
    ('Implies', lambda l, r: M.mk('Implies', subst_s(l, y, q), subst_s(r, y, q))),
    ('App', lambda l, r: M.mk('App', subst_s(l, y, q), subst_s(r, y, q))),
    ('Exists', lambda v, s: M.mk('Exists', v, subst_s(s, y, q))),
    ('Mu', lambda v, s: z3.If(v == y, p, M.mk('Mu', v, subst_s(s, y, q)))),
], p))

# capture: substituting q for free y in p passes under a binder of a variable that is free in q
# (only where y actually remains free below that binder is irrelevant for soundness of a *check*; the checker's
#  rule is the syntactic one of the document: every traversed binder's variable must be fresh in the plug)
cap_e = _rec('cap_e', MPat, I, MPat, B)
_def(cap_e, [p, y, q], _case(p, [
    ('Implies', lambda l, r: z3.Or(cap_e(l, y, q), cap_e(r, y, q))),
    ('App', lambda l, r: z3.Or(cap_e(l, y, q), cap_e(r, y, q))),
    ('Exists', lambda v, s: z3.And(v != y, z3.Or(fve(q, v), cap_e(s, y, q)))),
    ('Mu', lambda v, s: z3.Or(fvs(q, v), cap_e(s, y, q))),
], z3.BoolVal(False)))
cap_s = _rec('cap_s', MPat, I, MPat, B)
_def(cap_s, [p, y, q], _case(p, [
    ('Implies', lambda l, r: z3.Or(cap_s(l, y, q), cap_s(r, y, q))),
    ('App', lambda l, r: z3.Or(cap_s(l, y, q), cap_s(r, y, q))),
    ('Exists', lambda v, s: z3.Or(fve(q, v), cap_s(s, y, q))),
    ('Mu', lambda v, s: z3.And(v != y, z3.Or(fvs(q, v), cap_s(s, y, q)))),
], z3.BoolVal(False)))

# ---- ground instantiation with a total valuation sigma (uninterpreted: 'for every sigma') ---------------
sigma = z3.Function('sigma', I, MPat)
inst_g = _rec('inst_g', MPat, MPat)
_def(inst_g, [p], _case(p, [
    ('Implies', lambda l, r: M.mk('Implies', inst_g(l), inst_g(r))),
    ('App', lambda l, r: M.mk('App', inst_g(l), inst_g(r))),
    ('Exists', lambda v, s: M.mk('Exists', v, inst_g(s))),
    ('Mu', lambda v, s: M.mk('Mu', v, inst_g(s))),
    ('MetaVar', lambda n, a, b, c, d, e: sigma(n)),
    ('ESubst', lambda b, v, pl: subst_e(inst_g(b), v, inst_g(pl))),
    ('SSubst', lambda b, v, pl: subst_s(inst_g(b), v, inst_g(pl))),
], p))

_il = z3.Const('il', IdL)


def _all_over(name, pred):
    f = _rec(name, IdL, MPat, B)
    _def(f, [_il, q], z3.If(IDL.is_('inil', _il), True,
                                          z3.And(pred(q, IDL.get('icons', 'ihd', _il)), f(IDL.get('icons', 'itl', _il), q))))
    return f


all_efresh = _all_over('all_efresh', lambda t, v: z3.Not(fve(t, v)))
all_sfresh = _all_over('all_sfresh', lambda t, v: z3.Not(fvs(t, v)))
all_pos = _all_over('all_pos', lambda t, v: pos(t, v))
all_neg = _all_over('all_neg', lambda t, v: neg(t, v))

# adm(p): sigma respects the constraint lists of every metavariable occurrence in p
adm = _rec('adm', MPat, B)
_def(adm, [p], _case(p, [
    ('Implies', lambda l, r: z3.And(adm(l), adm(r))),
    ('App', lambda l, r: z3.And(adm(l), adm(r))),
    ('Exists', lambda v, s: adm(s)),
    ('Mu', lambda v, s: adm(s)),
    ('MetaVar', lambda n, a, b, c, d, e: z3.And(all_efresh(a, sigma(n)), all_sfresh(b, sigma(n)),
                                                 all_pos(c, sigma(n)), all_neg(d, sigma(n)))),
    ('ESubst', lambda b, v, pl: z3.And(adm(b), adm(pl))),
    ('SSubst', lambda b, v, pl: z3.And(adm(b), adm(pl))),
], z3.BoolVal(True)))

# ---- meta-level substitution / instantiation (what apply_esubst / instantiate must compute) ---------------
# doc: substitution is applied where the constructor is known, stops at a binder of the same variable and is
# *deferred* (wrapped) on MetaVar / ESubst / SSubst.  `fresh_skip`: the Python generator additionally returns a
# metavariable unchanged when the variable is in its freshness list (identity when the variable cannot occur).
def _mk_msubst(name, kind, fresh_skip):
    f = _rec(name, MPat, I, MPat, MPat)
    var_c, bind_c, other_bind, wrap, fl = (('EVar', 'Exists', 'Mu', 'ESubst', 'e_fresh') if kind == 'e'
                                            else ('SVar', 'Mu', 'Exists', 'SSubst', 's_fresh'))
    wrapped = M.mk(wrap, p, y, q)
    mv = (lambda n, a, b, c, d, e: z3.If(mem(y, a if kind == 'e' else b), p, wrapped)) if fresh_skip else (lambda *a: wrapped)
    _def(f, [p, y, q], _case(p, [
        (var_c, lambda n: z3.If(n == y, q, p)),
        ('Implies', lambda l, r: M.mk('Implies', f(l, y, q), f(r, y, q))),
        ('App', lambda l, r: M.mk('App', f(l, y, q), f(r, y, q))),
        (bind_c, lambda v, s: z3.If(v == y, p, M.mk(bind_c, v, f(s, y, q)))),
        (other_bind, lambda v, s: M.mk(other_bind, v, f(s, y, q))),
        ('MetaVar', mv),
        ('ESubst', lambda *a: wrapped),
        ('SSubst', lambda *a: wrapped),
    ], p))
    return f


msubst_e_py = _mk_msubst('msubst_e_py', 'e', True)
msubst_s_py = _mk_msubst('msubst_s_py', 's', True)
msubst_e_rs = _mk_msubst('msubst_e_rs', 'e', False)
msubst_s_rs = _mk_msubst('msubst_s_rs', 's', False)

mm = z3.Const('mm', MMap)
k = z3.Int('k')
mhas = _rec('mhas', MMap, I, B)
_def(mhas, [mm, k], z3.If(MMp.is_('mnil', mm), False,
                                         z3.Or(MMp.get('mcons', 'mkey', mm) == k, mhas(MMp.get('mcons', 'mtl', mm), k))))
mget = _rec('mget', MMap, I, MPat)
_def(mget, [mm, k], z3.If(MMp.is_('mnil', mm), M.mk('EVar', z3.IntVal(-1)),
                                         z3.If(MMp.get('mcons', 'mkey', mm) == k, MMp.get('mcons', 'mval', mm),
                                               mget(MMp.get('mcons', 'mtl', mm), k))))


def _mk_minst(name, se, ss):
    f = _rec(name, MPat, MMap, MPat)
    _def(f, [p, mm], _case(p, [
        ('Implies', lambda l, r: M.mk('Implies', f(l, mm), f(r, mm))),
        ('App', lambda l, r: M.mk('App', f(l, mm), f(r, mm))),
        ('Exists', lambda v, s: M.mk('Exists', v, f(s, mm))),
        ('Mu', lambda v, s: M.mk('Mu', v, f(s, mm))),
        ('MetaVar', lambda n, a, b, c, d, e: z3.If(mhas(mm, n), mget(mm, n), p)),
        ('ESubst', lambda b, v, pl: se(f(b, mm), v, f(pl, mm))),
        ('SSubst', lambda b, v, pl: ss(f(b, mm), v, f(pl, mm))),
    ], p))
    return f


minst_py = _mk_minst('minst_py', msubst_e_py, msubst_s_py)
minst_rs = _mk_minst('minst_rs', msubst_e_rs, msubst_s_rs)

# metavariable occurrence: id n occurs in p
mvocc = _rec('mvocc', MPat, I, B)
_def(mvocc, [p, x], _case(p, [
    ('Implies', lambda l, r: z3.Or(mvocc(l, x), mvocc(r, x))),
    ('App', lambda l, r: z3.Or(mvocc(l, x), mvocc(r, x))),
    ('Exists', lambda v, s: mvocc(s, x)),
    ('Mu', lambda v, s: mvocc(s, x)),
    ('MetaVar', lambda n, a, b, c, d, e: n == x),
    ('ESubst', lambda b, v, pl: z3.Or(mvocc(b, x), mvocc(pl, x))),
    ('SSubst', lambda b, v, pl: z3.Or(mvocc(b, x), mvocc(pl, x))),
], z3.BoolVal(False)))

# shape well-formedness assumed of every input pattern (type annotation `pattern: MetaVar | ESubst | SSubst`
# + a pending substitution on a metavariable is never one its freshness list makes void)
def _mk_wf(name, fresh_skip):
    f = _rec(name, MPat, B)

    def body_ok(b, v, kind):
        base = z3.Or(M.is_('MetaVar', b), M.is_('ESubst', b), M.is_('SSubst', b))
        if fresh_skip:
            fl = M.get('MetaVar', 'e_fresh' if kind == 'e' else 's_fresh', b)
            base = z3.And(base, z3.Implies(M.is_('MetaVar', b), z3.Not(mem(v, fl))))
        return base
    _def(f, [p], _case(p, [
        ('Implies', lambda l, r: z3.And(f(l), f(r))),
        ('App', lambda l, r: z3.And(f(l), f(r))),
        ('Exists', lambda v, s: f(s)),
        ('Mu', lambda v, s: f(s)),
        ('ESubst', lambda b, v, pl: z3.And(f(b), f(pl), body_ok(b, v, 'e'))),
        ('SSubst', lambda b, v, pl: z3.And(f(b), f(pl), body_ok(b, v, 's'))),
    ], z3.BoolVal(True)))
    return f


wf_py = _mk_wf('wf_py', True)
wf_rs = _mk_wf('wf_rs', False)

mwf = _rec('mwf_py', MMap, B)
_def(mwf, [mm], z3.If(MMp.is_('mnil', mm), True,
                                     z3.And(wf_py(MMp.get('mcons', 'mval', mm)), mwf(MMp.get('mcons', 'mtl', mm)))))

# ---- expansion of notation: PPat -> MPat ---------------------------------------------------------------------
pp = z3.Const('pp', PPat)
pm = z3.Const('pm', PMap)
expand = _rec('expand', PPat, MPat)
expandmap = _rec('expandmap', PMap, MMap)


def _pcase(t, arms, default):
    e = default
    for cn, fn in reversed(arms):
        fs = [P.get(cn, f, t) for f in FIELDS[cn]]
        e = z3.If(P.is_(cn, t), fn(*fs), e)
    return e


_def(expand, [pp], _pcase(pp, [
    ('EVar', lambda n: M.mk('EVar', n)),
    ('SVar', lambda n: M.mk('SVar', n)),
    ('Symbol', lambda n: M.mk('Symbol', n)),
    ('Implies', lambda l, r: M.mk('Implies', expand(l), expand(r))),
    ('App', lambda l, r: M.mk('App', expand(l), expand(r))),
    ('Exists', lambda v, s: M.mk('Exists', v, expand(s))),
    ('Mu', lambda v, s: M.mk('Mu', v, expand(s))),
    ('MetaVar', lambda n, a, b, c, d, e: M.mk('MetaVar', n, a, b, c, d, e)),
    ('ESubst', lambda b, v, pl: M.mk('ESubst', expand(b), v, expand(pl))),
    ('SSubst', lambda b, v, pl: M.mk('SSubst', expand(b), v, expand(pl))),
    ('Instantiate', lambda b, m: minst_py(expand(b), expandmap(m))),
], M.mk('EVar', z3.IntVal(-1))))
_def(expandmap, [pm], z3.If(PMp.is_('pnil', pm), MMp.mk('mnil'),
                                          MMp.mk('mcons', PMp.get('pcons', 'pkey', pm), expand(PMp.get('pcons', 'pval', pm)),
                                                 expandmap(PMp.get('pcons', 'ptl', pm)))))

phas = _rec('phas', PMap, I, B)
_def(phas, [pm, k], z3.If(PMp.is_('pnil', pm), False,
                                         z3.Or(PMp.get('pcons', 'pkey', pm) == k, phas(PMp.get('pcons', 'ptl', pm), k))))
pget = _rec('pget', PMap, I, PPat)
_def(pget, [pm, k], z3.If(PMp.is_('pnil', pm), P.mk('EVar', z3.IntVal(-1)),
                                         z3.If(PMp.get('pcons', 'pkey', pm) == k, PMp.get('pcons', 'pval', pm),
                                               pget(PMp.get('pcons', 'ptl', pm), k))))

# python-side shape well-formedness: ESubst/SSubst bodies are literally MetaVar/ESubst/SSubst nodes (what
# Interpreter.pattern asserts), maps inside Instantiate hold well-formed patterns
pwf = _rec('pwf', PPat, B)
pmwf = _rec('pmwf', PMap, B)


def _pbody_ok(b, v, kind):
    fl = P.get('MetaVar', 'e_fresh' if kind == 'e' else 's_fresh', b)
    return z3.And(z3.Or(P.is_('MetaVar', b), P.is_('ESubst', b), P.is_('SSubst', b)),
                  z3.Implies(P.is_('MetaVar', b), z3.Not(mem(v, fl))))


_def(pwf, [pp], _pcase(pp, [
    ('Implies', lambda l, r: z3.And(pwf(l), pwf(r))),
    ('App', lambda l, r: z3.And(pwf(l), pwf(r))),
    ('Exists', lambda v, s: pwf(s)),
    ('Mu', lambda v, s: pwf(s)),
    ('ESubst', lambda b, v, pl: z3.And(pwf(b), pwf(pl), _pbody_ok(b, v, 'e'))),
    ('SSubst', lambda b, v, pl: z3.And(pwf(b), pwf(pl), _pbody_ok(b, v, 's'))),
    ('Instantiate', lambda b, m: z3.And(pwf(b), pmwf(m))),
], z3.BoolVal(True)))
_def(pmwf, [pm], z3.If(PMp.is_('pnil', pm), True,
                                      z3.And(pwf(PMp.get('pcons', 'pval', pm)), pmwf(PMp.get('pcons', 'ptl', pm)))))

# ---- metavariable sets, map inclusion (matching) -----------------------------------------------------------------------------
IntSet = z3.SetSort(I)
mvset = _rec('mvset', MPat, IntSet)
_def(mvset, [p], _case(p, [
    ('Implies', lambda l, r: z3.SetUnion(mvset(l), mvset(r))),
    ('App', lambda l, r: z3.SetUnion(mvset(l), mvset(r))),
    ('Exists', lambda v, s: mvset(s)),
    ('Mu', lambda v, s: mvset(s)),
    ('MetaVar', lambda n, a, b, c, d, e: z3.SetAdd(z3.EmptySet(I), n)),
    ('ESubst', lambda b, v, pl: z3.SetUnion(mvset(b), mvset(pl))),
    ('SSubst', lambda b, v, pl: z3.SetUnion(mvset(b), mvset(pl))),
], z3.EmptySet(I)))

mm2 = z3.Const('mm2', MMap)
# submap(a, b): every entry of a is an entry of b (first-match lookup in b)
submap = _rec('submap', MMap, MMap, B)
_def(submap, [mm, mm2], z3.If(MMp.is_('mnil', mm), True,
                              z3.And(mhas(mm2, MMp.get('mcons', 'mkey', mm)),
                                     mget(mm2, MMp.get('mcons', 'mkey', mm)) == MMp.get('mcons', 'mval', mm),
                                     submap(MMp.get('mcons', 'mtl', mm), mm2))))
# covers(p, m): every metavariable id occurring in p is a key of m
covers = _rec('covers', MPat, MMap, B)
_def(covers, [p, mm], _case(p, [
    ('Implies', lambda l, r: z3.And(covers(l, mm), covers(r, mm))),
    ('App', lambda l, r: z3.And(covers(l, mm), covers(r, mm))),
    ('Exists', lambda v, s: covers(s, mm)),
    ('Mu', lambda v, s: covers(s, mm)),
    ('MetaVar', lambda n, a, b, c, d, e: mhas(mm, n)),
    ('ESubst', lambda b, v, pl: z3.And(covers(b, mm), covers(pl, mm))),
    ('SSubst', lambda b, v, pl: z3.And(covers(b, mm), covers(pl, mm))),
], z3.BoolVal(True)))
# nosubst(p): no pending substitution anywhere in p
nosubst = _rec('nosubst', MPat, B)
_def(nosubst, [p], _case(p, [
    ('Implies', lambda l, r: z3.And(nosubst(l), nosubst(r))),
    ('App', lambda l, r: z3.And(nosubst(l), nosubst(r))),
    ('Exists', lambda v, s: nosubst(s)),
    ('Mu', lambda v, s: nosubst(s)),
    ('ESubst', lambda b, v, pl: z3.BoolVal(False)),
    ('SSubst', lambda b, v, pl: z3.BoolVal(False)),
], z3.BoolVal(True)))
# distinct keys
mdistinct = _rec('mdistinct', MMap, B)
_def(mdistinct, [mm], z3.If(MMp.is_('mnil', mm), True,
                            z3.And(z3.Not(mhas(MMp.get('mcons', 'mtl', mm), MMp.get('mcons', 'mkey', mm))),
                                   mdistinct(MMp.get('mcons', 'mtl', mm)))))

# ---- functional update of maps (python dict assignment: replace in place, else append) ---------------------------------------
vv = z3.Const('vv', MPat)
mset = _rec('mset', MMap, I, MPat, MMap)
_def(mset, [mm, k, vv], z3.If(MMp.is_('mnil', mm), MMp.mk('mcons', k, vv, MMp.mk('mnil')),
                              z3.If(MMp.get('mcons', 'mkey', mm) == k, MMp.mk('mcons', k, vv, MMp.get('mcons', 'mtl', mm)),
                                    MMp.mk('mcons', MMp.get('mcons', 'mkey', mm), MMp.get('mcons', 'mval', mm),
                                           mset(MMp.get('mcons', 'mtl', mm), k, vv)))))
pv = z3.Const('pv', PPat)
pset = _rec('pset', PMap, I, PPat, PMap)
_def(pset, [pm, k, pv], z3.If(PMp.is_('pnil', pm), PMp.mk('pcons', k, pv, PMp.mk('pnil')),
                              z3.If(PMp.get('pcons', 'pkey', pm) == k, PMp.mk('pcons', k, pv, PMp.get('pcons', 'ptl', pm)),
                                    PMp.mk('pcons', PMp.get('pcons', 'pkey', pm), PMp.get('pcons', 'pval', pm),
                                           pset(PMp.get('pcons', 'ptl', pm), k, pv)))))

# ---- plain list functions (Rust Vec / slice operations) ---------------------------------------------------------------------
ml_ = z3.Const('ml_', ML)
tl_ = z3.Const('tl_', TL)
tt_ = z3.Const('tt_', Term)
i_ = z3.Int('i_')


def _listfns(prefix, sort, A, nil, cons, hd, tl, elem_sort, lv, ev, default):
    length = _rec(prefix + '_len', sort, I)
    _def(length, [lv], z3.If(A.is_(nil, lv), z3.IntVal(0), 1 + length(A.get(cons, tl, lv))))
    nth = _rec(prefix + '_nth', sort, I, elem_sort)
    _def(nth, [lv, i_], z3.If(A.is_(nil, lv), default, z3.If(i_ == 0, A.get(cons, hd, lv), nth(A.get(cons, tl, lv), i_ - 1))))
    snoc = _rec(prefix + '_snoc', sort, elem_sort, sort)
    _def(snoc, [lv, ev], z3.If(A.is_(nil, lv), A.mk(cons, ev, A.mk(nil)),
                               A.mk(cons, A.get(cons, hd, lv), snoc(A.get(cons, tl, lv), ev))))
    return length, nth, snoc


il_len, il_nth, il_snoc = _listfns('il', IdL, IDL, 'inil', 'icons', 'ihd', 'itl', I, _l, _x, z3.IntVal(-1))
ml_len, ml_nth, ml_snoc = _listfns('ml', ML, MLs, 'lnil', 'lcons', 'lhd', 'ltl', MPat, ml_, q, M.mk('EVar', z3.IntVal(-1)))
tl_len, tl_nth, tl_snoc = _listfns('tl', TL, TLs, 'tnil', 'tcons', 'thd', 'ttl', Term, tl_, tt_,
                                   TRM.mk('Pat', M.mk('EVar', z3.IntVal(-1))))
# position of the first occurrence of x in l (only meaningful when mem(x, l))
il_index = _rec('il_index', IdL, I, I)
_def(il_index, [_l, _x], z3.If(IDL.is_('inil', _l), z3.IntVal(0),
                               z3.If(IDL.get('icons', 'ihd', _l) == _x, z3.IntVal(0), 1 + il_index(IDL.get('icons', 'itl', _l), _x))))

# position of the LAST occurrence of x in l (only meaningful when mem(x, l))
il_rindex = _rec('il_rindex', IdL, I, I)
_def(il_rindex, [_l, _x], z3.If(IDL.is_('inil', _l), z3.IntVal(0),
                                z3.If(mem(_x, IDL.get('icons', 'itl', _l)), 1 + il_rindex(IDL.get('icons', 'itl', _l), _x), z3.IntVal(0))))

# ---- the checker's capture rule (document: every traversed binder's variable must be JUDGED fresh in the plug) ---------------
# The judgement used is a parameter (the reflected Rust judgement), so these are built by a factory.
def mk_mcap(efresh, sfresh, suffix='rs'):
    mce = _rec('mcap_e_' + suffix, MPat, I, MPat, B)
    _def(mce, [p, y, q], _case(p, [
        ('Implies', lambda l, r: z3.Or(mce(l, y, q), mce(r, y, q))),
        ('App', lambda l, r: z3.Or(mce(l, y, q), mce(r, y, q))),
        ('Exists', lambda v, s: z3.And(v != y, z3.Or(z3.Not(efresh(q, v)), mce(s, y, q)))),
        ('Mu', lambda v, s: z3.Or(z3.Not(sfresh(q, v)), mce(s, y, q))),
    ], z3.BoolVal(False)))
    mcs = _rec('mcap_s_' + suffix, MPat, I, MPat, B)
    _def(mcs, [p, y, q], _case(p, [
        ('Implies', lambda l, r: z3.Or(mcs(l, y, q), mcs(r, y, q))),
        ('App', lambda l, r: z3.Or(mcs(l, y, q), mcs(r, y, q))),
        ('Exists', lambda v, s: z3.Or(z3.Not(efresh(q, v)), mcs(s, y, q))),
        ('Mu', lambda v, s: z3.And(v != y, z3.Or(z3.Not(sfresh(q, v)), mcs(s, y, q)))),
    ], z3.BoolVal(False)))
    return mce, mcs

# ---- Rust Instantiate: (vars, plugs) slices as a map; which metavariables are hit ---------------------------------------------
vs_ = z3.Const('vs_', IdL)
ps_ = z3.Const('ps_', ML)
mzip = _rec('mzip', IdL, ML, MMap)
_def(mzip, [vs_, ps_], z3.If(z3.Or(IDL.is_('inil', vs_), MLs.is_('lnil', ps_)), MMp.mk('mnil'),
                             MMp.mk('mcons', IDL.get('icons', 'ihd', vs_), MLs.get('lcons', 'lhd', ps_),
                                    mzip(IDL.get('icons', 'itl', vs_), MLs.get('lcons', 'ltl', ps_)))))
mv_hit = _rec('mv_hit', MPat, IdL, B)
_def(mv_hit, [p, vs_], _case(p, [
    ('Implies', lambda l, r: z3.Or(mv_hit(l, vs_), mv_hit(r, vs_))),
    ('App', lambda l, r: z3.Or(mv_hit(l, vs_), mv_hit(r, vs_))),
    ('Exists', lambda v, s: mv_hit(s, vs_)),
    ('Mu', lambda v, s: mv_hit(s, vs_)),
    ('MetaVar', lambda n, a, b, c, d, e: mem(n, vs_)),
    ('ESubst', lambda b, v, pl: z3.Or(mv_hit(b, vs_), mv_hit(pl, vs_))),
    ('SSubst', lambda b, v, pl: z3.Or(mv_hit(b, vs_), mv_hit(pl, vs_))),
], z3.BoolVal(False)))


def mk_all_judged(name, judgement):
    """all_J(ids, q) = every id in ids is judged J in q"""
    f = _rec(name, IdL, MPat, B)
    _def(f, [_il, q], z3.If(IDL.is_('inil', _il), True,
                            z3.And(judgement(q, IDL.get('icons', 'ihd', _il)), f(IDL.get('icons', 'itl', _il), q))))
    return f


def mk_inst_ok(rsf, mce, mcs):
    """The document's InstantiateSchema.well_formed (minus app_ctx_holes, see known findings) + capture-free resolution of
    pending substitutions: the condition under which instantiate_internal must NOT panic, and which holds when it returns."""
    alls = {k: mk_all_judged('rs_all_' + k, rsf[k]) for k in ('e_fresh', 's_fresh', 'positive', 'negative')}
    ok = _rec('rs_inst_ok', MPat, IdL, ML, B)

    def mv(n, a, b, c, d, e):
        plug = ml_nth(ps_, il_index(vs_, n))
        return z3.Implies(mem(n, vs_), z3.And(il_index(vs_, n) < ml_len(ps_), alls['e_fresh'](a, plug), alls['s_fresh'](b, plug),
                                              alls['positive'](c, plug), alls['negative'](d, plug)))

    def sub(mc):
        def f(b, v, pl):
            hit = z3.Or(mv_hit(b, vs_), mv_hit(pl, vs_))
            dl = mzip(vs_, ps_)
            return z3.And(ok(b, vs_, ps_), ok(pl, vs_, ps_), z3.Implies(hit, z3.Not(mc(minst_rs(b, dl), v, minst_rs(pl, dl)))))
        return f
    _def(ok, [p, vs_, ps_], _case(p, [
        ('Implies', lambda l, r: z3.And(ok(l, vs_, ps_), ok(r, vs_, ps_))),
        ('App', lambda l, r: z3.And(ok(l, vs_, ps_), ok(r, vs_, ps_))),
        ('Exists', lambda v, s: ok(s, vs_, ps_)),
        ('Mu', lambda v, s: ok(s, vs_, ps_)),
        ('MetaVar', mv),
        ('ESubst', sub(mce)),
        ('SSubst', sub(mcs)),
    ], z3.BoolVal(True)))
    return ok, alls

il2_ = z3.Const('il2_', IdL)
il_intersects = _rec('il_intersects', IdL, IdL, B)
_def(il_intersects, [_il, il2_], z3.If(IDL.is_('inil', _il), False,
                                       z3.Or(mem(IDL.get('icons', 'ihd', _il), il2_), il_intersects(IDL.get('icons', 'itl', _il), il2_))))
ml_all_wf = _rec('ml_all_wf', ML, B)
_def(ml_all_wf, [ml_], z3.If(MLs.is_('lnil', ml_), True, z3.And(wf_rs(MLs.get('lcons', 'lhd', ml_)), ml_all_wf(MLs.get('lcons', 'ltl', ml_)))))

tl_all_wf = _rec('tl_all_wf', TL, B)
_def(tl_all_wf, [tl_], z3.If(TLs.is_('tnil', tl_), True,
                             z3.And(wf_rs(z3.If(TRM.is_('Pat', TLs.get('tcons', 'thd', tl_)), TRM.get('Pat', 'pat', TLs.get('tcons', 'thd', tl_)),
                                                TRM.get('Prf', 'prf', TLs.get('tcons', 'thd', tl_)))),
                                    tl_all_wf(TLs.get('tcons', 'ttl', tl_)))))
mwf_rs = _rec('mwf_rs', MMap, B)
_def(mwf_rs, [mm], z3.If(MMp.is_('mnil', mm), True, z3.And(wf_rs(MMp.get('mcons', 'mval', mm)), mwf_rs(MMp.get('mcons', 'mtl', mm)))))

# ---- take / drop / remove (iterator adaptors, Vec::remove) ---------------------------------------------------------------------
il_take = _rec('il_take', I, IdL, IdL)
_def(il_take, [i_, _l], z3.If(z3.Or(i_ <= 0, IDL.is_('inil', _l)), IDL.mk('inil'),
                              IDL.mk('icons', IDL.get('icons', 'ihd', _l), il_take(i_ - 1, IDL.get('icons', 'itl', _l)))), dec=1)
il_drop = _rec('il_drop', I, IdL, IdL)
_def(il_drop, [i_, _l], z3.If(z3.Or(i_ <= 0, IDL.is_('inil', _l)), _l, il_drop(i_ - 1, IDL.get('icons', 'itl', _l))), dec=1)
ml_remove_at = _rec('ml_remove_at', ML, I, ML)
_def(ml_remove_at, [ml_, i_], z3.If(MLs.is_('lnil', ml_), ml_,
                                    z3.If(i_ == 0, MLs.get('lcons', 'ltl', ml_),
                                          MLs.mk('lcons', MLs.get('lcons', 'lhd', ml_), ml_remove_at(MLs.get('lcons', 'ltl', ml_), i_ - 1)))))

# ---- python list[Pattern | Proved] against the machine's lists ----------------------------------------------------------------------------
pt_ = z3.Const('pt_', PTerm)
ptl_ = z3.Const('ptl_', PTL)
pcl_ = z3.Const('pcl_', PCL)


def ex_term(t):
    return z3.If(PTR.is_('PyPat', t), TRM.mk('Pat', expand(PTR.get('PyPat', 'pypat', t))), TRM.mk('Prf', expand(PTR.get('PyPrf', 'pyprf', t))))


ex_stack = _rec('ex_stack', PTL, TL)        # python stack (top = last element) -> machine stack (head = top)
_def(ex_stack, [ptl_], z3.If(PTLs.is_('ptnil', ptl_), TLs.mk('tnil'),
                             TLs.mk('tcons', ex_term(PTLs.get('ptcons', 'pthd', ptl_)), ex_stack(PTLs.get('ptcons', 'pttl', ptl_)))))
ex_mem = _rec('ex_mem', PTL, TL)            # python memory (append at the end) -> machine memory (head = index 0)
_def(ex_mem, [ptl_], z3.If(PTLs.is_('ptnil', ptl_), TLs.mk('tnil'),
                           tl_snoc(ex_mem(PTLs.get('ptcons', 'pttl', ptl_)), ex_term(PTLs.get('ptcons', 'pthd', ptl_)))))
ex_claims = _rec('ex_claims', PCL, ML)
_def(ex_claims, [pcl_], z3.If(PCLs.is_('pcnil', pcl_), MLs.mk('lnil'),
                              MLs.mk('lcons', expand(PCLs.get('pccons', 'pchd', pcl_)), ex_claims(PCLs.get('pccons', 'pctl', pcl_)))))
ptl_len = _rec('ptl_len', PTL, I)
_def(ptl_len, [ptl_], z3.If(PTLs.is_('ptnil', ptl_), z3.IntVal(0), 1 + ptl_len(PTLs.get('ptcons', 'pttl', ptl_))))
ptl_wf = _rec('ptl_wf', PTL, B)

def _pterm_pat(t):
    return z3.If(PTR.is_('PyPat', t), PTR.get('PyPat', 'pypat', t), PTR.get('PyPrf', 'pyprf', t))


_def(ptl_wf, [ptl_], z3.If(PTLs.is_('ptnil', ptl_), True,
                           z3.And(pwf(_pterm_pat(PTLs.get('ptcons', 'pthd', ptl_))), ptl_wf(PTLs.get('ptcons', 'pttl', ptl_)))))
# membership / first index in the machine-side memory
# element at index i counted from the front of a python list (head of the PTL = LAST python element)
ptl_nth_front = _rec('ptl_nth_front', PTL, I, PTerm)
_def(ptl_nth_front, [ptl_, i_], z3.If(PTLs.is_('ptnil', ptl_), PTR.mk('PyPat', P.mk('EVar', z3.IntVal(-1))),
                                      z3.If(i_ == ptl_len(PTLs.get('ptcons', 'pttl', ptl_)), PTLs.get('ptcons', 'pthd', ptl_),
                                            ptl_nth_front(PTLs.get('ptcons', 'pttl', ptl_), i_))))
# element at index i counted from the BACK of a python list (i = 0: the last element)
ptl_nth_back = _rec('ptl_nth_back', PTL, I, PTerm)
_def(ptl_nth_back, [ptl_, i_], z3.If(PTLs.is_('ptnil', ptl_), PTR.mk('PyPat', P.mk('EVar', z3.IntVal(-1))),
                                     z3.If(i_ == 0, PTLs.get('ptcons', 'pthd', ptl_), ptl_nth_back(PTLs.get('ptcons', 'pttl', ptl_), i_ - 1))))
tl_has = _rec('tl_has', TL, Term, B)
_def(tl_has, [tl_, tt_], z3.If(TLs.is_('tnil', tl_), False, z3.Or(TLs.get('tcons', 'thd', tl_) == tt_, tl_has(TLs.get('tcons', 'ttl', tl_), tt_))))
tl_index = _rec('tl_index', TL, Term, I)
_def(tl_index, [tl_, tt_], z3.If(TLs.is_('tnil', tl_), z3.IntVal(0),
                                 z3.If(TLs.get('tcons', 'thd', tl_) == tt_, z3.IntVal(0), 1 + tl_index(TLs.get('tcons', 'ttl', tl_), tt_))))

# ---- slices / views used by the python interpreters --------------------------------------------------------------------------------------
ptl_lastn = _rec('ptl_lastn', PTL, I, PTL)      # the last n elements of the python list (n >= 0), order preserved
_def(ptl_lastn, [ptl_, i_], z3.If(z3.Or(i_ <= 0, PTLs.is_('ptnil', ptl_)), PTLs.mk('ptnil'),
                                 PTLs.mk('ptcons', PTLs.get('ptcons', 'pthd', ptl_), ptl_lastn(PTLs.get('ptcons', 'pttl', ptl_), i_ - 1))))
ptl_dropn = _rec('ptl_dropn', PTL, I, PTL)      # the list without its last n elements
_def(ptl_dropn, [ptl_, i_], z3.If(z3.Or(i_ <= 0, PTLs.is_('ptnil', ptl_)), ptl_, ptl_dropn(PTLs.get('ptcons', 'pttl', ptl_), i_ - 1)))
ptl_bottom = _rec('ptl_bottom', PTL, PTerm, PTL)   # insert an element at index 0 of the python list
_def(ptl_bottom, [ptl_, pt_], z3.If(PTLs.is_('ptnil', ptl_), PTLs.mk('ptcons', pt_, PTLs.mk('ptnil')),
                                   PTLs.mk('ptcons', PTLs.get('ptcons', 'pthd', ptl_), ptl_bottom(PTLs.get('ptcons', 'pttl', ptl_), pt_))))
pm_values = _rec('pm_values', PMap, PTL)        # list(delta.values()) as a python list
_def(pm_values, [pm], z3.If(PMp.is_('pnil', pm), PTLs.mk('ptnil'),
                            ptl_bottom(pm_values(PMp.get('pcons', 'ptl', pm)), PTR.mk('PyPat', PMp.get('pcons', 'pval', pm)))))
pm_keys_rev = _rec('pm_keys_rev', PMap, IdL)    # reversed(delta.keys())
_def(pm_keys_rev, [pm], z3.If(PMp.is_('pnil', pm), IDL.mk('inil'), il_snoc(pm_keys_rev(PMp.get('pcons', 'ptl', pm)), PMp.get('pcons', 'pkey', pm))))
pm_len = _rec('pm_len', PMap, I)
_def(pm_len, [pm], z3.If(PMp.is_('pnil', pm), z3.IntVal(0), 1 + pm_len(PMp.get('pcons', 'ptl', pm))))
il_allbytes = _rec('il_allbytes', IdL, B)
_def(il_allbytes, [_l], z3.If(IDL.is_('inil', _l), True, z3.And(IDL.get('icons', 'ihd', _l) >= 0, IDL.get('icons', 'ihd', _l) <= 255,
                                                            il_allbytes(IDL.get('icons', 'itl', _l)))))
il_cat = _rec('il_cat', IdL, IdL, IdL)
_def(il_cat, [_l, il2_], z3.If(IDL.is_('inil', _l), il2_, IDL.mk('icons', IDL.get('icons', 'ihd', _l), il_cat(IDL.get('icons', 'itl', _l), il2_))))

# ---- list plumbing for Instantiate: python slices / dict views against the machine's operand loop ---------------------------------------
tl2_ = z3.Const('tl2_', TL)
ml2_ = z3.Const('ml2_', ML)
tl_cat = _rec('tl_cat', TL, TL, TL)
_def(tl_cat, [tl_, tl2_], z3.If(TLs.is_('tnil', tl_), tl2_, TLs.mk('tcons', TLs.get('tcons', 'thd', tl_), tl_cat(TLs.get('tcons', 'ttl', tl_), tl2_))))
ml_cat = _rec('ml_cat', ML, ML, ML)
_def(ml_cat, [ml_, ml2_], z3.If(MLs.is_('lnil', ml_), ml2_, MLs.mk('lcons', MLs.get('lcons', 'lhd', ml_), ml_cat(MLs.get('lcons', 'ltl', ml_), ml2_))))
tl_taken = _rec('tl_taken', TL, I, TL)      # the top n entries
_def(tl_taken, [tl_, i_], z3.If(z3.Or(i_ <= 0, TLs.is_('tnil', tl_)), TLs.mk('tnil'),
                               TLs.mk('tcons', TLs.get('tcons', 'thd', tl_), tl_taken(TLs.get('tcons', 'ttl', tl_), i_ - 1))))
tl_dropn = _rec('tl_dropn', TL, I, TL)
_def(tl_dropn, [tl_, i_], z3.If(z3.Or(i_ <= 0, TLs.is_('tnil', tl_)), tl_, tl_dropn(TLs.get('tcons', 'ttl', tl_), i_ - 1)))
tl_allpat = _rec('tl_allpat', TL, B)
_def(tl_allpat, [tl_], z3.If(TLs.is_('tnil', tl_), True, z3.And(TRM.is_('Pat', TLs.get('tcons', 'thd', tl_)), tl_allpat(TLs.get('tcons', 'ttl', tl_)))))
tl_pats = _rec('tl_pats', TL, ML)           # the patterns of a list of Pat entries, top first
_def(tl_pats, [tl_], z3.If(TLs.is_('tnil', tl_), MLs.mk('lnil'),
                           MLs.mk('lcons', TRM.get('Pat', 'pat', TLs.get('tcons', 'thd', tl_)), tl_pats(TLs.get('tcons', 'ttl', tl_)))))
# reversed association list of a map as (ids, plugs): what the machine reads for `Instantiate n reversed(keys)` with the plugs on the stack
mkeys_rev = _rec('mkeys_rev', MMap, IdL)
_def(mkeys_rev, [mm], z3.If(MMp.is_('mnil', mm), IDL.mk('inil'), il_snoc(mkeys_rev(MMp.get('mcons', 'mtl', mm)), MMp.get('mcons', 'mkey', mm))))
mvals_rev = _rec('mvals_rev', MMap, ML)
_def(mvals_rev, [mm], z3.If(MMp.is_('mnil', mm), MLs.mk('lnil'), ml_snoc(mvals_rev(MMp.get('mcons', 'mtl', mm)), MMp.get('mcons', 'mval', mm))))
mlen = _rec('mlen', MMap, I)
_def(mlen, [mm], z3.If(MMp.is_('mnil', mm), z3.IntVal(0), 1 + mlen(MMp.get('mcons', 'mtl', mm))))
msnoc = _rec('msnoc', MMap, I, MPat, MMap)
_def(msnoc, [mm, k, vv], z3.If(MMp.is_('mnil', mm), MMp.mk('mcons', k, vv, MMp.mk('mnil')),
                               MMp.mk('mcons', MMp.get('mcons', 'mkey', mm), MMp.get('mcons', 'mval', mm), msnoc(MMp.get('mcons', 'mtl', mm), k, vv))))
mv_hit_m = _rec('mv_hit_m', MPat, MMap, B)
_def(mv_hit_m, [p, mm], _case(p, [
    ('Implies', lambda l, r: z3.Or(mv_hit_m(l, mm), mv_hit_m(r, mm))),
    ('App', lambda l, r: z3.Or(mv_hit_m(l, mm), mv_hit_m(r, mm))),
    ('Exists', lambda v, s: mv_hit_m(s, mm)),
    ('Mu', lambda v, s: mv_hit_m(s, mm)),
    ('MetaVar', lambda n, a, b, c, d, e: mhas(mm, n)),
    ('ESubst', lambda b, v, pl: z3.Or(mv_hit_m(b, mm), mv_hit_m(pl, mm))),
    ('SSubst', lambda b, v, pl: z3.Or(mv_hit_m(b, mm), mv_hit_m(pl, mm))),
], z3.BoolVal(False)))
mrz = _rec('mrz', MMap, MMap)       # the reversed association list
_def(mrz, [mm], z3.If(MMp.is_('mnil', mm), MMp.mk('mnil'), msnoc(mrz(MMp.get('mcons', 'mtl', mm)), MMp.get('mcons', 'mkey', mm), MMp.get('mcons', 'mval', mm))))
