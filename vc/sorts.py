"""z3 sorts shared by every front end and contract.

MPat  : matching-logic meta-patterns WITHOUT notation (= the Rust `Pattern` enum, = the spec domain)
PPat  : the Python `Pattern` class hierarchy (MPat constructors + Instantiate)
IdL   : cons list of Int            (Rust IdList / Python tuple[EVar|SVar, ...] seen as the list of names)
MMap  : association list Int->MPat  (instantiation maps after expansion; Rust (vars, plugs) pairs)
PMap  : association list Int->PPat  (python frozendict[int, Pattern] in insertion order)
ML    : cons list of MPat
Term  : Pat(MPat) | Prf(MPat)       (stack / memory entries of the machine)
TL    : cons list of Term
"""
import z3

Int = z3.IntSort()
Bool = z3.BoolSort()

IdL = z3.Datatype('IdL')
IdL.declare('inil')
IdL.declare('icons', ('ihd', Int), ('itl', IdL))
IdL = IdL.create()

_SHAPE = [
    ('EVar', [('name', 'int')]), ('SVar', [('name', 'int')]), ('Symbol', [('name', 'int')]),
    ('Implies', [('left', 'pat'), ('right', 'pat')]), ('App', [('left', 'pat'), ('right', 'pat')]),
    ('Exists', [('var', 'int'), ('subpattern', 'pat')]), ('Mu', [('var', 'int'), ('subpattern', 'pat')]),
    ('MetaVar', [('name', 'int'), ('e_fresh', 'idl'), ('s_fresh', 'idl'), ('positive', 'idl'), ('negative', 'idl'),
                 ('app_ctx_holes', 'idl')]),
    ('ESubst', [('pattern', 'pat'), ('var', 'int'), ('plug', 'pat')]),
    ('SSubst', [('pattern', 'pat'), ('var', 'int'), ('plug', 'pat')]),
]


def _declare(dt, mapdt, prefix, extra):
    for cn, fs in _SHAPE + extra:
        dt.declare(prefix + cn, *[(prefix + cn + '_' + f, {'int': Int, 'pat': dt, 'idl': IdL, 'map': mapdt}[k]) for f, k in fs])


_M = z3.Datatype('MPat')
_MM = z3.Datatype('MMap')
_declare(_M, _MM, '', [])
_MM.declare('mnil')
_MM.declare('mcons', ('mkey', Int), ('mval', _M), ('mtl', _MM))
MPat, MMap = z3.CreateDatatypes(_M, _MM)

_P = z3.Datatype('PPat')
_PM = z3.Datatype('PMap')
_declare(_P, _PM, 'P', [('Instantiate', [('pattern', 'pat'), ('inst', 'map')])])
_PM.declare('pnil')
_PM.declare('pcons', ('pkey', Int), ('pval', _P), ('ptl', _PM))
PPat, PMap = z3.CreateDatatypes(_P, _PM)

ML = z3.Datatype('ML')
ML.declare('lnil')
ML.declare('lcons', ('lhd', MPat), ('ltl', ML))
ML = ML.create()

Term = z3.Datatype('Term')
Term.declare('Pat', ('pat', MPat))
Term.declare('Prf', ('prf', MPat))
Term = Term.create()

TL = z3.Datatype('TL')
TL.declare('tnil')
TL.declare('tcons', ('thd', Term), ('ttl', TL))
TL = TL.create()

IL = IdL  # alias

CTORS = ['EVar', 'SVar', 'Symbol', 'Implies', 'App', 'Exists', 'Mu', 'MetaVar', 'ESubst', 'SSubst']
PCTORS = CTORS + ['Instantiate']
FIELDS = {
    'EVar': ['name'], 'SVar': ['name'], 'Symbol': ['name'],
    'Implies': ['left', 'right'], 'App': ['left', 'right'],
    'Exists': ['var', 'subpattern'], 'Mu': ['var', 'subpattern'],
    'MetaVar': ['name', 'e_fresh', 's_fresh', 'positive', 'negative', 'app_ctx_holes'],
    'ESubst': ['pattern', 'var', 'plug'], 'SSubst': ['pattern', 'var', 'plug'],
    'Instantiate': ['pattern', 'inst'],
}
# kind of each field: 'int', 'pat', 'idl', 'map'
FKIND = {
    'name': 'int', 'var': 'int', 'left': 'pat', 'right': 'pat', 'subpattern': 'pat', 'pattern': 'pat', 'plug': 'pat',
    'e_fresh': 'idl', 's_fresh': 'idl', 'positive': 'idl', 'negative': 'idl', 'app_ctx_holes': 'idl', 'inst': 'map',
}


class ADT:
    """Convenience access: A.mk('Implies', l, r), A.is_('Implies', t), A.get('Implies', 'left', t)."""

    def __init__(self, sort, prefix=''):
        self.sort = sort
        self.ctor = {}
        self.rec = {}
        self.acc = {}
        for i in range(sort.num_constructors()):
            c = sort.constructor(i)
            n = c.name()[len(prefix):]
            self.ctor[n] = c
            self.rec[n] = sort.recognizer(i)
            for j in range(c.arity()):
                a = sort.accessor(i, j)
                an = a.name()[len(prefix):]
                self.acc[(n, an[len(n) + 1:] if an.startswith(n + '_') else an)] = a

    def mk(self, n, *args):
        c = self.ctor[n]
        args = [z3.IntVal(a) if isinstance(a, int) else a for a in args]
        return c(*args) if c.arity() else c()

    def is_(self, n, t):
        return self.rec[n](t)

    def get(self, n, f, t):
        return self.acc[(n, f)](t)


M = ADT(MPat)
P = ADT(PPat, 'P')
MMp = ADT(MMap)
PMp = ADT(PMap)
IDL = ADT(IdL)
MLs = ADT(ML)
TRM = ADT(Term)
TLs = ADT(TL)


def idl(*xs):
    r = IDL.mk('inil')
    for x in reversed(xs):
        r = IDL.mk('icons', x if z3.is_expr(x) else z3.IntVal(x), r)
    return r


def ctor_of(t):
    """Name of the head constructor if t is syntactically a constructor application, else None."""
    if z3.is_app(t) and t.decl().kind() == z3.Z3_OP_DT_CONSTRUCTOR:
        n = t.decl().name()
        return n[1:] if t.sort() == PPat else n
    return None


# ---- spec machine state / loop summaries (C05, C04, C14) ---------------------------------------------------------------------------
SMState = z3.Datatype('SMState')
SMState.declare('reject')
SMState.declare('st', ('st_stack', TL), ('st_mem', TL), ('st_claims', ML))
SMState = SMState.create()
SMS = ADT(SMState)

TakeRes = z3.Datatype('TakeRes')
TakeRes.declare('tfail')
TakeRes.declare('tdone', ('t_ids', IdL), ('t_plugs', ML), ('t_rest', IdL), ('t_stack', TL))
TakeRes = TakeRes.create()
TKR = ADT(TakeRes)

ReadRes = z3.Datatype('ReadRes')
ReadRes.declare('rfail')
ReadRes.declare('rdone', ('r_list', IdL), ('r_rest', IdL))
ReadRes = ReadRes.create()
RDR = ADT(ReadRes)


# ---- python-side machine state (StatefulInterpreter.stack / memory: list[Pattern | Proved]) -------------------------------------------
PTerm = z3.Datatype('PTerm')
PTerm.declare('PyPat', ('pypat', PPat))
PTerm.declare('PyPrf', ('pyprf', PPat))
PTerm = PTerm.create()
PTR = ADT(PTerm)
PTL = z3.Datatype('PTL')
PTL.declare('ptnil')
PTL.declare('ptcons', ('pthd', PTerm), ('pttl', PTL))     # head = LAST element of the python list (append = cons)
PTL = PTL.create()
PTLs = ADT(PTL)
PCL = z3.Datatype('PCL')                                   # list[Claim]: head = FIRST element
PCL.declare('pcnil')
PCL.declare('pccons', ('pchd', PPat), ('pctl', PCL))
PCL = PCL.create()
PCLs = ADT(PCL)
