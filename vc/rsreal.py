"""Running the REAL Rust checker: a harness that textually includes $PI2_ROOT/rust/src/lib.rs (attribute lines `#![..]`
and the `/// Testing` tail stripped -- nothing else), compiled with `rustc +stable -O` (cargo cannot run offline here:
the pinned nightly toolchain is absent).  Helper entry points are appended INSIDE the module so that private functions
(e_fresh, apply_esubst, execute_instructions, ...) can be called directly on arbitrary pattern values."""
import hashlib
import os
import re
import subprocess
import tempfile

HELPERS = r'''
    // ---- appended by /verif/vc/rsreal.py (replay helpers; not part of the checker) ----
    pub mod vhelp {
        use super::*;
        use alloc::string::String;
        use alloc::format;
        pub fn parse(toks: &mut core::slice::Iter<&str>) -> Rc<Pattern> {
            let t = *toks.next().expect("pattern token");
            let mut num = |toks: &mut core::slice::Iter<&str>| -> u8 { toks.next().expect("num").parse::<u8>().expect("u8") };
            match t {
                "E" => evar(num(toks)),
                "S" => svar(num(toks)),
                "Y" => symbol(num(toks)),
                "I" => { let l = parse(toks); let r = parse(toks); implies(l, r) }
                "A" => { let l = parse(toks); let r = parse(toks); app(l, r) }
                "X" => { let v = num(toks); let p = parse(toks); exists(v, p) }
                "M" => { let v = num(toks); let p = parse(toks); mu(v, p) }
                "V" => {
                    let id = num(toks);
                    let mut lists: Vec<Vec<u8>> = Vec::new();
                    for _ in 0..5 { let k = num(toks); let mut l = Vec::new(); for _ in 0..k { l.push(num(toks)); } lists.push(l); }
                    let app_ctx_holes = lists.pop().unwrap(); let negative = lists.pop().unwrap(); let positive = lists.pop().unwrap();
                    let s_fresh = lists.pop().unwrap(); let e_fresh = lists.pop().unwrap();
                    Rc::new(Pattern::MetaVar { id, e_fresh, s_fresh, positive, negative, app_ctx_holes })
                }
                "ES" => { let p = parse(toks); let v = num(toks); let q = parse(toks); esubst(p, v, q) }
                "SS" => { let p = parse(toks); let v = num(toks); let q = parse(toks); ssubst(p, v, q) }
                _ => panic!("bad pattern token {}", t),
            }
        }
        pub fn run(args: &[&str]) -> String {
            let mut it = args[1..].iter();
            match args[0] {
                "efresh" => { let p = parse(&mut it); let x: u8 = it.next().unwrap().parse().unwrap(); format!("{}", p.e_fresh(x)) }
                "sfresh" => { let p = parse(&mut it); let x: u8 = it.next().unwrap().parse().unwrap(); format!("{}", p.s_fresh(x)) }
                "positive" => { let p = parse(&mut it); let x: u8 = it.next().unwrap().parse().unwrap(); format!("{}", p.positive(x)) }
                "negative" => { let p = parse(&mut it); let x: u8 = it.next().unwrap().parse().unwrap(); format!("{}", p.negative(x)) }
                "wf" => { let p = parse(&mut it); format!("{}", p.well_formed()) }
                "redundant" => { let p = parse(&mut it); format!("{}", p.is_redundant_subst()) }
                "esubst" => { let p = parse(&mut it); let x: u8 = it.next().unwrap().parse().unwrap(); let q = parse(&mut it);
                              format!("{:?}", apply_esubst(&p, x, &q)) }
                "ssubst" => { let p = parse(&mut it); let x: u8 = it.next().unwrap().parse().unwrap(); let q = parse(&mut it);
                              format!("{:?}", apply_ssubst(&p, x, &q)) }
                "inst" => { let p = parse(&mut it); let k: usize = it.next().unwrap().parse().unwrap();
                            let mut ids: Vec<u8> = Vec::new(); let mut plugs: Vec<Rc<Pattern>> = Vec::new();
                            for _ in 0..k { ids.push(it.next().unwrap().parse().unwrap()); }
                            for _ in 0..k { plugs.push(parse(&mut it)); }
                            format!("{:?}", instantiate_internal(&p, &ids, &plugs)) }
                "verify" => { let g = hex(it.next().unwrap()); let c = hex(it.next().unwrap()); let p = hex(it.next().unwrap());
                              verify(&g, &c, &p); String::from("ACCEPT") }
                "dump" => { let g = hex(it.next().unwrap()); let c = hex(it.next().unwrap()); let p = hex(it.next().unwrap());
                            let mut claims: Claims = Vec::new(); let mut memory: Memory = Vec::new(); let mut stack: Stack = Vec::new();
                            execute_instructions(&g, &mut stack, &mut memory, &mut claims, ExecutionPhase::Gamma);
                            let s1 = format!("{:?}", stack); stack.clear();
                            execute_instructions(&c, &mut stack, &mut memory, &mut claims, ExecutionPhase::Claim);
                            let s2 = format!("{:?}", stack); stack.clear();
                            execute_instructions(&p, &mut stack, &mut memory, &mut claims, ExecutionPhase::Proof);
                            format!("STACKS {} ;; {} ;; {:?} MEMORY {:?} CLAIMS {:?}", s1, s2, stack, memory, claims) }
                "exec" => { // exec <0|1|2> <hex> S <n> (P|R pattern)*n  M <n> (P|R pattern)*n  C <n> pattern*n   (stack/claims: top first)
                            let ph: u8 = it.next().unwrap().parse().unwrap(); let b = hex(it.next().unwrap());
                            let mut stack: Stack = Vec::new(); let mut memory: Memory = Vec::new(); let mut claims: Claims = Vec::new();
                            assert!(*it.next().unwrap() == "S"); let n: usize = it.next().unwrap().parse().unwrap();
                            for _ in 0..n { let k = *it.next().unwrap(); let p = parse(&mut it);
                                            stack.push(if k == "P" { Term::Pattern(p) } else { Term::Proved(p) }); }
                            stack.reverse();
                            assert!(*it.next().unwrap() == "M"); let n: usize = it.next().unwrap().parse().unwrap();
                            for _ in 0..n { let k = *it.next().unwrap(); let p = parse(&mut it);
                                            memory.push(if k == "P" { Entry::Pattern(p) } else { Entry::Proved(p) }); }
                            assert!(*it.next().unwrap() == "C"); let n: usize = it.next().unwrap().parse().unwrap();
                            for _ in 0..n { let p = parse(&mut it); claims.push(p); }
                            claims.reverse();
                            let phase = match ph { 0 => ExecutionPhase::Gamma, 1 => ExecutionPhase::Claim, _ => ExecutionPhase::Proof };
                            execute_instructions(&b, &mut stack, &mut memory, &mut claims, phase);
                            format!("STACK {:?} MEMORY {:?} CLAIMS {:?}", stack, memory, claims) }
                "phase" => { // phase <0|1|2> <hex>  : one phase from empty state
                            let ph: u8 = it.next().unwrap().parse().unwrap(); let b = hex(it.next().unwrap());
                            let mut claims: Claims = Vec::new(); let mut memory: Memory = Vec::new(); let mut stack: Stack = Vec::new();
                            let phase = match ph { 0 => ExecutionPhase::Gamma, 1 => ExecutionPhase::Claim, _ => ExecutionPhase::Proof };
                            execute_instructions(&b, &mut stack, &mut memory, &mut claims, phase);
                            format!("STACK {:?} MEMORY {:?} CLAIMS {:?}", stack, memory, claims) }
                _ => panic!("bad command"),
            }
        }
        fn hex(s: &str) -> Vec<u8> {
            if s == "-" { return Vec::new(); }
            let b = s.as_bytes(); let mut out = Vec::new(); let mut i = 0;
            while i + 1 < b.len() { out.push(u8::from_str_radix(&s[i..i+2], 16).unwrap()); i += 2; }
            out
        }
    }
'''

MAIN = r'''
fn main() {
    // one command per stdin line; each answered by one line: "OK <result>" or "PANIC"
    use std::io::BufRead;
    std::panic::set_hook(Box::new(|_| {}));
    let stdin = std::io::stdin();
    for line in stdin.lock().lines() {
        let line = line.unwrap();
        let toks: Vec<&str> = line.split_whitespace().collect();
        if toks.is_empty() { continue; }
        let r = std::panic::catch_unwind(|| checker::vhelp::run(&toks));
        match r { Ok(s) => println!("OK {}", s), Err(_) => println!("PANIC") }
    }
}
'''


def harness_source(root):
    src = open(os.path.join(root, 'rust', 'src', 'lib.rs')).read()
    cut = src.find('/// Testing')
    if cut >= 0:
        src = src[:cut]
    lines = [l for l in src.split('\n') if not l.startswith('#![')]
    body = '\n'.join(lines)
    return 'extern crate alloc;\n#[allow(dead_code, unused_imports, unused_variables, unused_mut)]\nmod checker {\n' + body + HELPERS + '\n}\n' + MAIN


class RustReal:
    def __init__(self, root=None):
        self.root = root or os.environ.get('PI2_ROOT', '/repo')
        self.dir = None
        self.bin = None
        self.error = None

    def build(self):
        if self.bin or self.error:
            return self.bin
        src = harness_source(self.root)
        self.dir = tempfile.mkdtemp(prefix='pi2_rs_harness_')
        fn = os.path.join(self.dir, 'harness.rs')
        open(fn, 'w').write(src)
        out = os.path.join(self.dir, 'harness')
        env = dict(os.environ)
        p = subprocess.run(['rustc', '+stable', '-O', '--edition', '2021', '-A', 'warnings', '-o', out, fn],
                           capture_output=True, text=True, env=env, cwd=self.dir)
        if p.returncode != 0:
            self.error = p.stderr[-3000:]
            return None
        self.bin = out
        return out

    def run(self, commands, timeout=120):
        """commands: list of command strings -> list of ('OK', text) | ('PANIC', '')"""
        if not self.build():
            raise RuntimeError('rust harness does not compile:\n' + (self.error or ''))
        p = subprocess.run([self.bin], input='\n'.join(commands) + '\n', capture_output=True, text=True, timeout=timeout)
        out = []
        for line in p.stdout.split('\n'):
            if line.startswith('OK '):
                out.append(('OK', line[3:]))
            elif line.startswith('OK'):
                out.append(('OK', ''))
            elif line.startswith('PANIC'):
                out.append(('PANIC', ''))
        if len(out) != len(commands):
            raise RuntimeError(f'harness answered {len(out)} of {len(commands)} commands; stderr: {p.stderr[-500:]}')
        return out

    def close(self):
        if self.dir:
            import shutil
            shutil.rmtree(self.dir, ignore_errors=True)
            self.dir = None
            self.bin = None


# ---- pattern data <-> harness tokens / Debug text ------------------------------------------------------------------------
def idl_list(d):
    out = []
    while d[0] == 'icons':
        out.append(d[1])
        d = d[2]
    return out


def data_to_tokens(d):
    c = d[0]
    if c == 'EVar':
        return f'E {d[1] % 256}'
    if c == 'SVar':
        return f'S {d[1] % 256}'
    if c == 'Symbol':
        return f'Y {d[1] % 256}'
    if c == 'Implies':
        return f'I {data_to_tokens(d[1])} {data_to_tokens(d[2])}'
    if c == 'App':
        return f'A {data_to_tokens(d[1])} {data_to_tokens(d[2])}'
    if c == 'Exists':
        return f'X {d[1] % 256} {data_to_tokens(d[2])}'
    if c == 'Mu':
        return f'M {d[1] % 256} {data_to_tokens(d[2])}'
    if c == 'MetaVar':
        parts = [f'V {d[1] % 256}']
        for l in d[2:7]:
            xs = idl_list(l)
            parts.append(str(len(xs)))
            parts.extend(str(x % 256) for x in xs)
        return ' '.join(parts)
    if c == 'ESubst':
        return f'ES {data_to_tokens(d[1])} {d[2] % 256} {data_to_tokens(d[3])}'
    if c == 'SSubst':
        return f'SS {data_to_tokens(d[1])} {d[2] % 256} {data_to_tokens(d[3])}'
    raise ValueError(d)


_TOK = re.compile(r'\s*([A-Za-z_][A-Za-z_0-9]*|\d+|[{}()\[\],:])')


def parse_debug(s):
    """Rust `{:?}` of Pattern / Option<Rc<Pattern>> / Term / Vec<..> -> ctor data."""
    toks = _TOK.findall(s)
    pos = [0]

    def peek():
        return toks[pos[0]] if pos[0] < len(toks) else None

    def nxt():
        t = toks[pos[0]]
        pos[0] += 1
        return t

    def lst():
        assert nxt() == '['
        out = []
        while peek() != ']':
            out.append(val())
            if peek() == ',':
                nxt()
        nxt()
        return out

    def mkidl(xs):
        r = ('inil',)
        for x in reversed(xs):
            r = ('icons', x, r)
        return r

    def val():
        t = peek()
        if t == '[':
            return ('list',) + tuple(lst())
        t = nxt()
        if t.isdigit():
            return int(t)
        if t in ('true', 'false'):
            return t == 'true'
        if t == 'None':
            return None
        if peek() == '(':
            nxt()
            args = []
            while peek() != ')':
                args.append(val())
                if peek() == ',':
                    nxt()
            nxt()
            if t == 'Some':
                return ('Some', args[0])
            if t in ('Pattern', 'Proved'):
                return ('Pat' if t == 'Pattern' else 'Prf', args[0])
            return (t,) + tuple(args)
        if peek() == '{':
            nxt()
            fields = {}
            while peek() != '}':
                k = nxt()
                assert nxt() == ':'
                fields[k] = val()
                if peek() == ',':
                    nxt()
            nxt()
            if t == 'MetaVar':
                return ('MetaVar', fields['id']) + tuple(mkidl(list(fields[k][1:])) for k in
                                                          ('e_fresh', 's_fresh', 'positive', 'negative', 'app_ctx_holes'))
            if t in ('Implies', 'App'):
                return (t, fields['left'], fields['right'])
            if t in ('Exists', 'Mu'):
                return (t, fields['var'], fields['subpattern'])
            if t == 'ESubst':
                return (t, fields['pattern'], fields['evar_id'], fields['plug'])
            if t == 'SSubst':
                return (t, fields['pattern'], fields['svar_id'], fields['plug'])
            return (t, fields)
        return (t,)
    return val()
