"""PyFE: symbolic execution of the REAL Python source (re-read from the working tree on every run).

Nothing here is a model of pi2: function bodies are taken from the `ast` of the files on disk.  What the
lowering drops is listed in DESIGN.md 2.1 (annotations, docstrings, assert/raise messages, print).
"""
import ast
import os
import z3
from .engine import SV, Ctx, SymRaise, Unsupported, Infeasible, PathEnd
from .sorts import *  # noqa
from . import spec

PATTERN_MODULE = 'proof_generation.pattern'


class PyClass:
    def __init__(self, name, module, node):
        self.name = name
        self.module = module
        self.node = node
        self.methods = {}
        self.fields = []      # dataclass fields: (name, default_ast or None)
        self.class_attrs = {}
        self.is_dataclass = False
        self.frozen = False
        self.eq = True
        for d in node.decorator_list:
            dn = d.func if isinstance(d, ast.Call) else d
            if isinstance(dn, ast.Name) and dn.id == 'dataclass':
                self.is_dataclass = True
                if isinstance(d, ast.Call):
                    for kw in d.keywords:
                        if kw.arg == 'frozen':
                            self.frozen = bool(getattr(kw.value, 'value', False))
        for st in node.body:
            if isinstance(st, ast.FunctionDef):
                kind = 'method'
                for d in st.decorator_list:
                    if isinstance(d, ast.Name) and d.id in ('staticmethod', 'classmethod', 'property', 'abstractmethod'):
                        kind = d.id if d.id != 'abstractmethod' else kind
                self.methods[st.name] = PyFunc(st, module, f'{name}.{st.name}', self, kind)
            elif isinstance(st, ast.AnnAssign) and isinstance(st.target, ast.Name):
                self.fields.append((st.target.id, st.value))
            elif isinstance(st, ast.Assign) and len(st.targets) == 1 and isinstance(st.targets[0], ast.Name):
                self.class_attrs[st.targets[0].id] = st.value

    @property
    def base_names(self):
        out = []
        for b in self.node.bases:
            if isinstance(b, ast.Name):
                out.append(b.id)
            elif isinstance(b, ast.Attribute):
                out.append(b.attr)
        return out

    def bases(self):
        out = []
        for bn in self.base_names:
            try:
                v = self.module.lookup_static(bn)
            except KeyError:
                continue
            if isinstance(v, PyClass):
                out.append(v)
        return out

    def mro(self):
        seen, out = set(), []

        def go(c):
            if id(c) in seen:
                return
            seen.add(id(c))
            out.append(c)
            for b in c.bases():
                go(b)
        go(self)
        return out

    def find_method(self, name, after=None):
        m = self.mro()
        if after is not None:
            i = [id(c) for c in m].index(id(after))
            m = m[i + 1:]
        for c in m:
            if name in c.methods:
                return c.methods[name]
        return None

    def all_fields(self):
        fs = []
        for c in reversed(self.mro()):
            if c.is_dataclass:
                for f in c.fields:
                    fs = [g for g in fs if g[0] != f[0]] + [f]
        return fs

    def is_subclass(self, other):
        return any(c is other or (c.name == other.name and c.module.name == other.module.name) for c in self.mro())

    def is_pattern(self):
        return self.module.name == PATTERN_MODULE and (self.name in PCTORS or self.name == 'Pattern')

    def __repr__(self):
        return f'<class {self.module.name}.{self.name}>'


class PyFunc:
    def __init__(self, node, module, qualname, cls=None, kind='func'):
        self.node = node
        self.module = module
        self.qualname = qualname
        self.cls = cls
        self.kind = kind

    def __repr__(self):
        return f'<func {self.qualname}>'


class Closure:
    def __init__(self, node, env, module, cls_ctx=None, qualname='<lambda>'):
        self.node = node
        self.env = env
        self.module = module
        self.cls_ctx = cls_ctx
        self.qualname = qualname


class Bound:
    def __init__(self, selfv, func, start_cls=None):
        self.selfv = selfv
        self.func = func


class FamilyMethod:
    """p.m where p is a symbolic pattern."""

    def __init__(self, selfv, name):
        self.selfv = selfv
        self.name = name


class Obj:
    def __init__(self, cls, attrs=None):
        self.cls = cls
        self.attrs = attrs or {}

    def __repr__(self):
        return f'<{self.cls.name} {self.attrs}>'


class Builtin:
    def __init__(self, name, fn):
        self.name = name
        self.fn = fn


class SuperProxy:
    def __init__(self, selfv, cls):
        self.selfv = selfv
        self.cls = cls


class NotImpl:
    pass


NOTIMPL = NotImpl()


class PyModule:
    def __init__(self, repo, name, path):
        self.repo = repo
        self.name = name
        self.path = path
        with open(path) as f:
            self.source = f.read()
        self.tree = ast.parse(self.source)
        self.static = {}
        self.assigns = {}
        self.imports = {}
        self._scan(self.tree.body)

    def _scan(self, body):
        for st in body:
            if isinstance(st, ast.ClassDef):
                self.static[st.name] = PyClass(st.name, self, st)
            elif isinstance(st, ast.FunctionDef):
                self.static[st.name] = PyFunc(st, self, st.name)
            elif isinstance(st, ast.Assign) and len(st.targets) == 1 and isinstance(st.targets[0], ast.Name):
                self.assigns[st.targets[0].id] = st.value
            elif isinstance(st, ast.AnnAssign) and isinstance(st.target, ast.Name) and st.value is not None:
                self.assigns[st.target.id] = st.value
            elif isinstance(st, ast.ImportFrom):
                mod = st.module or ''
                if st.level:
                    base = self.name.rsplit('.', st.level)[0]
                    mod = base + ('.' + mod if mod else '')
                for a in st.names:
                    self.imports[a.asname or a.name] = (mod, a.name)
            elif isinstance(st, ast.Import):
                for a in st.names:
                    self.imports[a.asname or a.name] = (a.name, None)
            elif isinstance(st, ast.If):
                # `if TYPE_CHECKING:` imports are needed only for isinstance on annotations; scan them too
                self._scan(st.body)

    def lookup_static(self, name):
        if name in self.static:
            return self.static[name]
        if name in self.imports:
            mod, n = self.imports[name]
            m = self.repo.module(mod)
            if m is None:
                raise KeyError(name)
            if n is None:
                return m
            return m.lookup_static(n)
        raise KeyError(name)


class Repo:
    def __init__(self, root=None):
        self.root = root or os.environ.get('PI2_ROOT', '/repo')
        self.src = os.path.join(self.root, 'generation', 'src')
        self.mods = {}

    def module(self, dotted):
        if dotted in self.mods:
            return self.mods[dotted]
        path = os.path.join(self.src, *dotted.split('.')) + '.py'
        if not os.path.exists(path):
            self.mods[dotted] = None
            return None
        m = PyModule(self, dotted, path)
        self.mods[dotted] = m
        return m

    def func(self, dotted_module, qual):
        m = self.module(dotted_module)
        parts = qual.split('.')
        v = m.lookup_static(parts[0])
        for p in parts[1:]:
            v = v.methods[p]
        return v

    def cls(self, dotted_module, name):
        return self.module(dotted_module).lookup_static(name)


class _Return(Exception):
    def __init__(self, v):
        self.v = v


class _Break(Exception):
    pass


class _Continue(Exception):
    pass


class _LoopDone(PathEnd):
    """End of the 'arbitrary iteration' path of a loop under contract (the invariant has been re-established)."""


class LoopContract:
    def entry(self, interp, ctx, env, it):
        pass

    def arbitrary_iteration(self, interp, ctx, env, it):
        return None

    def after_iteration(self, interp, ctx, env, it, elem):
        pass

    def on_break(self, interp, ctx, env, it, elem):
        pass

    def exit(self, interp, ctx, env, it):
        pass


class Env:
    def __init__(self, parent=None):
        self.vars = {}
        self.parent = parent
        self.nonlocals = set()

    def get(self, n):
        e = self
        while e is not None:
            if n in e.vars:
                return e.vars[n]
            e = e.parent
        raise KeyError(n)

    def set(self, n, v):
        if n in self.nonlocals:
            e = self.parent
            while e is not None:
                if n in e.vars:
                    e.vars[n] = v
                    return
                e = e.parent
        self.vars[n] = v


def zbool(b):
    return z3.BoolVal(b) if isinstance(b, bool) else b


class Interp:
    """One symbolic execution run (bound to one Ctx)."""

    def __init__(self, repo, ctx, contracts=None, pat_sort='ppat', opts=None):
        self.repo = repo
        self.ctx = ctx
        self.contracts = contracts or {}
        self.pat_sort = pat_sort          # sort given to patterns built by constructor calls
        self.modcache = {}
        self.shared_ids = {}     # id(container bound at module / class level) -> where: state that outlives a call
        self.depth = 0
        self.opts = opts or {}
        self.inline = set(self.opts.get('inline', ()))     # qualnames to inline even if a contract exists
        self.call_log = []
        self.loop_contracts = self.opts.get('loops', {})
        self.comp_contracts = self.opts.get('comps', {})
        self.fn_stack = []

    # ---- ADT helpers ------------------------------------------------------------------------------------------
    def A(self, sv_or_kind):
        k = sv_or_kind.kind if isinstance(sv_or_kind, SV) else sv_or_kind
        return P if k == 'ppat' else M

    def is_pat(self, v):
        return isinstance(v, SV) and v.kind in ('ppat', 'mpat')

    def ctor(self, v, candidates=None, why=''):
        """Constructor name of pattern SV v on this path (forks if unknown)."""
        c = ctor_of(v.t)
        if c:
            return c
        key = v.t.get_id()
        if key in self.ctx.known_ctor:
            return self.ctx.known_ctor[key][1]
        nt = self.ctx.nz(v.t)
        if ctor_of(nt):
            v.t = nt
            return ctor_of(nt)
        A = self.A(v)
        cands = candidates or list(A.ctor.keys())
        for cn in cands:
            if self.ctx.branch(A.is_(cn, v.t), f'ctor {cn}'):
                self.ctx.known_ctor[key] = (v.t, cn)
                return cn
        return None

    def field(self, v, cn, f):
        A = self.A(v)
        t = A.get(cn, f, v.t)
        k = FKIND[f]
        if ctor_of(v.t):
            t = z3.simplify(t)
        if k == 'pat':
            return SV(t, v.kind)
        if k == 'int':
            if f == 'name' and cn == 'Symbol':
                return SV(t, 'name')
            if z3.is_int_value(t) and not (f == 'var' and cn in ('ESubst', 'SSubst')):
                return t.as_long()
            if f == 'var' and cn in ('ESubst', 'SSubst'):
                # python: an EVar / SVar object
                vc = 'EVar' if cn == 'ESubst' else 'SVar'
                return SV(A.mk(vc, t), v.kind)
            return SV(t, 'int')
        if k == 'idl':
            return SV(t, 'idl', 'EVar' if f in ('e_fresh', 'app_ctx_holes') else 'SVar')
        if k == 'map':
            return SV(t, 'pmap')
        raise Unsupported(f'field kind {k}')

    def mk_pat(self, cn, args):
        kind = self.pat_sort
        for a in args:
            if self.is_pat(a):
                kind = a.kind
                break
        A = P if kind == 'ppat' else M
        zs = []
        for f, a in zip(FIELDS[cn], args):
            k = FKIND[f]
            if k == 'pat':
                if not self.is_pat(a):
                    raise Unsupported(f'{cn}.{f}: non-pattern argument {a!r}')
                if a.kind != kind:
                    raise Unsupported('mixed pattern sorts')
                zs.append(a.t)
            elif k == 'int':
                if cn in ('ESubst', 'SSubst') and f == 'var':
                    # EVar/SVar object -> its name
                    if self.is_pat(a):
                        vc = 'EVar' if cn == 'ESubst' else 'SVar'
                        c = self.ctor(a, [vc])
                        if c != vc:
                            raise Unsupported(f'{cn}.var is not an {vc}')
                        zs.append(z3.simplify(self.A(a).get(vc, 'name', a.t)))
                    else:
                        zs.append(self.as_int(a))
                else:
                    zs.append(self.as_int(a))
            elif k == 'idl':
                zs.append(self.as_idl(a, 'EVar' if f in ('e_fresh', 'app_ctx_holes') else 'SVar'))
            elif k == 'map':
                zs.append(self.as_pmap(a))
        return SV(A.mk(cn, *zs), kind)

    def as_int(self, a):
        if isinstance(a, bool):
            return z3.IntVal(int(a))
        if isinstance(a, int):
            return z3.IntVal(a)
        if isinstance(a, SV) and a.kind in ('int', 'name'):
            return a.t
        if isinstance(a, str):
            return z3.IntVal(self.name_id(a))
        if isinstance(a, SStr) and len(a.parts) == 1 and isinstance(a.parts[0], tuple) and a.parts[0][0] == 'int':
            return STR_OF_INT(a.parts[0][1])        # str(<int>) used as a name: an uninterpreted name per integer
        raise Unsupported(f'expected int, got {a!r}')

    _names = {}

    def name_id(self, s):
        # symbol names are uninterpreted: distinct strings <-> distinct ids (offset keeps them apart from small ints)
        d = Interp._names
        if s not in d:
            d[s] = 1000 + len(d)
        return d[s]

    def as_idl(self, a, elem):
        if isinstance(a, SV) and a.kind == 'idl':
            if a.meta == 'int' and elem in ('EVar', 'SVar'):
                raise Unsupported('a tuple of raw ints where a tuple of EVar/SVar is expected (not representable as a pattern)')
            return a.t
        if isinstance(a, SV) and a.kind == 'intlist':
            return a.t
        if isinstance(a, (tuple, list)):
            xs = []
            for e in a:
                if self.is_pat(e):
                    c = self.ctor(e, [elem])
                    if c != elem:
                        raise Unsupported(f'id list element is not an {elem}')
                    xs.append(z3.simplify(self.A(e).get(elem, 'name', e.t)))
                else:
                    xs.append(self.as_int(e))
            return idl(*xs)
        raise Unsupported(f'expected tuple of {elem}, got {a!r}')

    def as_pmap(self, a):
        if isinstance(a, SV) and a.kind == 'pmap':
            return a.t
        if isinstance(a, dict):
            r = PMp.mk('pnil')
            for k, v in reversed(list(a.items())):
                if not (isinstance(v, SV) and v.kind == 'ppat'):
                    raise Unsupported(f'map value {v!r}')
                r = PMp.mk('pcons', self.as_int(k), v.t, r)
            return r
        raise Unsupported(f'expected mapping, got {a!r}')

    # ---- truthiness / equality --------------------------------------------------------------------------------
    def truth(self, v):
        if isinstance(v, bool):
            return v
        if v is None:
            return False
        if isinstance(v, (int, str, tuple, list, dict, set, frozenset)):
            return bool(v)
        if isinstance(v, SV):
            if v.kind == 'bool':
                return self.ctx.branch(v.t)
            if v.kind in ('int',):
                return self.ctx.branch(v.t != 0)
            if v.kind in ('ppat', 'mpat'):
                return True
            if v.kind == 'pmap':
                return self.ctx.branch(z3.Not(PMp.is_('pnil', v.t)))
            if v.kind in ('idl', 'str', 'intlist', 'bytes'):
                return self.ctx.branch(z3.Not(IDL.is_('inil', v.t)))
            if v.kind == 'plist':
                return self.ctx.branch(z3.Not(PTLs.is_('ptnil', v.t)))
            if v.kind == 'pclaims':
                return self.ctx.branch(z3.Not(PCLs.is_('pcnil', v.t)))
            if v.kind == 'intset':
                try:
                    return bool(concrete_intset(v.t))
                except Unsupported:
                    return self.ctx.branch(v.t != z3.EmptySet(Int))
            raise Unsupported(f'truth of {v.kind}')
        if isinstance(v, SStr):
            return bool(v.parts)
        if isinstance(v, OutLog):
            return True
        if isinstance(v, SymDict):
            return self.ctx.branch(v.n != 0)
        if isinstance(v, (Obj, PyClass, PyFunc, Closure, Bound, Builtin)):
            return True
        if isinstance(v, NotImpl):
            return True
        raise Unsupported(f'truth of {v!r}')

    def eq(self, a, b):
        """Python `a == b` -> python bool or SV bool."""
        if isinstance(a, SV) and isinstance(b, SV):
            if self.is_pat(a) and self.is_pat(b):
                return self.pat_eq(a, b)
            if a.kind in ('int', 'name') and b.kind in ('int', 'name'):
                return SV(a.t == b.t, 'bool')
            if a.kind == 'plist' and b.kind == 'plist':
                return SV(spec.ex_stack(a.t) == spec.ex_stack(b.t), 'bool')
            if a.kind == b.kind and a.kind in ('bool', 'idl', 'pmap', 'intset', 'char', 'str', 'intlist', 'bytes'):
                if a.kind == 'pmap':
                    return SV(spec.expandmap(a.t) == spec.expandmap(b.t), 'bool')
                return SV(a.t == b.t, 'bool')
            return False
        if isinstance(a, SV) or isinstance(b, SV):
            s, c = (a, b) if isinstance(a, SV) else (b, a)
            if s.kind == 'char' and isinstance(c, str):
                return SV(s.t == ord(c), 'bool') if len(c) == 1 else False
            if s.kind == 'str' and isinstance(c, str):
                return SV(s.t == idl(*[ord(x) for x in c]), 'bool')
            if s.kind in ('char', 'str') and isinstance(c, SV) and c.kind == s.kind:
                return SV(s.t == c.t, 'bool')
            if s.kind in ('int', 'name') and isinstance(c, (int, str)) and not isinstance(c, bool):
                return SV(s.t == self.as_int(c), 'bool')
            if s.kind == 'int' and isinstance(c, bool):
                return SV(s.t == int(c), 'bool')
            if s.kind == 'bool' and isinstance(c, bool):
                return SV(s.t == c, 'bool')
            if s.kind == 'plist' and isinstance(c, (tuple, list)):
                return SV(spec.ex_stack(s.t) == spec.ex_stack(self.plist_of(c)), 'bool')
            if s.kind == 'idl' and isinstance(c, (tuple, list)):
                return SV(s.t == self.as_idl(c, s.meta or 'EVar'), 'bool')
            if s.kind == 'pmap' and isinstance(c, dict):
                return SV(spec.expandmap(s.t) == spec.expandmap(self.as_pmap(c)), 'bool')
            return False
        if isinstance(a, SStr) or isinstance(b, SStr):
            if isinstance(a, str):
                a = SStr([a])
            if isinstance(b, str):
                b = SStr([b])
            if isinstance(a, SStr) and isinstance(b, SStr):
                return a.key() == b.key()
            return False
        if isinstance(a, Obj) and isinstance(b, Obj):
            return self.obj_eq(a, b)
        if isinstance(a, Obj) or isinstance(b, Obj):
            return False
        if isinstance(a, (tuple, list)) and isinstance(b, (tuple, list)):
            if type(a) != type(b) or len(a) != len(b):
                return False
            acc = True
            for x, y in zip(a, b):
                acc = self.and_(acc, self.eq(x, y))
            return acc
        if isinstance(a, dict) and isinstance(b, dict):
            if set(a.keys()) != set(b.keys()):
                return False
            acc = True
            for k in a:
                acc = self.and_(acc, self.eq(a[k], b[k]))
            return acc
        if isinstance(a, (PyClass, PyFunc, Closure)) or isinstance(b, (PyClass, PyFunc, Closure)):
            return a is b
        return a == b

    def and_(self, a, b):
        if a is True:
            return b
        if b is True:
            return a
        if a is False or b is False:
            return False
        return SV(z3.And(a.t, b.t), 'bool')

    def or_(self, a, b):
        if a is False:
            return b
        if b is False:
            return a
        if a is True or b is True:
            return True
        return SV(z3.Or(a.t, b.t), 'bool')

    def not_(self, a):
        if isinstance(a, bool):
            return not a
        return SV(z3.Not(a.t), 'bool')

    def pat_eq(self, a, b):
        if a.kind == 'mpat' and b.kind == 'mpat':
            return SV(a.t == b.t, 'bool')
        c = self.contracts.get('Pattern.__eq__')
        if c is not None and 'Pattern.__eq__' not in self.inline:
            return c.apply(self, self.ctx, [a, b])
        return self.pat_eq_real(a, b)

    def pat_eq_real(self, a, b):
        """The Python == protocol on pattern objects: dataclass-generated __eq__ + Instantiate.__eq__ + reflection."""
        ca = self.ctor(a)
        r = self.pat_eq_method(a, ca, b)
        if isinstance(r, NotImpl):
            cb = self.ctor(b)
            r = self.pat_eq_method(b, cb, a)
            if isinstance(r, NotImpl):
                return False   # both sides NotImplemented: `a is b`, and objects of different classes are distinct
        return r

    def pat_eq_method(self, a, ca, b):
        cls = self.repo.cls(PATTERN_MODULE, ca)
        m = cls.methods.get('__eq__')
        if m is not None:
            return self.call_function(m, [a, b], {})
        # dataclass generated: NotImplemented unless same class, else field tuples compared
        cb = self.ctor(b)
        if cb != ca:
            return NOTIMPL
        acc = True
        for f in FIELDS[ca]:
            acc = self.and_(acc, self.eq(self.field(a, ca, f), self.field(b, cb, f)))
        return acc

    def obj_eq(self, a, b):
        m = a.cls.find_method('__eq__')
        if m is not None:
            return self.call_function(m, [a, b], {})
        if a.cls.is_dataclass:
            if a.cls is not b.cls:
                return False
            acc = True
            for f, _ in a.cls.all_fields():
                acc = self.and_(acc, self.eq(a.attrs.get(f), b.attrs.get(f)))
            return acc
        return a is b

    # ---- module level names -----------------------------------------------------------------------------------
    def global_lookup(self, module, name):
        key = (module.name, name)
        if key in self.modcache:
            return self.modcache[key]
        if name in module.static:
            return module.static[name]
        if name in module.assigns:
            v = self.eval(module.assigns[name], Env(), module)
            self.modcache[key] = v
            self.note_shared(v, f'{module.name}.{name}')
            return v
        if name in module.imports:
            mod, n = module.imports[name]
            m = self.repo.module(mod)
            if m is None:
                return self.external(mod, n)
            if n is None:
                return m
            return self.global_lookup(m, n)
        if name in BUILTINS:
            return BUILTINS[name]
        raise Unsupported(f'unknown name {name} in {module.name}')

    def note_shared(self, v, where):
        if isinstance(v, (dict, list, set)):
            self.shared_ids[id(v)] = where

    def frame_write(self, o):
        """a write to a container that is bound at module or class level: such state outlives the call (frame condition of every function under contract)"""
        w = self.shared_ids.get(id(o))
        if w is not None:
            self.ctx.oblige(f'frame:no module- or class-level state is written ({w})', z3.BoolVal(False), kind='frame')

    def class_attr(self, c, name):
        key = ('class', c.module.name, c.name, name)
        if key not in self.modcache:
            self.modcache[key] = self.eval(c.class_attrs[name], Env(), c.module)
            self.note_shared(self.modcache[key], f'{c.module.name}.{c.name}.{name}')
        return self.modcache[key]

    def external(self, mod, n):
        key = f'{mod}.{n}' if n else mod
        if key in EXTERNALS:
            return EXTERNALS[key]
        raise Unsupported(f'external {key}')

    # ---- statements -------------------------------------------------------------------------------------------
    def run_function(self, func, args, kwargs=None, start_env=None):
        """Execute the body of a PyFunc/Closure on already evaluated arguments."""
        kwargs = kwargs or {}
        node = func.node
        self.cached_mutable(func)
        module = func.module
        env = Env(func.env if isinstance(func, Closure) else None)
        self.bind_params(node.args, args, kwargs, env, module)
        if isinstance(node, ast.Lambda):
            return self.eval(node.body, env, module, func)
        self.depth += 1
        if self.depth > 60:
            raise Unsupported('call depth')
        self.fn_stack.append(func)
        try:
            self.exec_block(node.body, env, module, func)
            return None
        except _Return as r:
            return r.v
        finally:
            self.depth -= 1
            self.fn_stack.pop()

    def bind_params(self, a, args, kwargs, env, module):
        params = [p.arg for p in a.posonlyargs + a.args]
        defaults = a.defaults
        nd = len(defaults)
        args = list(args)
        kwargs = dict(kwargs)
        for i, pn in enumerate(params):
            if i < len(args):
                env.vars[pn] = args[i]
            elif pn in kwargs:
                env.vars[pn] = kwargs.pop(pn)
            else:
                di = i - (len(params) - nd)
                if di < 0:
                    raise SymRaise('TypeError', f'missing argument {pn}')
                env.vars[pn] = self.eval(defaults[di], Env(), module)
        if a.vararg:
            env.vars[a.vararg.arg] = tuple(args[len(params):])
        elif len(args) > len(params):
            raise SymRaise('TypeError', 'too many positional arguments')
        for i, p in enumerate(a.kwonlyargs):
            if p.arg in kwargs:
                env.vars[p.arg] = kwargs.pop(p.arg)
            else:
                env.vars[p.arg] = self.eval(a.kw_defaults[i], Env(), module)
        if a.kwarg:
            env.vars[a.kwarg.arg] = kwargs
        elif kwargs:
            raise SymRaise('TypeError', f'unexpected keyword {list(kwargs)}')

    def exec_block(self, body, env, module, fn):
        for st in body:
            self.exec(st, env, module, fn)

    def exec(self, st, env, module, fn):
        m = getattr(self, 'x_' + type(st).__name__, None)
        if m is None:
            raise Unsupported(f'statement {type(st).__name__}')
        return m(st, env, module, fn)

    def x_Expr(self, st, env, module, fn):
        if isinstance(st.value, ast.Constant):
            return  # docstring / `...`
        self.eval(st.value, env, module, fn)

    def x_Pass(self, st, env, module, fn):
        pass

    def x_Return(self, st, env, module, fn):
        raise _Return(self.eval(st.value, env, module, fn) if st.value is not None else None)

    def x_Break(self, st, env, module, fn):
        raise _Break()

    def x_Continue(self, st, env, module, fn):
        raise _Continue()

    def x_Nonlocal(self, st, env, module, fn):
        env.nonlocals.update(st.names)

    def x_Assert(self, st, env, module, fn):
        v = self.eval(st.test, env, module, fn)
        if not self.truth(v):
            raise SymRaise('AssertionError', '', f'{getattr(fn, "qualname", "?")}:assert#{self.assert_ordinal(fn, st)}')

    def assert_ordinal(self, fn, st):
        if fn is None:
            return 0
        n = 0
        for node in ast.walk(fn.node):
            if isinstance(node, ast.Assert):
                if node is st:
                    return n
                n += 1
        return n

    def x_Raise(self, st, env, module, fn):
        e = st.exc
        name = 'Exception'
        if isinstance(e, ast.Call):
            e = e.func
        if isinstance(e, ast.Name):
            name = e.id
        elif isinstance(e, ast.Attribute):
            name = e.attr
        raise SymRaise(name, '', f'{getattr(fn, "qualname", "?")}:raise')

    def x_If(self, st, env, module, fn):
        if self.truth(self.eval(st.test, env, module, fn)):
            self.exec_block(st.body, env, module, fn)
        else:
            self.exec_block(st.orelse, env, module, fn)

    def x_Assign(self, st, env, module, fn):
        v = self.eval(st.value, env, module, fn)
        for t in st.targets:
            self.assign(t, v, env, module, fn)

    def x_AnnAssign(self, st, env, module, fn):
        if st.value is not None:
            self.assign(st.target, self.eval(st.value, env, module, fn), env, module, fn)

    def x_AugAssign(self, st, env, module, fn):
        cur = self.eval(ast.copy_location(_load(st.target), st), env, module, fn)
        v = self.binop(st.op, cur, self.eval(st.value, env, module, fn))
        self.assign(st.target, v, env, module, fn)

    def x_FunctionDef(self, st, env, module, fn):
        q = (getattr(fn, 'qualname', '') + '.<locals>.' + st.name)
        env.set(st.name, Closure(st, env, module, getattr(fn, 'cls', None), q))

    def x_Import(self, st, env, module, fn):
        raise Unsupported('local import')

    def x_ImportFrom(self, st, env, module, fn):
        for a in st.names:
            m = self.repo.module(st.module)
            env.set(a.asname or a.name, self.global_lookup(m, a.name) if m else self.external(st.module, a.name))

    def x_Try(self, st, env, module, fn):
        try:
            try:
                self.exec_block(st.body, env, module, fn)
            except SymRaise as e:
                for h in st.handlers:
                    names = []
                    if h.type is None:
                        names = None
                    elif isinstance(h.type, ast.Tuple):
                        names = [getattr(x, 'id', getattr(x, 'attr', '?')) for x in h.type.elts]
                    else:
                        names = [getattr(h.type, 'id', getattr(h.type, 'attr', '?'))]
                    if names is None or e.cls in names or 'Exception' in names or 'BaseException' in names:
                        if h.name:
                            env.set(h.name, Obj(PyClass.__new__(PyClass), {}))
                        self.exec_block(h.body, env, module, fn)
                        break
                else:
                    raise
            else:
                self.exec_block(st.orelse, env, module, fn)
        finally:
            if st.finalbody:
                self.exec_block(st.finalbody, env, module, fn)

    def loop_ordinal(self, fn, st):
        n = 0
        if fn is None:
            return 0
        for node in ast.walk(fn.node):
            if isinstance(node, (ast.For, ast.While)):
                if node is st:
                    return n
                n += 1
        return n

    def x_For(self, st, env, module, fn):
        it = self.eval(st.iter, env, module, fn)
        lc = self.loop_contracts.get((getattr(fn, 'qualname', '?'), self.loop_ordinal(fn, st)))
        if lc is not None:
            return self.contracted_loop(lc, st, it, env, module, fn)
        seq = self.iterate(it, st, fn)
        broke = False
        for item in seq:
            self.assign(st.target, item, env, module, fn)
            try:
                self.exec_block(st.body, env, module, fn)
            except _Break:
                broke = True
                break
            except _Continue:
                continue
        if not broke:
            self.exec_block(st.orelse, env, module, fn)

    def contracted_loop(self, lc, st, it, env, module, fn):
        """Loop under contract: (entry) invariant holds; (step) from an arbitrary state satisfying the invariant one
        execution of the REAL body re-establishes it; (exit) code after the loop only knows the invariant."""
        ctx = self.ctx
        lc.entry(self, ctx, env, it)
        which = ctx.choose(2, 'loop: arbitrary iteration / exit')
        if which == 0:
            elem = lc.arbitrary_iteration(self, ctx, env, it)
            ctx.check_feasible()
            if st is not None and isinstance(st, ast.For):
                self.assign(st.target, elem, env, module, fn)
            try:
                self.exec_block(st.body, env, module, fn)
            except _Break:
                lc.on_break(self, ctx, env, it, elem)
                raise _LoopDone()
            except _Continue:
                pass
            lc.after_iteration(self, ctx, env, it, elem)
            raise _LoopDone()
        lc.exit(self, ctx, env, it)
        ctx.check_feasible()
        self.exec_block(st.orelse, env, module, fn)

    def x_While(self, st, env, module, fn):
        lc = self.loop_contracts.get((getattr(fn, 'qualname', '?'), self.loop_ordinal(fn, st)))
        if lc is not None:
            ctx = self.ctx
            lc.entry(self, ctx, env, None)
            which = ctx.choose(2, 'loop: arbitrary iteration / exit')
            if which == 0:
                lc.arbitrary_iteration(self, ctx, env, None)
                ctx.check_feasible()
                if not self.truth(self.eval(st.test, env, module, fn)):
                    raise Infeasible()
                try:
                    self.exec_block(st.body, env, module, fn)
                except _Break:
                    lc.on_break(self, ctx, env, None, None)
                    raise _LoopDone()
                except _Continue:
                    pass
                lc.after_iteration(self, ctx, env, None, None)
                raise _LoopDone()
            lc.exit(self, ctx, env, None)
            ctx.check_feasible()
            if self.truth(self.eval(st.test, env, module, fn)):
                raise Infeasible()
            self.exec_block(st.orelse, env, module, fn)
            return
        n = 0
        while self.truth(self.eval(st.test, env, module, fn)):
            n += 1
            if n > self.opts.get('max_unroll', 64):
                raise Unsupported('while loop without contract exceeds unrolling bound')
            try:
                self.exec_block(st.body, env, module, fn)
            except _Break:
                return
            except _Continue:
                continue
        self.exec_block(st.orelse, env, module, fn)

    def x_Match(self, st, env, module, fn):
        subj = self.eval(st.subject, env, module, fn)
        for case in st.cases:
            binds = {}
            if self.match_pattern(case.pattern, subj, binds, env, module, fn):
                for k, v in binds.items():
                    env.set(k, v)
                if case.guard is not None and not self.truth(self.eval(case.guard, env, module, fn)):
                    continue
                self.exec_block(case.body, env, module, fn)
                return

    def match_pattern(self, pat, subj, binds, env, module, fn):
        if isinstance(pat, ast.MatchAs):
            if pat.pattern is not None and not self.match_pattern(pat.pattern, subj, binds, env, module, fn):
                return False
            if pat.name:
                binds[pat.name] = subj
            return True
        if isinstance(pat, ast.MatchValue):
            return self.truth(self.eq(subj, self.eval(pat.value, env, module, fn)))
        if isinstance(pat, ast.MatchSingleton):
            return subj is pat.value
        if isinstance(pat, ast.MatchClass):
            cls = self.eval(pat.cls, env, module, fn)
            if not self.truth(self.isinstance_(subj, cls)):
                return False
            if self.is_pat(subj):
                cn = self.ctor(subj)
                fields = FIELDS[cn]
                for i, sp in enumerate(pat.patterns):
                    if not self.match_pattern(sp, self.field(subj, cn, fields[i]), binds, env, module, fn):
                        return False
                for kn, sp in zip(pat.kwd_attrs, pat.kwd_patterns):
                    if not self.match_pattern(sp, self.field(subj, cn, kn), binds, env, module, fn):
                        return False
                return True
            if isinstance(subj, Obj):
                fields = [f for f, _ in subj.cls.all_fields()]
                for i, sp in enumerate(pat.patterns):
                    if not self.match_pattern(sp, subj.attrs[fields[i]], binds, env, module, fn):
                        return False
                for kn, sp in zip(pat.kwd_attrs, pat.kwd_patterns):
                    if not self.match_pattern(sp, subj.attrs[kn], binds, env, module, fn):
                        return False
                return True
            if not pat.patterns and not pat.kwd_patterns:
                return True
            raise Unsupported('class pattern on non-object')
        if isinstance(pat, ast.MatchSequence):
            if not isinstance(subj, (tuple, list)):
                return False
            if len(pat.patterns) != len(subj):
                return False
            return all(self.match_pattern(sp, s, binds, env, module, fn) for sp, s in zip(pat.patterns, subj))
        if isinstance(pat, ast.MatchOr):
            return any(self.match_pattern(sp, subj, binds, env, module, fn) for sp in pat.patterns)
        raise Unsupported(f'match pattern {type(pat).__name__}')

    def iterate(self, it, st=None, fn=None):
        if isinstance(it, (tuple, list)):
            return list(it)
        if isinstance(it, dict):
            return list(it.keys())
        if isinstance(it, (set, frozenset)):
            return sorted(it, key=repr)
        if isinstance(it, range):
            return list(it)
        if isinstance(it, _Iter):
            return it.items
        if isinstance(it, _MapView):
            # a map whose spine is known (pcons ... pnil) can be enumerated; a symbolic spine needs a loop contract
            t = self.ctx.nz(it.m.t)
            out = []
            while ctor_of(t) == 'pcons':
                k, v, t = t.arg(0), t.arg(1), t.arg(2)
                kk = k.as_long() if z3.is_int_value(k) else SV(k, 'int')
                vv = SV(v, 'ppat')
                out.append({'items': (kk, vv), 'values': vv, 'keys': kk}[it.which])
            if ctor_of(t) == 'pnil':
                return out
            raise Unsupported('iteration over a symbolic map without loop contract')
        if isinstance(it, _SymRange):
            raise Unsupported('symbolic range')
        if isinstance(it, _LazyEnum):
            raise Unsupported('enumerate over a symbolic list without loop contract')
        if isinstance(it, SV) and it.kind in ('str', 'intlist'):
            raise Unsupported('iteration over a symbolic string/list without loop contract')
        if isinstance(it, SV) and it.kind == 'idl':
            # bounded unfolding is NOT used for proofs: symbolic-length iteration needs a loop contract
            raise Unsupported('iteration over symbolic id list without loop contract')
        raise Unsupported(f'iteration over {it!r}')

    def assign(self, t, v, env, module, fn):
        if isinstance(t, ast.Name):
            env.set(t.id, v)
        elif isinstance(t, (ast.Tuple, ast.List)):
            self.unpack(t.elts, v, env, module, fn)
        elif isinstance(t, ast.Attribute):
            o = self.eval(t.value, env, module, fn)
            if isinstance(o, Obj):
                o.attrs[t.attr] = v
            else:
                raise Unsupported(f'attribute store on {o!r}')
        elif isinstance(t, ast.Subscript):
            o = self.eval(t.value, env, module, fn)
            k = self.eval(t.slice, env, module, fn)
            sym_map = isinstance(o, SV) and o.kind == 'pmap'
            if isinstance(o, dict) and isinstance(k, SV) and self.is_pat(v) and all(self.is_pat(x) for x in o.values()):
                o = SV(self.as_pmap(o), 'pmap')
                sym_map = True
            if sym_map:
                # python dict update modelled functionally; only sound without aliasing, so the map must be held in a
                # plain local variable (assumption 2.3.5: the caller-visible mutation of the argument is not modelled)
                if not isinstance(t.value, ast.Name):
                    raise Unsupported('update of a symbolic map that is not a local variable')
                env.set(t.value.id, SV(spec.pset(o.t, self.as_int(k), v.t), 'pmap'))
                return
            if isinstance(o, SymDict):
                o.store(self, k, v)
            elif isinstance(o, dict):
                self.frame_write(o)
                kk = self.dict_key(o, k)
                o[kk] = v
            elif isinstance(o, list) and isinstance(k, int):
                self.frame_write(o)
                o[k] = v
            else:
                raise Unsupported(f'subscript store on {o!r}')
        elif isinstance(t, ast.Starred):
            self.assign(t.value, v, env, module, fn)
        else:
            raise Unsupported(f'assign target {type(t).__name__}')

    def dict_key(self, d, k):
        """Concrete dicts with possibly symbolic int keys: resolve k to an existing key object (forking) or itself."""
        if not isinstance(k, SV):
            return k
        for ek in d:
            e = self.eq(ek, k)
            if self.truth(e):
                return ek
        return k

    def unpack(self, elts, v, env, module, fn):
        if isinstance(v, SV):
            if self.unpack_sv(elts, v, env, module, fn):
                return
            v = self.sv_to_seq(v, elts)
        seq = self.iterate(v)
        star = [i for i, e in enumerate(elts) if isinstance(e, ast.Starred)]
        if star:
            i = star[0]
            n_after = len(elts) - i - 1
            if len(seq) < len(elts) - 1:
                raise SymRaise('ValueError', 'not enough values to unpack')
            for e, x in zip(elts[:i], seq[:i]):
                self.assign(e, x, env, module, fn)
            self.assign(elts[i], list(seq[i:len(seq) - n_after]), env, module, fn)
            for e, x in zip(elts[i + 1:], seq[len(seq) - n_after:]):
                self.assign(e, x, env, module, fn)
        else:
            if len(seq) != len(elts):
                raise SymRaise('ValueError', 'unpack length mismatch')
            for e, x in zip(elts, seq):
                self.assign(e, x, env, module, fn)

    def sv_to_seq(self, v, elts):
        raise Unsupported(f'unpacking symbolic {v.kind}')

    def unpack_sv(self, elts, v, env, module, fn):
        """`first, *rest = s` for a symbolic string / list"""
        if v.kind == 'plist' and elts and isinstance(elts[0], ast.Starred) and not any(isinstance(e, ast.Starred) for e in elts[1:]):
            # *rest, a, b = stack : the trailing names take the LAST elements
            cur = v.t
            vals = []
            for _ in elts[1:]:
                if not self.ctx.branch(PTLs.is_('ptcons', cur), 'enough elements'):
                    raise SymRaise('ValueError', 'not enough values to unpack')
                vals.append(PTLs.get('ptcons', 'pthd', cur))
                cur = PTLs.get('ptcons', 'pttl', cur)
            for e, t in zip(reversed(elts[1:]), vals):
                self.assign(e, self.from_pterm(t), env, module, fn)
            self.assign(elts[0].value, SV(cur, 'plist'), env, module, fn)
            return True
        if v.kind == 'pclaims' and len(elts) == 2 and isinstance(elts[1], ast.Starred):
            if not self.ctx.branch(PCLs.is_('pccons', v.t), 'a claim is left'):
                raise SymRaise('ValueError', 'not enough values to unpack')
            claim = Obj(self.repo.cls('proof_generation.claim', 'Claim'), {'pattern': SV(PCLs.get('pccons', 'pchd', v.t), 'ppat')})
            self.assign(elts[0], claim, env, module, fn)
            self.assign(elts[1].value, SV(PCLs.get('pccons', 'pctl', v.t), 'pclaims'), env, module, fn)
            return True
        if v.kind in ('str', 'intlist') and len(elts) == 2 and isinstance(elts[1], ast.Starred) and not isinstance(elts[0], ast.Starred):
            if not self.ctx.branch(z3.Not(IDL.is_('inil', v.t)), 'non-empty'):
                raise SymRaise('ValueError', 'not enough values to unpack')
            ek = 'char' if v.kind == 'str' else 'int'
            self.assign(elts[0], SV(IDL.get('icons', 'ihd', v.t), ek), env, module, fn)
            self.assign(elts[1], SV(IDL.get('icons', 'itl', v.t), v.kind), env, module, fn)
            return True
        return False

    # ---- expressions ------------------------------------------------------------------------------------------
    def eval(self, e, env, module, fn=None):
        m = getattr(self, 'e_' + type(e).__name__, None)
        if m is None:
            raise Unsupported(f'expression {type(e).__name__}')
        return m(e, env, module, fn)

    def e_Constant(self, e, env, module, fn):
        if e.value is Ellipsis:
            return None
        return e.value

    def e_Name(self, e, env, module, fn):
        try:
            return env.get(e.id)
        except KeyError:
            pass
        return self.global_lookup(module, e.id)

    def e_NamedExpr(self, e, env, module, fn):
        v = self.eval(e.value, env, module, fn)
        env.set(e.target.id, v)
        return v

    def e_Tuple(self, e, env, module, fn):
        return tuple(self.eval_elts(e.elts, env, module, fn))

    def e_List(self, e, env, module, fn):
        return list(self.eval_elts(e.elts, env, module, fn))

    def e_Set(self, e, env, module, fn):
        items = self.eval_elts(e.elts, env, module, fn)
        if all(isinstance(i, int) and not isinstance(i, bool) for i in items):
            return set(items)
        if all(isinstance(i, SV) and i.kind == 'int' or isinstance(i, int) for i in items):
            s = z3.EmptySet(Int)
            for i in items:
                s = z3.SetAdd(s, self.as_int(i))
            return SV(s, 'intset')
        raise Unsupported('set display')

    def eval_elts(self, elts, env, module, fn):
        out = []
        for x in elts:
            if isinstance(x, ast.Starred):
                sv = self.eval(x.value, env, module, fn)
                if isinstance(sv, SV) and sv.kind in ('idl', 'intlist'):
                    out.append(sv)        # a symbolic-length piece (only bytes([...]) consumes such displays)
                    continue
                out.extend(self.iterate(sv))
            else:
                out.append(self.eval(x, env, module, fn))
        return out

    def e_Dict(self, e, env, module, fn):
        d = {}
        for k, v in zip(e.keys, e.values):
            if k is None:
                d.update(self.eval(v, env, module, fn))
            else:
                d[self.eval(k, env, module, fn)] = self.eval(v, env, module, fn)
        return d

    def e_JoinedStr(self, e, env, module, fn):
        parts = []
        for v in e.values:
            if isinstance(v, ast.Constant):
                parts.append(str(v.value))
            else:
                x = self.eval(v.value, env, module, fn)
                if isinstance(x, (int, str)) and not isinstance(x, bool):
                    parts.append(format(x))
                elif isinstance(x, SV) and x.kind in ('int', 'name') and v.format_spec is None and v.conversion == -1:
                    parts.append((x.kind, x.t))
                elif isinstance(x, SStr):
                    parts.append(x)
                else:
                    return _OpaqueStr()
        if all(isinstance(p, str) for p in parts):
            return ''.join(parts)
        return SStr(parts)

    def e_Lambda(self, e, env, module, fn):
        return Closure(e, env, module, getattr(fn, 'cls', None))

    def e_IfExp(self, e, env, module, fn):
        if self.truth(self.eval(e.test, env, module, fn)):
            return self.eval(e.body, env, module, fn)
        return self.eval(e.orelse, env, module, fn)

    def e_BoolOp(self, e, env, module, fn):
        isand = isinstance(e.op, ast.And)
        v = None
        for i, x in enumerate(e.values):
            v = self.eval(x, env, module, fn)
            if i == len(e.values) - 1:
                return v
            t = self.truth(v)
            if isand and not t:
                return v
            if not isand and t:
                return v
        return v

    def e_UnaryOp(self, e, env, module, fn):
        v = self.eval(e.operand, env, module, fn)
        if isinstance(e.op, ast.Not):
            if isinstance(v, SV) and v.kind == 'bool':
                return SV(z3.Not(v.t), 'bool')
            return not self.truth(v)
        if isinstance(e.op, ast.USub):
            if isinstance(v, SV):
                return SV(-v.t, 'int')
            return -v
        raise Unsupported('unary op')

    def e_BinOp(self, e, env, module, fn):
        if isinstance(e.op, ast.BitOr):
            l = self.eval(e.left, env, module, fn)
            r = self.eval(e.right, env, module, fn)
            if isinstance(l, (PyClass, tuple)) or isinstance(r, (PyClass, tuple)) or l is None or r is None:
                # type union `A | B`
                def flat(x):
                    return list(x) if isinstance(x, tuple) else [x]
                return tuple(flat(l) + flat(r))
            return self.binop(e.op, l, r)
        return self.binop(e.op, self.eval(e.left, env, module, fn), self.eval(e.right, env, module, fn))

    def binop(self, op, l, r):
        if isinstance(op, ast.Add) and ((isinstance(l, SV) and l.kind in ('str', 'char')) or (isinstance(r, SV) and r.kind in ('str', 'char'))):
            return self.str_concat(l, r)
        if isinstance(l, SV) or isinstance(r, SV):
            ls = isinstance(l, SV) and l.kind == 'intset'
            if ls and isinstance(op, ast.BitOr):
                return SV(z3.SetUnion(l.t, r.t), 'intset')
            a, b = self.as_int(l), self.as_int(r)
            if isinstance(op, ast.Add):
                return SV(a + b, 'int')
            if isinstance(op, ast.Sub):
                return SV(a - b, 'int')
            if isinstance(op, ast.Mult):
                return SV(a * b, 'int')
            if isinstance(op, ast.FloorDiv):
                return SV(a / b, 'int')
            if isinstance(op, ast.Mod):
                return SV(a % b, 'int')
            if isinstance(op, ast.BitAnd):
                for x, m in ((a, r), (b, l)):
                    if isinstance(m, int) and not isinstance(m, bool) and m >= 0 and (m & (m + 1)) == 0:
                        return SV(x % (m + 1), 'int')       # x & (2^k - 1) == x mod 2^k for every python int x
            raise Unsupported(f'symbolic binop {type(op).__name__}')
        if isinstance(l, _OpaqueStr) or isinstance(r, _OpaqueStr):
            return _OpaqueStr()
        if (isinstance(l, SStr) or isinstance(r, SStr)) and isinstance(op, ast.Add) and isinstance(l, (str, SStr)) and isinstance(r, (str, SStr)):
            return SStr([l, r])
        import operator
        ops = {ast.Add: operator.add, ast.Sub: operator.sub, ast.Mult: operator.mul, ast.FloorDiv: operator.floordiv,
               ast.Mod: operator.mod, ast.Pow: operator.pow, ast.BitOr: operator.or_, ast.BitAnd: operator.and_,
               ast.LShift: operator.lshift, ast.RShift: operator.rshift, ast.Div: operator.truediv}
        try:
            return ops[type(op)](l, r)
        except TypeError as ex:
            raise Unsupported(f'binop {type(op).__name__} on {l!r}, {r!r}') from ex

    # ---- python list[Pattern | Proved] <-> PTL ----------------------------------------------------------------------------------
    def to_pterm(self, v):
        if isinstance(v, SV) and v.kind == 'ppat':
            return PTR.mk('PyPat', v.t)
        if isinstance(v, Obj) and v.cls is not None and v.cls.name == 'Proved' and isinstance(v.attrs.get('conclusion'), SV):
            return PTR.mk('PyPrf', v.attrs['conclusion'].t)
        if isinstance(v, SV) and v.kind == 'pterm':
            return v.t
        raise Unsupported(f'list element {v!r}')

    def from_pterm(self, t):
        t = self.ctx.nz(t)
        if self.ctx.branch(PTR.is_('PyPat', t), 'element is a Pattern'):
            return SV(z3.simplify(PTR.get('PyPat', 'pypat', t)) if ctor_of(t) else PTR.get('PyPat', 'pypat', t), 'ppat')
        c = PTR.get('PyPrf', 'pyprf', t)
        return Obj(self.repo.cls('proof_generation.proved', 'Proved'), {'conclusion': SV(z3.simplify(c) if ctor_of(t) else c, 'ppat')})

    def plist_of(self, v):
        """term of a python list value (symbolic list, or a concrete list of patterns / Proved objects)"""
        if isinstance(v, SV) and v.kind == 'plist':
            return v.t
        if isinstance(v, (list, tuple)):
            r = PTLs.mk('ptnil')
            for x in v:
                r = PTLs.mk('ptcons', self.to_pterm(x), r)
            return r
        raise Unsupported(f'expected list of terms, got {v!r}')

    def as_str_term(self, v):
        if isinstance(v, str):
            return idl(*[ord(c) for c in v])
        if isinstance(v, SV) and v.kind == 'str':
            return v.t
        if isinstance(v, SV) and v.kind == 'char':
            return idl(v.t)
        raise Unsupported(f'expected string, got {v!r}')

    def str_concat(self, l, r):
        if isinstance(r, SV) and r.kind == 'char':
            return SV(spec.il_snoc(self.as_str_term(l), r.t), 'str')
        if isinstance(r, str) and len(r) == 1:
            return SV(spec.il_snoc(self.as_str_term(l), z3.IntVal(ord(r))), 'str')
        if isinstance(r, str) and r == '':
            return l
        raise Unsupported('concatenation of symbolic strings')

    def e_Compare(self, e, env, module, fn):
        left = self.eval(e.left, env, module, fn)
        acc = True
        for op, rn in zip(e.ops, e.comparators):
            right = self.eval(rn, env, module, fn)
            r = self.compare(op, left, right)
            if len(e.ops) == 1:
                return r
            if not self.truth(r):
                return False
            left = right
        return acc

    def compare(self, op, a, b):
        if isinstance(op, ast.Eq):
            return self.eq(a, b)
        if isinstance(op, ast.NotEq):
            return self.not_(self.eq(a, b))
        if isinstance(op, ast.Is):
            return self.is_(a, b)
        if isinstance(op, ast.IsNot):
            return not self.is_(a, b)
        if isinstance(op, ast.In):
            return self.contains(b, a)
        if isinstance(op, ast.NotIn):
            return self.not_(self.contains(b, a))
        if isinstance(a, SV) or isinstance(b, SV):
            x, y = self.as_int(a), self.as_int(b)
            return SV({ast.Lt: x < y, ast.LtE: x <= y, ast.Gt: x > y, ast.GtE: x >= y}[type(op)], 'bool')
        import operator
        return {ast.Lt: operator.lt, ast.LtE: operator.le, ast.Gt: operator.gt, ast.GtE: operator.ge}[type(op)](a, b)

    def is_(self, a, b):
        if a is None or b is None:
            return a is b
        if isinstance(a, (bool,)) or isinstance(b, bool):
            return a is b
        if isinstance(a, SV) and isinstance(b, SV):
            if a.t.eq(b.t):
                return True
            raise Unsupported('identity of symbolic values')
        return a is b

    def contains(self, container, item):
        if isinstance(container, SymDict):
            return container.lookup(self, item) is not None
        if isinstance(container, SV) and container.kind == 'patset':
            return SV(self.ctx.fresh('bool', 'in_set').t, 'bool')       # an arbitrary set of patterns: membership is unconstrained
        if isinstance(container, SV):
            if container.kind == 'idl':
                if self.is_pat(item):
                    cn = self.ctor(item, [container.meta] if container.meta else None)
                    if container.meta and cn != container.meta:
                        return False
                    return SV(spec.mem(z3.simplify(self.A(item).get(cn, 'name', item.t)), container.t), 'bool')
                return SV(spec.mem(self.as_int(item), container.t), 'bool')
            if container.kind == 'pmap':
                return SV(spec.phas(container.t, self.as_int(item)), 'bool')
            if container.kind == 'plist':
                return SV(spec.tl_has(spec.ex_mem(container.t), spec.ex_term(self.to_pterm(item))), 'bool')
            if container.kind == 'intset':
                return SV(z3.IsMember(self.as_int(item), container.t), 'bool')
            raise Unsupported(f'`in` on {container.kind}')
        if isinstance(container, dict):
            acc = False
            for k in container:
                acc = self.or_(acc, self.eq(k, item))
            return acc
        if isinstance(container, (tuple, list, set, frozenset)):
            acc = False
            for x in container:
                acc = self.or_(acc, self.eq(x, item))
            return acc
        if isinstance(container, str):
            return item in container
        raise Unsupported(f'`in` on {container!r}')

    def e_Subscript(self, e, env, module, fn):
        o = self.eval(e.value, env, module, fn)
        if isinstance(e.slice, ast.Slice):
            lo = self.eval(e.slice.lower, env, module, fn) if e.slice.lower is not None else None
            hi = self.eval(e.slice.upper, env, module, fn) if e.slice.upper is not None else None
            if isinstance(o, SV) and o.kind == 'plist':
                # stack[-n:] / stack[:-n] with n = len(delta): CPython semantics incl. n == 0 ([-0:] is the whole list, [:-0] is empty)
                if hi is None and lo is not None:
                    n = z3.simplify(-self.as_int(lo))
                    if self.ctx.branch(n == 0, 'slice bound is -0'):
                        return o
                    return SV(spec.ptl_lastn(o.t, n), 'plist')
                if lo is None and hi is not None:
                    n = z3.simplify(-self.as_int(hi))
                    if self.ctx.branch(n == 0, 'slice bound is -0'):
                        return SV(PTLs.mk('ptnil'), 'plist')
                    return SV(spec.ptl_dropn(o.t, n), 'plist')
                if lo is not None and hi is not None and isinstance(hi, int) and hi == -1:
                    # s[-(n+1):-1]: the n elements below the last one (fewer when the list is shorter)
                    n1 = z3.simplify(-self.as_int(lo) - 1)
                    if self.ctx.branch(n1 < 0, 'negative slice length'):
                        raise Unsupported('slice of a symbolic list')
                    if self.ctx.branch(PTLs.is_('ptnil', o.t), 'empty list'):
                        return SV(PTLs.mk('ptnil'), 'plist')
                    return SV(spec.ptl_lastn(PTLs.get('ptcons', 'pttl', o.t), n1), 'plist')
                raise Unsupported('slice of a symbolic list')
            if isinstance(o, (list, tuple, str)) and not isinstance(lo, SV) and not isinstance(hi, SV):
                return o[lo:hi]
            if isinstance(o, SStr):
                return SStr([('op', 'slice', o, repr(lo), repr(hi))])
            raise Unsupported('symbolic slice')
        k = self.eval(e.slice, env, module, fn)
        return self.getitem(o, k)

    def getitem(self, o, k):
        if isinstance(o, SymDict):
            r = o.lookup(self, k)
            if r is None:
                raise SymRaise('KeyError')
            return SV(r, 'int')
        if isinstance(o, SV) and o.kind == 'plist':
            if isinstance(k, int) and k < 0:
                cur = o.t
                for _ in range(-k - 1):
                    if not self.ctx.branch(PTLs.is_('ptcons', cur), 'index in range'):
                        raise SymRaise('IndexError')
                    cur = PTLs.get('ptcons', 'pttl', cur)
                if not self.ctx.branch(PTLs.is_('ptcons', cur), 'index in range'):
                    raise SymRaise('IndexError')
                return self.from_pterm(PTLs.get('ptcons', 'pthd', cur))
            # index from the front: through the machine-side view of the memory
            i = self.as_int(k)
            if not self.ctx.branch(z3.And(i >= 0, i < spec.ptl_len(o.t)), 'index in range'):
                raise SymRaise('IndexError')
            return SV(PTR_NTH(o.t, i), 'pterm')
        if isinstance(o, SV) and o.kind in ('bytes', 'intlist', 'idl') and not isinstance(k, slice):
            i = self.as_int(k)
            if self.ctx.branch(i < 0, 'negative index'):
                raise Unsupported('negative index into a symbolic sequence')
            n = spec.il_len(o.t)
            self.ctx.lemma_fact('il_len_zero', z3.And(n >= 0, (n == 0) == IDL.is_('inil', o.t)))
            if not self.ctx.branch(i < n, 'index in range'):
                raise SymRaise('IndexError')
            return SV(spec.il_nth(o.t, i), 'int')
        if isinstance(o, SV) and o.kind == 'pclaims' and isinstance(k, int) and k == 0:
            if not self.ctx.branch(PCLs.is_('pccons', o.t), 'a claim is left'):
                raise SymRaise('IndexError')
            return Obj(self.repo.cls('proof_generation.claim', 'Claim'), {'pattern': SV(PCLs.get('pccons', 'pchd', o.t), 'ppat')})
        if isinstance(o, SV) and o.kind == 'pmap':
            ki = self.as_int(k)
            if not self.ctx.branch(spec.phas(o.t, ki), 'key present'):
                raise SymRaise('KeyError')
            return SV(self.ctx.nz(spec.pget(o.t, ki)), 'ppat')
        if isinstance(o, dict):
            if isinstance(k, SV):
                for ek in o:
                    if self.truth(self.eq(ek, k)):
                        return o[ek]
                raise SymRaise('KeyError')
            if k not in o:
                raise SymRaise('KeyError')
            return o[k]
        if isinstance(o, (list, tuple, str)):
            if isinstance(k, SV):
                raise Unsupported('symbolic index')
            try:
                return o[k]
            except IndexError:
                raise SymRaise('IndexError')
        if isinstance(o, (PyClass, Builtin)):
            return o  # generic alias e.g. frozendict[int, Pattern]
        if isinstance(o, SStr):
            return SStr([('op', 'index', o, repr(k))])
        raise Unsupported(f'subscript on {o!r}')

    def e_Attribute(self, e, env, module, fn):
        o = self.eval(e.value, env, module, fn)
        return self.getattr(o, e.attr)

    def getattr(self, o, name):
        if self.is_pat(o):
            fam_cls = self.repo.cls(PATTERN_MODULE, 'Pattern')
            # data field?
            cands = [c for c in (PCTORS if o.kind == 'ppat' else CTORS) if name in FIELDS[c]]
            if cands:
                cn = self.ctor(o, cands)
                if cn is None or name not in FIELDS[cn]:
                    raise SymRaise('AttributeError', name)
                return self.field(o, cn, name)
            if not any(self.repo.cls(PATTERN_MODULE, c).find_method(name) is not None for c in (['Pattern'] + list(PCTORS))):
                raise SymRaise('AttributeError', name)       # e.g. `.conclusion` of a Pattern where a Proved was expected
            return FamilyMethod(o, name)
        if isinstance(o, Obj):
            if name in o.attrs:
                return o.attrs[name]
            m = o.cls.find_method(name)
            if m is not None:
                if m.kind == 'property':
                    return self.call_function(m, [o], {})
                if m.kind == 'staticmethod':
                    return m
                if m.kind == 'classmethod':
                    return Bound(o.cls, m)
                w = self.decorated(m)            # a user-defined decorator replaces the method by what it returns
                if w is not None and w is not m and m.qualname not in self.contracts:
                    return Bound(o, w) if isinstance(w, (Closure, PyFunc)) else w
                return Bound(o, m)
            for c in o.cls.mro():
                if name in c.class_attrs:
                    return self.class_attr(c, name)
            for c in o.cls.mro():
                # an attribute the class's initialiser sets, but which the state this unit starts from does not have: the state model is
                # behind the code (e.g. a new table), nothing can be concluded -- not an AttributeError of the real object
                iv = _init_sets(c, name)
                if isinstance(iv, ast.Constant) and type(iv.value) in (int, bool):
                    # a counter / flag the initialiser starts at a constant: after an arbitrary history it holds an arbitrary value of that type
                    o.attrs[name] = self.ctx.fresh('int' if type(iv.value) is int else 'bool', f'attr_{name}')
                    return o.attrs[name]
                if any(f == name for f, _ in c.fields) or iv is not None:
                    raise Unsupported(f'attribute {name} is set by {c.name}.__init__ but is not part of the state this unit starts from')
            raise SymRaise('AttributeError', name)
        if isinstance(o, (PyFunc, Closure)) and name == '__name__':
            return o.node.name if hasattr(o.node, 'name') else '<lambda>'
        if isinstance(o, PyClass):
            m = o.find_method(name)
            if m is not None:
                if m.kind == 'classmethod':
                    return Bound(o, m)
                return m
            for c in o.mro():
                if name in c.class_attrs:
                    return self.class_attr(c, name)
            if name == '__name__':
                return o.name
            raise SymRaise('AttributeError', name)
        if isinstance(o, PyModule):
            return self.global_lookup(o, name)
        if isinstance(o, SuperProxy):
            m = o.cls.find_method(name, after=o.cls) if False else None
            raise Unsupported('super proxy attr')
        if isinstance(o, _Super):
            m = o.start.find_method(name, after=o.start)
            if m is None:
                if name == '__init__':
                    return Builtin('object.__init__', lambda interp, args, kwargs: None)
                raise SymRaise('AttributeError', name)
            return Bound(o.selfv, m)
        if isinstance(o, SV):
            return _SVMethod(o, name)
        if isinstance(o, (dict, list, tuple, str, set, frozenset, SStr, OutLog, SymDict)):
            return _SVMethod(o, name)
        if isinstance(o, _Enum):
            return o.member(name)
        if isinstance(o, _EnumVal):
            if name == 'name':
                return o.name
            if name == 'value':
                return o.value
        raise Unsupported(f'attribute {name} of {o!r}')

    def e_Call(self, e, env, module, fn):
        # super() needs the lexical class
        if isinstance(e.func, ast.Name) and e.func.id == 'super' and len(e.args) == 2:
            c0 = self.eval(e.args[0], env, module, fn)
            o0 = self.eval(e.args[1], env, module, fn)
            if isinstance(c0, PyClass) and isinstance(o0, Obj):
                return _Super(o0, c0)
            raise Unsupported('super(cls, obj) with these arguments')
        if isinstance(e.func, ast.Name) and e.func.id == 'super' and not e.args:
            cls = getattr(fn, 'cls', None) or getattr(fn, 'cls_ctx', None)
            selfv = env.get(self.first_param(fn, env))
            return _Super(selfv, cls)
        if isinstance(e.func, ast.Attribute) and e.func.attr == 'append' and len(e.args) == 1 and isinstance(e.func.value, (ast.Name, ast.Attribute)):
            cur = self.eval(e.func.value, env, module, fn)
            if isinstance(cur, SV) and cur.kind in ('intlist', 'plist'):
                x = self.eval(e.args[0], env, module, fn)
                if cur.kind == 'plist':
                    new = SV(PTLs.mk('ptcons', self.to_pterm(x), cur.t), 'plist')
                else:
                    new = SV(spec.il_snoc(cur.t, self.as_int(x)), 'intlist')
                import copy as _copy
                tgt = _copy.copy(e.func.value)
                tgt.ctx = ast.Store()
                self.assign(tgt, new, env, module, fn)
                return None
        if isinstance(e.func, ast.Attribute) and e.func.attr == 'pop' and not e.args and isinstance(e.func.value, (ast.Name, ast.Attribute)):
            cur = self.eval(e.func.value, env, module, fn)
            if isinstance(cur, SV) and cur.kind == 'plist':
                if not self.ctx.branch(PTLs.is_('ptcons', cur.t), 'pop from non-empty list'):
                    raise SymRaise('IndexError', 'pop from empty list')
                import copy as _copy
                tgt = _copy.copy(e.func.value)
                tgt.ctx = ast.Store()
                top = PTLs.get('ptcons', 'pthd', cur.t)
                self.assign(tgt, SV(PTLs.get('ptcons', 'pttl', cur.t), 'plist'), env, module, fn)
                return self.from_pterm(top)
        f = self.eval(e.func, env, module, fn)
        args = []
        for a in e.args:
            if isinstance(a, ast.Starred):
                args.extend(self.iterate(self.eval(a.value, env, module, fn)))
            else:
                args.append(self.eval(a, env, module, fn))
        kwargs = {}
        for kw in e.keywords:
            if kw.arg is None:
                kwargs.update(self.eval(kw.value, env, module, fn))
            else:
                kwargs[kw.arg] = self.eval(kw.value, env, module, fn)
        return self.call(f, args, kwargs, e)

    def first_param(self, fn, env):
        node = fn.node
        while True:
            a = node.args
            ps = a.posonlyargs + a.args
            if ps and ps[0].arg in ('self', 'cls'):
                return ps[0].arg
            # nested function: look outward
            if isinstance(fn, Closure) and 'self' in _env_names(fn.env):
                return 'self'
            raise Unsupported('super() outside method')

    def e_ListComp(self, e, env, module, fn):
        cc = self.comp_contracts.get((getattr(fn, 'qualname', '?'), self.comp_ordinal(fn, e)))
        if cc is not None and hasattr(cc, 'arbitrary_iteration') and len(e.generators) == 1 and not e.generators[0].ifs:
            # a comprehension under contract: [elt for x in it]  ==  acc = []; for x in it: acc.append(elt)
            g = e.generators[0]
            it = self.eval(g.iter, env, module, fn)
            cc.entry(self, self.ctx, env, it)
            which = self.ctx.choose(3, 'comprehension: arbitrary element / all elements produced / stops early')
            if which == 0:
                x = cc.arbitrary_iteration(self, self.ctx, env, it)
                self.ctx.check_feasible()
                en = Env(env)
                self.assign(g.target, x, en, module, fn)
                v = self.eval(e.elt, en, module, fn)
                cc.after_element(self, self.ctx, env, it, v)
                raise _LoopDone()
            if which == 1:
                r = cc.exit_value(self, self.ctx, env, it)
                self.ctx.check_feasible()
                return r
            cc.early_stop(self, self.ctx, env, it)       # raises (SymRaise) or declares the case infeasible
            raise Infeasible()
        if len(e.generators) == 1 and not e.generators[0].ifs and isinstance(e.generators[0].target, ast.Name):
            g = e.generators[0]
            it = self.eval(g.iter, env, module, fn)
            if isinstance(it, SV) and it.kind == 'idl':
                if isinstance(e.elt, ast.Attribute) and e.elt.attr == 'name' and isinstance(e.elt.value, ast.Name) and e.elt.value.id == g.target.id:
                    if it.meta == 'int':
                        raise SymRaise('AttributeError', "'int' object has no attribute 'name'")
                    return SV(it.t, 'idl', 'int')
                raise Unsupported('comprehension over a symbolic tuple')
        return list(self.comp(e, env, module, fn, lambda en: self.eval(e.elt, en, module, fn)))

    def e_GeneratorExp(self, e, env, module, fn):
        if len(e.generators) == 1 and not e.generators[0].ifs and isinstance(e.generators[0].target, ast.Name):
            g = e.generators[0]
            it = self.eval(g.iter, env, module, fn)
            if isinstance(it, SV) and it.kind == 'idl':
                el = e.elt
                if it.meta == 'int' and isinstance(el, ast.Call) and isinstance(el.func, ast.Name) and el.func.id in ('EVar', 'SVar') and len(el.args) == 1 \
                        and not el.keywords and isinstance(el.args[0], ast.Name) and el.args[0].id == g.target.id:
                    c = self.eval(el.func, env, module, fn)
                    if isinstance(c, PyClass) and c.is_pattern():
                        return SV(it.t, 'idl', el.func.id)       # (EVar(x) for x in ids): the same ids, now as variables
                raise Unsupported('generator over a symbolic tuple')
        return _Iter(list(self.comp(e, env, module, fn, lambda en: self.eval(e.elt, en, module, fn))))

    def e_SetComp(self, e, env, module, fn):
        items = list(self.comp(e, env, module, fn, lambda en: self.eval(e.elt, en, module, fn)))
        return BUILTINS['set'].fn(self, [items], {})

    def e_DictComp(self, e, env, module, fn):
        key = (getattr(fn, 'qualname', '?'), self.comp_ordinal(fn, e))
        if key in self.comp_contracts:
            return self.comp_contracts[key](self, e, env, module, fn)
        pairs = list(self.comp(e, env, module, fn, lambda en: (self.eval(e.key, en, module, fn), self.eval(e.value, en, module, fn))))
        d = {}
        for k, v in pairs:
            d[self.dict_key(d, k)] = v
        return d

    def comp_ordinal(self, fn, e):
        n = 0
        if fn is None:
            return 0
        for node in ast.walk(fn.node):
            if isinstance(node, (ast.DictComp, ast.ListComp, ast.SetComp, ast.GeneratorExp)):
                if node is e:
                    return n
                n += 1
        return n

    def comp(self, e, env, module, fn, produce):
        def rec(i, en):
            if i == len(e.generators):
                yield produce(en)
                return
            g = e.generators[i]
            it = self.eval(g.iter, en, module, fn)
            for item in self.iterate(it):
                en2 = Env(en)
                self.assign(g.target, item, en2, module, fn)
                if all(self.truth(self.eval(c, en2, module, fn)) for c in g.ifs):
                    yield from rec(i + 1, en2)
        yield from rec(0, Env(env))

    # ---- calls ------------------------------------------------------------------------------------------------
    def call(self, f, args, kwargs, node=None):
        if isinstance(f, Builtin):
            return f.fn(self, args, kwargs)
        if isinstance(f, PyClass):
            return self.construct(f, args, kwargs)
        if isinstance(f, Bound):
            if isinstance(f.func, Closure):
                return self.call_closure(f.func, [f.selfv] + list(args), kwargs)
            return self.call_function(f.func, [f.selfv] + list(args), kwargs)
        if isinstance(f, PyFunc):
            return self.call_function(f, args, kwargs)
        if isinstance(f, Closure):
            return self.call_closure(f, args, kwargs)
        if isinstance(f, FamilyMethod):
            return self.call_family(f.selfv, f.name, args, kwargs)
        if isinstance(f, _SVMethod):
            return f.call(self, args, kwargs)
        if isinstance(f, _Enum) and len(args) == 1:
            # Enum(value): the member with that value, ValueError otherwise
            v = args[0]
            if isinstance(v, _EnumVal):
                return v
            for n, mv in f.members.items():
                if isinstance(v, SV):
                    if self.ctx.branch(self.as_int(v) == mv, f'enum value is {n}'):
                        return f.member(n)
                elif v == mv:
                    return f.member(n)
            raise SymRaise('ValueError', f'not a valid {f.name}')
        if isinstance(f, Obj):
            m = f.cls.find_method('__call__')
            if m is not None:
                return self.call_function(m, [f] + list(args), kwargs)
        if isinstance(f, tuple) and all(isinstance(x, PyClass) for x in f):
            raise Unsupported('call of type union')
        raise Unsupported(f'call of {f!r}')

    def call_closure(self, f, args, kwargs):
        c = self.contracts.get(f.qualname)
        if c is not None and f.qualname not in self.inline:
            return c.apply(self, self.ctx, list(args), kwargs)
        return self.run_function(f, args, kwargs)

    def cached_mutable(self, func):
        """@cache / @lru_cache / @cached_property on a function that returns a set, list or dict: every caller receives the SAME object, so one
        caller's update changes what the next one gets (frame condition: a result is not shared state)"""
        node = func.node
        for d in getattr(node, 'decorator_list', []):
            dn = d.func if isinstance(d, ast.Call) else d
            nm = dn.id if isinstance(dn, ast.Name) else dn.attr if isinstance(dn, ast.Attribute) else ''
            if nm in ('cache', 'lru_cache', 'cached_property') and getattr(node, 'returns', None) is not None:
                r = ast.unparse(node.returns).strip('"\'')
                if r.split('[')[0] in ('set', 'list', 'dict', 'Set', 'List', 'Dict', 'MutableMapping', 'MutableSet', 'MutableSequence', 'defaultdict'):
                    self.ctx.oblige(f'frame:the result of {func.qualname} is not an object shared between calls (@{nm} on a function returning {r})',
                                    z3.BoolVal(False), kind='frame')

    def decorated(self, func):
        """the callable a user-defined decorator turns `func` into (None when the method has no such decorator)"""
        decs = [d for d in getattr(func.node, 'decorator_list', [])
                if not (isinstance(d, ast.Name) and d.id in ('staticmethod', 'classmethod', 'property', 'abstractmethod', 'override', 'cache', 'cached_property'))
                and not (isinstance(d, ast.Attribute) and d.attr in ('setter', 'getter'))]
        if not decs or func.cls is None:
            return None
        key = id(func)
        cache = self.__dict__.setdefault('_decorated', {})
        if key not in cache:
            w = func
            for d in reversed(decs):
                env = Env()
                for n, m in func.cls.methods.items():          # the class namespace at decoration time
                    env.vars[n] = m
                dv = self.eval(d, env, func.cls.module, None)
                w = self.call(dv, [w], {})
            cache[key] = (func, w)
        return cache[key][1]

    def call_function(self, func, args, kwargs):
        q = func.qualname
        self.call_log.append(q)
        c = self.contracts.get(q)
        if c is None and func.cls is not None and func.cls.is_pattern():
            c = self.contracts.get('Pattern.' + func.node.name)
        if c is not None and q not in self.inline:
            return c.apply(self, self.ctx, list(args), kwargs)
        return self.run_function(func, args, kwargs)

    def call_family(self, selfv, name, args, kwargs):
        c = self.contracts.get('Pattern.' + name)
        if c is not None and ('Pattern.' + name) not in self.inline:
            return c.apply(self, self.ctx, [selfv] + list(args), kwargs)
        cn = self.ctor(selfv)
        cls = self.repo.cls(PATTERN_MODULE, cn)
        m = cls.find_method(name)
        if m is None:
            raise SymRaise('AttributeError', name)
        if m.kind == 'staticmethod':
            return self.run_function(m, args, kwargs)
        if m.kind == 'classmethod':
            return self.call_function(m, [cls] + list(args), kwargs)
        return self.call_function(m, [selfv] + list(args), kwargs)

    def construct(self, cls, args, kwargs):
        if any(b in ('Enum', 'IntEnum') for b in cls.base_names) and len(args) == 1 and not kwargs:
            # Enum(value): members are modelled by their values; a value that is no member is a ValueError
            v = args[0]
            for n, node in cls.class_attrs.items():
                mv = self.eval(node, Env(), cls.module)
                if not isinstance(mv, int):
                    continue
                if isinstance(v, SV):
                    if self.ctx.branch(self.as_int(v) == mv, f'enum value is {n}'):
                        return mv
                elif v == mv:
                    return mv
            raise SymRaise('ValueError', f'not a valid {cls.name}')
        if cls.is_pattern() and cls.name in PCTORS:
            fs = FIELDS[cls.name]
            vals = list(args)
            allf = cls.all_fields()
            for i in range(len(vals), len(fs)):
                fname = fs[i]
                if fname in kwargs:
                    vals.append(kwargs[fname])
                else:
                    d = dict(allf).get(fname)
                    if d is None:
                        raise SymRaise('TypeError', f'missing field {fname}')
                    vals.append(self.eval(d, Env(), cls.module))
            # keyword-only construction e.g. ESubst(pattern=..., var=..., plug=...)
            return self.mk_pat(cls.name, vals)
        o = Obj(cls, {})
        if cls.is_dataclass:
            allf = cls.all_fields()
            names = [f for f, _ in allf]
            vals = dict(zip(names, args))
            if len(args) > len(names):
                raise SymRaise('TypeError', 'too many arguments')
            for k, v in kwargs.items():
                if k not in names:
                    raise SymRaise('TypeError', f'unexpected {k}')
                vals[k] = v
            for f, d in allf:
                if f not in vals:
                    if d is None:
                        raise SymRaise('TypeError', f'missing {f}')
                    vals[f] = self.eval(d, Env(), cls.module)
            o.attrs.update(vals)
            pi = cls.find_method('__post_init__')
            if pi is not None and cls.name not in self.opts.get('skip_post_init', ()):
                self.call_function(pi, [o], {})
            return o
        init = cls.find_method('__init__')
        if init is not None:
            self.call_function(init, [o] + list(args), kwargs)
        return o

    def isinstance_(self, v, cls):
        if isinstance(cls, tuple):
            acc = False
            for c in cls:
                r = self.isinstance_(v, c)
                if r is True:
                    return True
                acc = self.or_(acc, r)
            return acc
        if self.is_pat(v):
            if not isinstance(cls, PyClass) or not cls.is_pattern():
                return False
            if cls.name == 'Pattern':
                return True
            c = ctor_of(v.t)
            if c:
                return c == cls.name
            key = v.t.get_id()
            if key in self.ctx.known_ctor:
                return self.ctx.known_ctor[key][1] == cls.name
            if cls.name not in self.A(v).ctor:
                return False
            r = self.ctx.branch(self.A(v).is_(cls.name, v.t), f'isinstance {cls.name}')
            if r:
                self.ctx.known_ctor[key] = (v.t, cls.name)
            return r
        if isinstance(v, Obj):
            return isinstance(cls, PyClass) and v.cls.is_subclass(cls)
        if isinstance(cls, Builtin):
            pytypes = {'int': int, 'str': str, 'tuple': tuple, 'list': list, 'dict': dict, 'bool': bool, 'set': (set, frozenset)}
            if isinstance(v, SV):
                return {'int': v.kind in ('int',), 'bool': v.kind == 'bool', 'str': v.kind == 'name'}.get(cls.name, False)
            if cls.name in pytypes:
                return isinstance(v, pytypes[cls.name])
        if isinstance(v, SV):
            return False
        if isinstance(cls, PyClass):
            return False
        raise Unsupported(f'isinstance({v!r}, {cls!r})')


def _env_names(env):
    out = set()
    while env is not None:
        out |= set(env.vars)
        env = env.parent
    return out


def _load(t):
    import copy
    t2 = copy.copy(t)
    t2.ctx = ast.Load()
    return t2


def _init_sets(c, name):
    for mn in ('__init__', '__post_init__'):
        m = c.methods.get(mn)
        if m is None or not m.node.args.args:
            continue
        me = m.node.args.args[0].arg
        for n in ast.walk(m.node):
            tg = n.targets if isinstance(n, ast.Assign) else [n.target] if isinstance(n, (ast.AnnAssign, ast.AugAssign)) else []
            for t in tg:
                if isinstance(t, ast.Attribute) and t.attr == name and isinstance(t.value, ast.Name) and t.value.id == me:
                    return getattr(n, 'value', None) or ast.Name(id='?')
    return None


class _OpaqueStr:
    """A string whose content the lowering does not track (assert / exception messages, labels)."""

    def __repr__(self):
        return '<str?>'


class SStr:
    """Symbolic string: a sequence of parts -- literal text, ('int', z3 term) = str(int), ('name', z3 term) = a symbol name,
    ('pretty', key) = the rendering of a value, ('fmt', SStr, args) = str.format, ('op', name, ...) = any other string operation.
    Equality is structural (two SStr are equal iff built the same way from equal parts)."""

    def __init__(self, parts):
        flat = []
        for p in parts:
            if isinstance(p, SStr):
                flat.extend(p.parts)
            elif isinstance(p, str):
                if flat and isinstance(flat[-1], str):
                    flat[-1] = flat[-1] + p
                elif p:
                    flat.append(p)
            else:
                flat.append(p)
        self.parts = tuple(flat)

    def key(self):
        def k(p):
            if isinstance(p, str):
                return ('lit', p)
            if p[0] in ('int', 'name'):
                return (p[0], p[1].sexpr())
            if p[0] == 'pretty':
                return ('pretty', p[1])
            if p[0] == 'fmt':
                return ('fmt', p[1].key() if isinstance(p[1], SStr) else p[1], tuple(a.key() if isinstance(a, SStr) else a for a in p[2]))
            return tuple(x.key() if isinstance(x, SStr) else repr(x) for x in p)
        return tuple(k(p) for p in self.parts)

    def template(self):
        """text with every non-literal part replaced by the marker character (used to find str.format placeholders)"""
        return ''.join(p if isinstance(p, str) else '\x00' for p in self.parts)

    def __repr__(self):
        return 'SStr' + repr(self.parts)


class _Iter:
    def __init__(self, items):
        self.items = items


class _Super:
    def __init__(self, selfv, start):
        self.selfv = selfv
        self.start = start


class _Enum:
    def __init__(self, name, members):
        self.name = name
        self.members = members

    def member(self, n):
        return _EnumVal(self, n, self.members[n])


class _EnumVal:
    def __init__(self, enum, name, value):
        self.enum = enum
        self.name = name
        self.value = value

    def __eq__(self, o):
        return isinstance(o, _EnumVal) and o.enum.name == self.enum.name and o.name == self.name

    def __hash__(self):
        return hash((self.enum.name, self.name))


class _SVMethod:
    """Methods of builtin containers / symbolic containers."""

    def __init__(self, o, name):
        self.o = o
        self.name = name

    def call(self, it, args, kwargs):
        o, n = self.o, self.name
        if isinstance(o, (dict, list, set)) and n in ('append', 'add', 'update', 'extend', 'setdefault', 'pop', 'popitem', 'clear', 'insert', 'remove', 'discard', 'sort', 'reverse'):
            it.frame_write(o)
        if isinstance(o, (set, frozenset)) and n == 'union':
            if all(isinstance(a, (set, frozenset)) for a in args):
                r = set(o)
                for a in args:
                    r |= a
                return r
            o = SV(it_as_set(it, o), 'intset')
        if isinstance(o, (set, frozenset)) and n == 'add':
            raise Unsupported('in-place set.add')
        if isinstance(o, SV) and o.kind == 'plist' and n == 'index':
            t = spec.ex_term(it.to_pterm(args[0]))
            m = spec.ex_mem(o.t)
            if not it.ctx.branch(spec.tl_has(m, t), 'element present'):
                raise SymRaise('ValueError', 'not in list')
            return SV(spec.tl_index(m, t), 'int')
        if isinstance(o, SymDict) and n == 'get':
            r = o.lookup(it, args[0])
            return SV(r, 'int') if r is not None else (args[1] if len(args) > 1 else None)
        if isinstance(o, SymDict):
            raise Unsupported(f'dict.{n} on the abstract symbol table')
        if isinstance(o, OutLog) and n == 'write':
            o.chunks.append(args[0])
            return None
        if isinstance(o, OutLog) and n == 'close':
            return None
        if isinstance(o, SV) and o.kind == 'char' and n == 'isspace':
            return SV(ISSPACE(o.t), 'bool')
        if isinstance(o, SV) and o.kind == 'intlist' and n == 'append':
            raise Unsupported('append on a symbolic list that is not an attribute/local (handled in e_Call)')
        if isinstance(o, SV):
            if o.kind == 'intset':
                if n == 'union':
                    r = o.t
                    for a in args:
                        r = z3.SetUnion(r, it_as_set(it, a))
                    return SV(r, 'intset')
                if n == 'add':
                    raise Unsupported('in-place set.add on symbolic set')  # handled via x_Expr special-case below
            if o.kind == 'pmap':
                if n in ('items', 'values', 'keys'):
                    return _MapView(o, n)
                if n == 'get':
                    raise Unsupported('pmap.get')
            raise Unsupported(f'method {n} on symbolic {o.kind}')
        if isinstance(o, dict):
            if n == 'items':
                return list(o.items())
            if n == 'values':
                return list(o.values())
            if n == 'keys':
                return list(o.keys())
            if n == 'get':
                k = it.dict_key(o, args[0])
                return o.get(k, args[1] if len(args) > 1 else None)
            if n == 'update':
                o.update(args[0])
                return None
            if n == 'pop':
                return o.pop(it.dict_key(o, args[0]))
        if isinstance(o, list):
            if n == 'append':
                o.append(args[0])
                return None
            if n == 'pop':
                if not o:
                    raise SymRaise('IndexError')
                return o.pop(*args)
            if n == 'extend':
                o.extend(it.iterate(args[0]))
                return None
            if n == 'index':
                for i, x in enumerate(o):
                    if it.truth(it.eq(x, args[0])):
                        return i
                raise SymRaise('ValueError')
            if n == 'copy':
                return list(o)
        if isinstance(o, tuple) and n == 'index':
            for i, x in enumerate(o):
                if it.truth(it.eq(x, args[0])):
                    return i
            raise SymRaise('ValueError')
        if isinstance(o, (str, SStr)) and n == 'format' and (isinstance(o, SStr) or any(isinstance(a, SStr) for a in args)):
            if any(isinstance(a, _OpaqueStr) for a in args):
                return _OpaqueStr()
            return SStr([('fmt', o, tuple(args))])
        if isinstance(o, SStr) and n in ('startswith', 'endswith', 'isdigit', 'isalpha', 'isspace', '__contains__'):
            return it.ctx.fresh('bool', 'strpred')      # an unknown predicate of an unknown string: both outcomes are explored
        if isinstance(o, SStr):
            return SStr([('op', n, o) + tuple(args)])
        if isinstance(o, str):
            if n == 'format':
                return _OpaqueStr() if any(not isinstance(a, (str, int)) for a in args) else o.format(*args)
            if n in ('join',):
                if isinstance(args[0], _LazyMap) and isinstance(args[0].seq, _MapView):
                    # sep.join(map(str, m.keys())): decimal numerals separated by sep - a string without line break unless sep has one
                    return SStr([('op', 'join-keys', o, args[0].seq.m.t.sexpr())]) if '\n' not in o else _OpaqueStr()
                xs = it.iterate(args[0])
                if any(isinstance(a, SStr) for a in xs) and all(isinstance(a, (str, SStr)) for a in xs):
                    parts = []
                    for i, a in enumerate(xs):
                        if i:
                            parts.append(o)
                        parts.append(a)
                    return SStr(parts)
                return _OpaqueStr() if any(not isinstance(a, str) for a in xs) else o.join(xs)
            return getattr(o, n)(*args)
        raise Unsupported(f'method {n} on {type(o).__name__}')


STR_OF_INT = z3.Function('str_of_int', Int, Int)
PTR_NTH = spec.ptl_nth_front
ISSPACE = z3.Function('isspace', Int, Bool)    # str.isspace on one character (uninterpreted: the spec uses the same predicate)


class SymDict:
    """An ARBITRARY dict[str, int] that is injective onto range(n) (the symbol table), n symbolic: represented by its size and the entries
    looked at so far.  A key that is none of the known entries is either another existing entry (fresh id j in range(n), different from
    the known ids) or absent - the run forks.  Sound for code that only uses `in`, [], .get, []= with a new key, and len()."""

    def __init__(self, ctx, n):
        self.ctx = ctx
        self.n = n                    # z3 Int
        self.known = []               # [(key term, id term)]
        self.absent = []              # key terms known to be absent
        self.writes = 0

    def lookup(self, it, k):
        """-> id term or None (absent)"""
        kt = it.as_int(k)
        for key, idt in self.known:
            if self.ctx.branch(key == kt, 'key is a known entry'):
                return idt
        for key in self.absent:
            if self.ctx.branch(key == kt, 'key is known to be absent'):
                return None
        if self.ctx.branch(z3.Bool(f'symdict!present!{next(self.ctx.counter)}'), 'key is some other entry of the table'):
            j = self.ctx.fresh('int', 'entry_id').t
            self.ctx.assume(z3.And(j >= 0, j < self.n, *[j != i for _, i in self.known]))
            self.ctx.check_feasible()
            self.known.append((kt, j))
            return j
        self.absent.append(kt)
        return None

    def store(self, it, k, v):
        kt = it.as_int(k)
        for i, (key, idt) in enumerate(self.known):
            if self.ctx.branch(key == kt, 'key is a known entry'):
                self.known[i] = (key, it.as_int(v))
                self.writes += 1
                return
        if any(self.ctx.branch(key == kt, 'key is known to be absent') for key in self.absent):
            self.absent = [a for a in self.absent if not a.eq(kt)]
        elif self.lookup(it, k) is not None:
            return self.store(it, k, v)
        else:
            self.absent = [a for a in self.absent if not a.eq(kt)]
        self.known.append((kt, it.as_int(v)))
        self.n = self.n + 1
        self.writes += 1


class OutLog:
    """an output stream: the sequence of chunks written so far"""

    def __init__(self, name='out'):
        self.name = name
        self.chunks = []


class _MapView:
    def __init__(self, m, which):
        self.m = m
        self.which = which


def it_as_set(it, a):
    if isinstance(a, SV) and a.kind == 'intset':
        return a.t
    if isinstance(a, (set, frozenset, list, tuple)):
        s = z3.EmptySet(Int)
        for x in a:
            s = z3.SetAdd(s, it.as_int(x))
        return s
    raise Unsupported(f'set from {a!r}')


# ---- builtins ------------------------------------------------------------------------------------------------

def _b_isinstance(it, args, kw):
    return it.isinstance_(args[0], args[1])


def _b_len(it, args, kw):
    v = args[0]
    if isinstance(v, SV):
        f = {'pmap': spec.pm_len, 'plist': spec.ptl_len, 'idl': spec.il_len, 'intlist': spec.il_len, 'str': spec.il_len, 'bytes': spec.il_len}.get(v.kind)
        if f is not None:
            n = f(v.t)
            if v.kind == 'pmap':
                nil = PMp.is_('pnil', v.t)
            elif v.kind == 'plist':
                nil = PTLs.is_('ptnil', v.t)
            else:
                nil = IDL.is_('inil', v.t)
            lname = {'pmap': 'pm_len_zero', 'plist': 'ptl_len_zero'}.get(v.kind, 'il_len_zero')
            it.ctx.lemma_fact(lname, z3.And(n >= 0, (n == 0) == nil))
            return SV(n, 'int')
    if isinstance(v, SymDict):
        return SV(v.n, 'int')
    if isinstance(v, (tuple, list, dict, str, set, frozenset)):
        return len(v)
    if isinstance(v, _Iter):
        return len(v.items)
    raise Unsupported(f'len of {v!r}')


def _b_tuple(it, args, kw):
    if args and isinstance(args[0], SV) and args[0].kind in ('idl', 'intlist'):
        return SV(args[0].t, 'idl', args[0].meta if args[0].kind == 'idl' else 'int')
    return tuple(it.iterate(args[0])) if args else ()


def _b_list(it, args, kw):
    if args and isinstance(args[0], _LazyZip) and not args[0].listed:
        K, W = _force_zip(it, args[0])
        return _LazyZip(SV(K, 'intlist'), SV(W, 'plist_rev'), True, listed=True)
    if args and isinstance(args[0], SV) and args[0].kind in ('str', 'intlist', 'plist'):
        return args[0]
    if args and isinstance(args[0], _MapView) and args[0].which == 'values' and ctor_of(it.ctx.nz(args[0].m.t)) is None:
        return SV(spec.pm_values(args[0].m.t), 'plist')
    return list(it.iterate(args[0])) if args else []


def _b_set(it, args, kw):
    items = it.iterate(args[0]) if args else []
    if all(isinstance(i, int) and not isinstance(i, bool) for i in items):
        return set(items)
    if all((isinstance(i, SV) and i.kind == 'int') or isinstance(i, int) for i in items):
        return SV(it_as_set(it, items), 'intset')
    raise Unsupported('set() of non-int items')


def _b_dict(it, args, kw):
    if args and isinstance(args[0], _LazyZip) and args[0].listed and not kw:
        z = args[0]
        if not z.rev:
            raise Unsupported('dict(list(zip(...))) without the reversal')
        from .speclemmas import pmz, il_distinct
        # python dicts keep the FIRST position of a repeated key and its LAST value: the association-list model below is exact only for distinct keys
        it.ctx.oblige('model:the keys zipped into the dict are pairwise distinct (needed by the dict model)', il_distinct(z.keys.t), kind='callpre')
        return SV(pmz(z.keys.t, z.values.t), 'pmap')
    d = {}
    if args:
        src = args[0]
        pairs = list(src.items()) if isinstance(src, dict) else [tuple(it.iterate(p)) for p in it.iterate(src)]
        for k, v in pairs:
            d[it.dict_key(d, k)] = v
    d.update(kw)
    return d


def _b_frozendict(it, args, kw):
    if args and isinstance(args[0], SV) and args[0].kind == 'pmap':
        return args[0]
    d = _b_dict(it, args, kw)
    if d and all(isinstance(v, SV) and v.kind == 'ppat' for v in d.values()):
        return SV(it.as_pmap(d), 'pmap')
    if not d:
        return SV(PMp.mk('pnil'), 'pmap')
    return d


class _LazyEnum:
    def __init__(self, seq):
        self.seq = seq


def _b_enumerate(it, args, kw):
    if args and isinstance(args[0], SV) and args[0].kind in ('plist', 'plist_rev', 'idl', 'intlist', 'str'):
        start = args[1] if len(args) > 1 else kw.get('start', 0)
        if not (isinstance(start, int) and start == 0):
            raise Unsupported('enumerate over a symbolic sequence with a start other than 0')
        return _LazyEnum(args[0])              # only a loop under contract can run over it
    return [(i, x) for i, x in enumerate(it.iterate(args[0]))]


SORTED_KEYS = {False: z3.Function('sorted_keys_asc', PMap, IdL), True: z3.Function('sorted_keys_desc', PMap, IdL)}


def _b_sorted(it, args, kw):
    v = args[0]
    if isinstance(v, _MapView) and v.which == 'keys':
        v = v.m
    if isinstance(v, SV) and v.kind == 'pmap' and not kw.get('key'):
        rev = kw.get('reverse', False)
        # a map whose spine is known (k entries, symbolic keys): sort by forking on the key comparisons (insertion sort)
        t = it.ctx.nz(v.t)
        ks = []
        while ctor_of(t) == 'pcons' and len(ks) <= 4:
            ks.append(z3.simplify(PMp.get('pcons', 'pkey', t)) if False else t.arg(0))
            t = t.arg(2)
        if ctor_of(t) == 'pnil' and isinstance(rev, bool) and len(ks) <= 4:
            out = []
            for k in ks:
                i = 0
                while i < len(out) and it.ctx.branch(out[i] <= k, 'sorted: key order'):
                    i += 1
                out.insert(i, k)
            if rev:
                out.reverse()
            return [x.as_long() if z3.is_int_value(x) else SV(x, 'int') for x in out]
        if isinstance(rev, bool):
            # the keys in sorted order: only known to be SOME list determined by the map (no order facts are assumed)
            return SV(SORTED_KEYS[rev](v.t), 'idl')
    xs = it.iterate(args[0])
    try:
        return sorted(xs, key=(lambda p: p[0]) if xs and isinstance(xs[0], tuple) else None)
    except TypeError as e:
        raise Unsupported('sorted on symbolic values') from e


def _b_vars(it, args, kw):
    v = args[0]
    if it.is_pat(v):
        cn = it.ctor(v)
        return {f: it.field(v, cn, f) for f in FIELDS[cn]}
    if isinstance(v, Obj):
        return dict(v.attrs)
    raise Unsupported('vars')


def _b_any(it, args, kw):
    for x in it.iterate(args[0]):
        if it.truth(x):
            return True
    return False


def _b_all(it, args, kw):
    for x in it.iterate(args[0]):
        if not it.truth(x):
            return False
    return True


def _b_range(it, args, kw):
    if any(isinstance(a, SV) for a in args):
        if len(args) == 1:
            return _SymRange(args[0])          # only a loop under contract can run over it
        raise Unsupported('symbolic range')
    return list(range(*args))


class _SymRange:
    def __init__(self, n):
        self.n = n


def _b_reversed(it, args, kw):
    v = args[0]
    if isinstance(v, _LazyZip) and v.listed:
        return _LazyZip(v.keys, v.values, True, listed=True, rev=not v.rev)
    if isinstance(v, _MapView) and v.which == 'keys' and ctor_of(it.ctx.nz(v.m.t)) is None:
        return SV(spec.pm_keys_rev(v.m.t), 'idl')
    if isinstance(v, SV) and v.kind == 'plist':
        return SV(v.t, 'plist_rev')             # only a loop under contract can run over it
    if isinstance(v, SV) and v.kind in ('str', 'intlist'):
        from . import mmnum
        return SV(mmnum.rev_acc(v.t, IDL.mk('inil')), v.kind)
    return list(reversed(it.iterate(args[0])))


def _b_pow(it, args, kw):
    b, e = args[0], args[1]
    if isinstance(b, int) and isinstance(e, int):
        return pow(b, e)
    if b == 5 and isinstance(e, SV) and e.kind == 'int':
        from . import mmnum
        return SV(mmnum.pow5(e.t), 'int')
    raise Unsupported('pow with symbolic arguments')


class _LazyMap:
    def __init__(self, f, seq):
        self.f, self.seq = f, seq


class _LazyZip:
    def __init__(self, keys, values, strict, listed=False, rev=False):
        self.keys, self.values, self.strict, self.listed, self.rev = keys, values, strict, listed, rev


def _b_getattr(it, args, kw):
    if len(args) >= 2 and isinstance(args[1], str):
        try:
            return it.getattr(args[0], args[1])
        except SymRaise:
            if len(args) == 3:
                return args[2]
            raise
    raise Unsupported('getattr with a symbolic name')


def _b_map(it, args, kw):
    if len(args) == 2 and isinstance(args[1], SV) and args[1].kind in ('plist', 'plist_rev'):
        return _LazyMap(args[0], args[1])
    if len(args) == 2 and isinstance(args[0], Builtin) and args[0].name == 'str' and \
            ((isinstance(args[1], _MapView) and args[1].which == 'keys' and args[1].m.kind == 'pmap') or (isinstance(args[1], SV) and args[1].kind == 'pmap')):
        return _LazyMap(args[0], args[1] if isinstance(args[1], _MapView) else _MapView(args[1], 'keys'))      # str of every (integer) key of a symbolic map
    if len(args) == 2:
        return [it.call(args[0], [x], {}) for x in it.iterate(args[1])]
    raise Unsupported('map with several iterables')


def _is_type_assert_identity(f):
    """def f(p): assert isinstance(p, Pattern); return p"""
    n = getattr(f, 'node', None)
    if not isinstance(n, ast.FunctionDef) or len(n.args.args) != 1 or len(n.body) != 2:
        return False
    a, r = n.body
    p = n.args.args[0].arg
    return (isinstance(a, ast.Assert) and isinstance(a.test, ast.Call) and isinstance(a.test.func, ast.Name) and a.test.func.id == 'isinstance' and len(a.test.args) == 2
            and isinstance(a.test.args[0], ast.Name) and a.test.args[0].id == p and isinstance(a.test.args[1], ast.Name) and a.test.args[1].id == 'Pattern'
            and isinstance(r, ast.Return) and isinstance(r.value, ast.Name) and r.value.id == p)


def _force_zip(it, z):
    """consume zip(keys, map(f, reversed(segment)), strict=True): f's assertions, then the length check"""
    K, mp = z.keys, z.values
    if not (isinstance(K, SV) and K.kind in ('intlist', 'idl') and isinstance(mp, _LazyMap) and mp.seq.kind == 'plist_rev' and z.strict):
        raise Unsupported('zip of symbolic sequences of this shape')
    if not _is_type_assert_identity(mp.f):
        raise Unsupported('map with a function that is not a type-asserting identity')
    W = mp.seq.t
    # elements are produced pairwise: a Proved among the first min(|K|,|W|) elements raises AssertionError before the length mismatch is noticed;
    # both are errors, the contracts here only distinguish 'raises' from 'returns'
    if not it.ctx.branch(spec.tl_allpat(spec.ex_stack(W)), 'every plug is a Pattern'):
        raise SymRaise('AssertionError', '', 'assert_is_pattern')
    if not it.ctx.branch(spec.il_len(K.t) == spec.ptl_len(W), 'as many plugs as keys'):
        raise SymRaise('ValueError', 'zip() argument lengths differ')
    return K.t, W


def _b_zip(it, args, kw):
    if len(args) == 2 and (isinstance(args[1], _LazyMap) or (isinstance(args[0], SV) and args[0].kind in ('intlist', 'idl'))):
        return _LazyZip(args[0], args[1], bool(kw.get('strict')))
    seqs = [it.iterate(a) for a in args]
    if kw.get('strict') and len({len(s) for s in seqs}) > 1:
        raise SymRaise('ValueError')
    return list(zip(*seqs))


def _b_str(it, args, kw):
    v = args[0] if args else ''
    if isinstance(v, (int, str)):
        return str(v)
    if isinstance(v, SV) and v.kind in ('int', 'name'):
        return SStr([(v.kind, v.t)])
    if isinstance(v, SStr):
        return v
    return _OpaqueStr()


def concrete_intset(t, bound=64):
    """members of a set term built from concrete integers (EmptySet / SetAdd / SetUnion), by evaluation"""
    out = set()
    from . import norm as _norm
    t = _norm.Normalizer(max_steps=200000).norm(t)        # spec functions applied to concrete patterns reduce to concrete sets
    for i in range(-1, bound):
        m = z3.simplify(z3.IsMember(z3.IntVal(i), t))
        if z3.is_true(m):
            out.add(i)
        elif not z3.is_false(m):
            raise Unsupported('set is not concrete')
    return out


def _b_max(it, args, kw):
    if len(args) == 1 and isinstance(args[0], (set, frozenset)):
        if not args[0]:
            raise SymRaise('ValueError', 'max() of empty set')
        return max(args[0])
    if len(args) == 1 and isinstance(args[0], SV) and args[0].kind == 'intset':
        s = concrete_intset(args[0].t)
        if not s:
            raise SymRaise('ValueError', 'max() of empty set')
        return max(s)
    xs = it.iterate(args[0]) if len(args) == 1 else args
    if any(isinstance(x, SV) for x in xs):
        raise Unsupported('symbolic max')
    return max(xs)


def _b_bytes(it, args, kw):
    """bytes([...]): ValueError unless every element is in range(256)"""
    xs = args[0] if args else []
    if isinstance(xs, SV) and xs.kind in ('idl', 'intlist'):
        pieces = [xs]
    elif isinstance(xs, (list, tuple)):
        pieces = list(xs)
    else:
        raise Unsupported(f'bytes({xs!r})')
    term = IDL.mk('inil')
    conds = []
    for p in reversed(pieces):
        if isinstance(p, SV) and p.kind in ('idl', 'intlist'):
            conds.append(spec.il_allbytes(p.t))
            term = spec.il_cat(p.t, term)
        else:
            x = p.value if isinstance(p, _EnumVal) else p
            zx = it.as_int(x)
            if not isinstance(x, int):
                conds.append(z3.And(zx >= 0, zx <= 255))
            elif not (0 <= x <= 255):
                raise SymRaise('ValueError', 'bytes must be in range(0, 256)')
            term = IDL.mk('icons', zx, term)
    if conds and not it.ctx.branch(z3.And(*conds), 'all bytes in range'):
        raise SymRaise('ValueError', 'bytes must be in range(0, 256)')
    return SV(term, 'bytes')


def _b_sum(it, args, kw):
    xs = it.iterate(args[0])
    if any(isinstance(x, SV) for x in xs):
        return SV(z3.Sum(*[it.as_int(x) for x in xs]) if xs else z3.IntVal(0), 'int')
    return sum(xs)


def _b_print(it, args, kw):
    return None


def _b_type(it, args, kw):
    v = args[0]
    if isinstance(v, Obj):
        return v.cls
    if it.is_pat(v):
        return it.repo.cls(PATTERN_MODULE, it.ctor(v))
    raise Unsupported('type()')


def _b_id(name):
    def f(it, args, kw):
        raise Unsupported(f'builtin {name}')
    return f


BUILTINS = {n: Builtin(n, f) for n, f in {
    'isinstance': _b_isinstance, 'len': _b_len, 'tuple': _b_tuple, 'list': _b_list, 'set': _b_set, 'dict': _b_dict,
    'enumerate': _b_enumerate, 'sorted': _b_sorted, 'vars': _b_vars, 'any': _b_any, 'all': _b_all, 'range': _b_range,
    'reversed': _b_reversed, 'zip': _b_zip, 'map': _b_map, 'getattr': _b_getattr, 'str': _b_str, 'repr': _b_str, 'max': _b_max, 'print': _b_print, 'type': _b_type,
    'frozenset': _b_set, 'pow': _b_pow, 'bytes': _b_bytes, 'sum': _b_sum,
}.items()}
for _n in ('int', 'bool', 'bytes', 'min', 'sum', 'map', 'open', 'hash', 'id', 'getattr', 'setattr', 'hasattr', 'iter', 'next'):
    BUILTINS.setdefault(_n, Builtin(_n, _b_id(_n)))
BUILTINS['NotImplementedError'] = Builtin('NotImplementedError', _b_id('NotImplementedError'))
BUILTINS['AssertionError'] = Builtin('AssertionError', _b_id('AssertionError'))
BUILTINS['ValueError'] = Builtin('ValueError', _b_id('ValueError'))
BUILTINS['Exception'] = Builtin('Exception', _b_id('Exception'))
BUILTINS['None'] = None
BUILTINS['True'] = True
BUILTINS['False'] = False
BUILTINS['NotImplemented'] = NOTIMPL

EXTERNALS = {
    'frozendict.frozendict': Builtin('frozendict', _b_frozendict),
    'dataclasses.dataclass': Builtin('dataclass', _b_id('dataclass')),
    'typing.TYPE_CHECKING': False,
    'functools.cache': Builtin('cache', lambda it, a, k: a[0]),
    'typing.Any': None,
    'typing.IO': None,
    'typing.TypeVar': Builtin('TypeVar', lambda it, a, k: None),
    '__future__.annotations': None,
    'collections.abc.Mapping': None,
    'collections.abc.Callable': None,
    'collections.abc.Iterator': None,
}
