"""RsFE: symbolic execution of the REAL Rust checker source (rust/src/lib.rs, parsed by vc/rsparse.py on every run).

Values: Pattern / Rc<Pattern> -> SV mpat;  u8/usize -> int / SV int;  IdList, Vec<u8>, &[Id] -> SV idl (first element at the
head, push = snoc);  Vec<Rc<Pattern>> -> SV mlist (snoc);  Term/Entry -> SV term;  Stack -> SV stack (TL, head = top);
Memory -> SV mem (TL, head = index 0, push = snoc);  Claims -> SV claims (ML, head = top);  Option -> None | ('Some', v).
Dropped by the lowering (DESIGN 2.1): types/lifetimes (used only to pick sorts), Rc::new / Rc::clone / .clone() / & / * /
.as_ref() / .iter() on slices (values are immutable terms), Vec::with_capacity's capacity, attributes, message operands of
panic!/assert!/expect.  A panic (panic!, failed assert!, expect/unwrap on None, out-of-range index, unimplemented!) is the
abrupt outcome SymRaise('panic')."""
import z3
from . import rsparse
from .engine import SV, SymRaise, Unsupported, Infeasible, PathEnd
from .sorts import *  # noqa
from . import spec

PANIC = 'panic'


class Ref:
    """&mut place"""

    def __init__(self, get, set):
        self.get = get
        self.set = set


class EnumVal:
    def __init__(self, enum, variant):
        self.enum = enum
        self.variant = variant

    def __eq__(self, o):
        return isinstance(o, EnumVal) and (self.enum, self.variant) == (o.enum, o.variant)

    def __hash__(self):
        return hash((self.enum, self.variant))

    def __repr__(self):
        return f'{self.enum}::{self.variant}'


class UVec:
    """An empty Vec whose element type is not known yet (e.g. `let mut stack = Vec::with_capacity(256);`): it takes the
    representation of the first typed position it flows into."""


class RClosure:
    def __init__(self, node, env):
        self.node = node
        self.env = env


class RIter:
    """slice / vec iterator over a symbolic id list (or a python list)"""

    def __init__(self, rest, adapters=()):
        self.rest = rest
        self.adapters = adapters


class _Ret(Exception):
    def __init__(self, v):
        self.v = v


class _Brk(Exception):
    pass


class _Cont(Exception):
    pass


class REnv:
    def __init__(self, parent=None):
        self.vars = {}
        self.parent = parent

    def lookup(self, n):
        e = self
        while e is not None:
            if n in e.vars:
                return e
            e = e.parent
        return None

    def get(self, n):
        e = self.lookup(n)
        if e is None:
            raise KeyError(n)
        return e.vars[n]

    def set_existing(self, n, v):
        e = self.lookup(n)
        if e is None:
            raise KeyError(n)
        e.vars[n] = v

    def declare(self, n, v):
        self.vars[n] = v

    def names_where(self, pred):
        """names (innermost binding wins) whose value satisfies pred: contracts find variables by ROLE, not by spelling"""
        out, seen, e = [], set(), self
        while e is not None:
            for n, v in e.vars.items():
                if n not in seen:
                    seen.add(n)
                    if pred(v):
                        out.append(n)
            e = e.parent
        return out


PAT_ENUM = 'Pattern'
RS_FIELDS = {  # rust field name -> our field name
    'EVar': ['name'], 'SVar': ['name'], 'Symbol': ['name'],
    'Implies': ['left', 'right'], 'App': ['left', 'right'], 'Exists': ['var', 'subpattern'], 'Mu': ['var', 'subpattern'],
    'MetaVar': ['id', 'e_fresh', 's_fresh', 'positive', 'negative', 'app_ctx_holes'],
    'ESubst': ['pattern', 'evar_id', 'plug'], 'SSubst': ['pattern', 'svar_id', 'plug'],
}
RS2OUR = {'id': 'name', 'evar_id': 'var', 'svar_id': 'var'}


class RsProgram:
    def __init__(self, root):
        import os
        self.path = os.path.join(root, 'rust', 'src', 'lib.rs')
        self.items = rsparse.parse_file(self.path)
        self.fns = {}
        self.enums = {}
        self.types = {}
        for it in self.items:
            if it['k'] == 'fn':
                self.fns[it['name']] = it
            elif it['k'] == 'impl':
                for f in it['items']:
                    if f['k'] == 'fn':
                        self.fns[f"{it['target']}::{f['name']}"] = f
            elif it['k'] == 'enum':
                self.enums[it['name']] = it
            elif it['k'] == 'type':
                self.types[it['name']] = it['ty']
        # sanity: the Pattern enum must have exactly the shape the encoding assumes
        pe = self.enums.get('Pattern')
        if pe is None:
            raise Unsupported('enum Pattern not found')
        got = {v['name']: [f[0] for f in v['fields']] for v in pe['variants']}
        for cn, fs in RS_FIELDS.items():
            g = got.get(cn)
            if g is None:
                raise Unsupported(f'Pattern::{cn} missing')
            if v_kind(pe, cn) == 'struct' and g != fs:
                raise Unsupported(f'Pattern::{cn} fields {g} != {fs}')
        if set(got) != set(RS_FIELDS):
            raise Unsupported(f'Pattern variants changed: {sorted(got)}')

    def resolve_type(self, ty):
        ty = (ty or '').replace(' ', '')
        for _ in range(5):
            if ty in self.types:
                ty = self.types[ty].replace(' ', '')
        return ty


def v_kind(enum, name):
    for v in enum['variants']:
        if v['name'] == name:
            return v['kind']
    return None


class RsInterp:
    def __init__(self, prog, ctx, contracts=None, opts=None):
        self.prog = prog
        self.ctx = ctx
        self.contracts = contracts or {}
        self.opts = opts or {}
        self.loop_contracts = self.opts.get('loops', {})
        self.depth = 0
        self.fn_stack = []
        self.call_log = []

    # ---- helpers -----------------------------------------------------------------------------------------------
    def deref(self, v):
        while isinstance(v, Ref):
            v = v.get()
        return v

    def zint(self, v):
        v = self.deref(v)
        if isinstance(v, bool):
            raise Unsupported('bool as int')
        if isinstance(v, int):
            return z3.IntVal(v)
        if isinstance(v, SV) and v.kind == 'int':
            return v.t
        raise Unsupported(f'expected integer, got {v!r}')

    def zbool(self, v):
        v = self.deref(v)
        if isinstance(v, bool):
            return z3.BoolVal(v)
        if isinstance(v, SV) and v.kind == 'bool':
            return v.t
        raise Unsupported(f'expected bool, got {v!r}')

    def truth(self, v):
        v = self.deref(v)
        if isinstance(v, bool):
            return v
        if isinstance(v, SV) and v.kind == 'bool':
            return self.ctx.branch(v.t)
        raise Unsupported(f'condition {v!r}')

    def panic(self, why=''):
        fn = self.fn_stack[-1]['name'] if self.fn_stack else '?'
        raise SymRaise(PANIC, why, fn)

    def ctor(self, v, cands=None):
        c = ctor_of(v.t)
        if c:
            return c
        key = v.t.get_id()
        if key in self.ctx.known_ctor:
            return self.ctx.known_ctor[key][1]
        A = M if v.kind == 'mpat' else TRM
        names = cands or list(A.ctor.keys())
        for cn in names:
            if self.ctx.branch(A.is_(cn, v.t), f'ctor {cn}'):
                self.ctx.known_ctor[key] = (v.t, cn)
                return cn
        return None

    def is_ctor(self, v, cn):
        """Does v have constructor cn on this path (forks if unknown)?"""
        c = ctor_of(v.t)
        if c:
            return c == cn
        key = v.t.get_id()
        if key in self.ctx.known_ctor:
            return self.ctx.known_ctor[key][1] == cn
        A = M if v.kind == 'mpat' else TRM
        r = self.ctx.branch(A.is_(cn, v.t), f'is {cn}')
        if r:
            self.ctx.known_ctor[key] = (v.t, cn)
        return r

    def pat_field(self, v, cn, rsname):
        our = RS2OUR.get(rsname, rsname)
        t = M.get(cn, our, v.t)
        if ctor_of(v.t):
            t = z3.simplify(t)
        k = FKIND[our]
        return SV(t, {'pat': 'mpat', 'int': 'int', 'idl': 'idl'}[k])

    def mk_pattern(self, cn, fields):
        args = []
        for rsname in RS_FIELDS[cn]:
            v = self.deref(fields[rsname])
            our = RS2OUR.get(rsname, rsname)
            k = FKIND[our]
            if k == 'pat':
                if not (isinstance(v, SV) and v.kind == 'mpat'):
                    raise Unsupported(f'{cn}.{rsname}: {v!r}')
                args.append(v.t)
            elif k == 'int':
                args.append(self.zint(v))
            else:
                args.append(self.as_idl(v))
        return SV(M.mk(cn, *args), 'mpat')

    def as_idl(self, v):
        v = self.deref(v)
        if isinstance(v, SV) and v.kind == 'idl':
            return v.t
        if isinstance(v, UVec):
            return IDL.mk('inil')
        if isinstance(v, list):
            return idl(*[self.zint(x) for x in v])
        raise Unsupported(f'expected id list, got {v!r}')

    def eq(self, a, b):
        a, b = self.deref(a), self.deref(b)
        if isinstance(a, SV) and isinstance(b, SV) and a.kind == b.kind:
            return SV(a.t == b.t, 'bool')
        if isinstance(a, SV) and a.kind == 'int' or isinstance(b, SV) and b.kind == 'int':
            return SV(self.zint(a) == self.zint(b), 'bool')
        if isinstance(a, SV) or isinstance(b, SV):
            raise Unsupported(f'== on {a!r}, {b!r}')
        if a is None or b is None:
            return a is b
        return a == b

    # ---- functions ----------------------------------------------------------------------------------------------
    def call_fn(self, name, args, selfv=None):
        c = self.contracts.get(name)
        if c is not None and name not in self.opts.get('inline', ()):
            return c.apply_rs(self, self.ctx, ([selfv] if selfv is not None else []) + list(args))
        fn = self.prog.fns.get(name)
        if fn is None:
            raise Unsupported(f'unknown function {name}')
        return self.run_fn(fn, args, selfv)

    def run_fn(self, fn, args, selfv=None):
        env = REnv()
        if fn['self']:
            env.declare('self', selfv)
        if len(args) != len(fn['params']):
            raise Unsupported(f"arity of {fn['name']}")
        for p, a in zip(fn['params'], args):
            env.declare(p['name'], self.coerce_arg(a, p.get('ty')))
        self.depth += 1
        if self.depth > 80:
            raise Unsupported('call depth')
        self.fn_stack.append(fn)
        try:
            return self.block(fn['body'], env)
        except _Ret as r:
            return r.v
        finally:
            self.depth -= 1
            self.fn_stack.pop()

    def coerce_arg(self, a, ty):
        v = self.deref(a)
        if isinstance(v, UVec) and ty:
            nv = self.new_vec(ty.replace('&', '').replace('mut', '').strip())
            if isinstance(a, Ref):
                a.set(nv)
                return a
            return nv
        return a

    def block(self, b, env):
        env = REnv(env)
        for st in b['stmts']:
            self.stmt(st, env)
        if b['expr'] is not None:
            return self.ev(b['expr'], env)
        return ()

    def stmt(self, st, env):
        k = st['k']
        if k == 'let':
            v = self.ev(st['init'], env, ty=st.get('ty')) if st['init'] is not None else None
            if not self.bind(st['pat'], v, env):
                self.panic('refutable let')
        elif k == 'expr':
            self.ev(st['e'], env)
        elif k == 'item':
            pass
        else:
            raise Unsupported(f'stmt {k}')

    # ---- patterns ------------------------------------------------------------------------------------------------
    def bind(self, pat, v, env):
        """Match value against pattern, declaring bindings; returns python bool (forks on symbolic constructors)."""
        k = pat['k']
        v0 = v
        v = self.deref(v)
        if k == 'wild':
            return True
        if k == 'bind':
            if pat.get('sub') is not None and not self.bind(pat['sub'], v, env):
                return False
            env.declare(pat['name'], v0 if isinstance(v0, Ref) else v)
            return True
        if k == 'pref':
            return self.bind(pat['pat'], v, env)
        if k == 'lit':
            return self.truth(self.eq(v, pat['v']))
        if k == 'por':
            for p in pat['pats']:
                e2 = REnv(env)
                if self.bind(p, v, e2):
                    env.vars.update(e2.vars)
                    return True
            return False
        if k == 'ptuple':
            if not isinstance(v, tuple) or len(v) != len(pat['pats']):
                return False
            return all(self.bind(p, x, env) for p, x in zip(pat['pats'], v))
        if k in ('ppath', 'tstruct', 'pstruct'):
            path = pat['segs'] if k == 'ppath' else pat['path']
            en, vn = (path[0], path[1]) if len(path) == 2 else (None, path[0])
            if vn == 'None' and en is None:
                return v is None
            if vn == 'Some' and en is None:
                if v is None:
                    return False
                return self.bind(pat['pats'][0], v[1], env)
            if en == 'Pattern':
                if not (isinstance(v, SV) and v.kind == 'mpat'):
                    raise Unsupported(f'Pattern pattern on {v!r}')
                if not self.is_ctor(v, vn):
                    return False
                if k == 'tstruct':
                    for p, rsname in zip(pat['pats'], RS_FIELDS[vn]):
                        if not self.bind(p, self.pat_field(v, vn, rsname), env):
                            return False
                elif k == 'pstruct':
                    for fname, p in pat['fields']:
                        if fname not in RS_FIELDS[vn]:
                            raise Unsupported(f'Pattern::{vn} has no field {fname}')
                        if not self.bind(p, self.pat_field(v, vn, fname), env):
                            return False
                return True
            if en in ('Term', 'Entry'):
                if not (isinstance(v, SV) and v.kind == 'term'):
                    raise Unsupported(f'Term pattern on {v!r}')
                cn = {'Pattern': 'Pat', 'Proved': 'Prf'}[vn]
                if not self.is_ctor(v, cn):
                    return False
                inner = TRM.get(cn, 'pat' if cn == 'Pat' else 'prf', v.t)
                if ctor_of(v.t):
                    inner = z3.simplify(inner)
                return self.bind(pat['pats'][0], SV(inner, 'mpat'), env)
            if en in self.prog.enums:
                if not isinstance(v, EnumVal):
                    raise Unsupported(f'enum pattern on {v!r}')
                return v == EnumVal(en, vn)
            raise Unsupported(f'pattern path {path}')
        raise Unsupported(f'pattern {k}')

    # ---- expressions -------------------------------------------------------------------------------------------------
    def ev(self, e, env, ty=None):
        m = getattr(self, 'e_' + e['k'], None)
        if m is None:
            raise Unsupported(f"rust expression {e['k']}")
        return m(e, env, ty) if e['k'] in ('call', 'macro', 'path') else m(e, env)

    def e_lit(self, e, env):
        return e['v']

    def e_path(self, e, env, ty=None):
        segs = e['segs']
        if len(segs) == 1:
            try:
                return env.get(segs[0])
            except KeyError:
                if segs[0] == 'None':
                    return None
                raise Unsupported(f'unbound {segs[0]}')
        en, vn = segs[-2], segs[-1]
        if en in self.prog.enums and en not in ('Pattern', 'Term', 'Entry'):
            return EnumVal(en, vn)
        return ('fnpath', segs)

    def e_tuple(self, e, env):
        return tuple(self.ev(x, env) for x in e['elts'])

    def e_blockexpr(self, e, env):
        return self.block(e['block'], env)

    def e_unary(self, e, env):
        op = e['op']
        if op == '&mut':
            try:
                return self.place(e['e'], env)
            except Unsupported:
                cell = [self.ev(e['e'], env)]
                return Ref(lambda: cell[0], lambda v: cell.__setitem__(0, v))
        v = self.ev(e['e'], env)
        if op in ('&', '*'):
            return v if op == '&' else self.deref(v)
        if op == '!':
            v = self.deref(v)
            if isinstance(v, bool):
                return not v
            return SV(z3.Not(self.zbool(v)), 'bool')
        if op == '-':
            return SV(-self.zint(v), 'int')
        raise Unsupported(f'unary {op}')

    def place(self, e, env):
        if e['k'] == 'path' and len(e['segs']) == 1:
            n = e['segs'][0]
            cur = env.get(n)
            if isinstance(cur, Ref):
                return cur
            return Ref(lambda: env.get(n), lambda v: env.set_existing(n, v))
        if e['k'] == 'unary' and e['op'] == '*':
            v = self.ev(e['e'], env)
            if isinstance(v, Ref):
                return v
        raise Unsupported('place expression')

    def e_cast(self, e, env):
        v = self.deref(self.ev(e['e'], env))
        ty = e['ty'].replace(' ', '')
        if isinstance(v, EnumVal):
            raise Unsupported('enum discriminant cast')
        return v   # u8 -> usize / Id: identity on mathematical integers (assumption 2.3.1)

    def e_binary(self, e, env):
        op = e['op']
        if op in ('&&', '||'):
            l = self.ev(e['l'], env)
            lt = self.truth(l)
            if op == '&&':
                return self.ev(e['r'], env) if lt else False
            return True if lt else self.ev(e['r'], env)
        l, r = self.ev(e['l'], env), self.ev(e['r'], env)
        if op == '==':
            return self.eq(l, r)
        if op == '!=':
            x = self.eq(l, r)
            return (not x) if isinstance(x, bool) else SV(z3.Not(x.t), 'bool')
        a, b = self.zint(l), self.zint(r)
        if op in ('<', '<=', '>', '>='):
            return SV({'<': a < b, '<=': a <= b, '>': a > b, '>=': a >= b}[op], 'bool')
        if op in ('+', '-', '*'):
            # u8/usize arithmetic can overflow/underflow (panic in debug, wrap in release): not modelled
            raise Unsupported(f'machine arithmetic {op}')
        raise Unsupported(f'binary {op}')

    def e_assign(self, e, env):
        if e['op'] != '=':
            raise Unsupported('compound assignment')
        v = self.ev(e['r'], env)
        l = e['l']
        if l['k'] == 'wild' or (l['k'] == 'path' and l['segs'] == ['_']):
            return ()
        pl = self.place(l, env) if not (l['k'] == 'unary' and l['op'] == '*') else self.ev(l['e'], env)
        if not isinstance(pl, Ref):
            raise Unsupported('assignment target')
        pl.set(self.deref(v))
        return ()

    def e_if(self, e, env):
        if self.truth(self.ev(e['cond'], env)):
            return self.block(e['then'], env)
        if e['else'] is None:
            return ()
        return self.block(e['else'], env) if e['else']['k'] == 'block' else self.ev(e['else'], env)

    def e_iflet(self, e, env):
        v = self.ev(e['e'], env)
        e2 = REnv(env)
        if self.bind(e['pat'], v, e2):
            return self.block(e['then'], e2)
        if e['else'] is None:
            return ()
        return self.block(e['else'], env) if e['else']['k'] == 'block' else self.ev(e['else'], env)

    def e_match(self, e, env):
        v = self.ev(e['e'], env)
        for arm in e['arms']:
            e2 = REnv(env)
            if self.bind(arm['pat'], v, e2):
                if arm['guard'] is not None and not self.truth(self.ev(arm['guard'], e2)):
                    continue
                return self.ev(arm['body'], e2)
        self.panic('non-exhaustive match')

    def e_matches(self, e, env):
        v = self.ev(e['e'], env)
        e2 = REnv(env)
        if self.bind(e['pat'], v, e2):
            if e.get('guard') is not None:
                return self.truth(self.ev(e['guard'], e2))
            return True
        return False

    def e_return(self, e, env):
        raise _Ret(self.ev(e['e'], env) if e['e'] is not None else ())

    def e_break(self, e, env):
        raise _Brk()

    def e_continue(self, e, env):
        raise _Cont()

    def e_try(self, e, env):
        v = self.deref(self.ev(e['e'], env))
        if v is None:
            raise _Ret(None)
        if isinstance(v, tuple) and v and v[0] == 'Some':
            return v[1]
        raise Unsupported('? on non-Option')

    def e_closure(self, e, env):
        return RClosure(e, env)

    def e_range(self, e, env):
        return ('range', self.ev(e['lo'], env) if e['lo'] else 0, self.ev(e['hi'], env) if e['hi'] else None)

    def e_index(self, e, env):
        recv = self.deref(self.ev(e['recv'], env))
        idx = self.deref(self.ev(e['idx'], env))
        return self.index(recv, idx)

    def index(self, recv, idx):
        if isinstance(recv, SV) and recv.kind in ('mlist', 'idl', 'mem'):
            i = self.zint(idx)
            ln = {'mlist': spec.ml_len, 'idl': spec.il_len, 'mem': spec.tl_len}[recv.kind](recv.t)
            if not self.ctx.branch(z3.And(i >= 0, i < ln), 'index in range'):
                self.panic('index out of range')
            if recv.kind == 'mlist':
                return SV(spec.ml_nth(recv.t, i), 'mpat')
            if recv.kind == 'idl':
                return SV(spec.il_nth(recv.t, i), 'int')
            return SV(spec.tl_nth(recv.t, i), 'term')
        if isinstance(recv, list):
            if isinstance(idx, int):
                if idx >= len(recv):
                    self.panic('index out of range')
                return recv[idx]
        raise Unsupported(f'index on {recv!r}')

    def e_struct(self, e, env):
        path = e['path']
        if len(path) == 2 and path[0] == 'Pattern':
            fields = {n: self.ev(x, env) for n, x in e['fields']}
            return self.mk_pattern(path[1], fields)
        raise Unsupported(f'struct literal {path}')

    def e_macro(self, e, env, ty=None):
        n = e['name']
        if n in ('panic', 'unimplemented', 'unreachable', 'todo'):
            self.panic(n)
        if n in ('assert', 'debug_assert'):
            if not self.truth(self.ev(e['args'][0], env)):
                self.panic('assert')
            return ()
        if n in ('assert_eq', 'assert_ne'):
            x = self.eq(self.ev(e['args'][0], env), self.ev(e['args'][1], env))
            t = self.truth(x)
            if t != (n == 'assert_eq'):
                self.panic(n)
            return ()
        if n == 'vec':
            if e.get('repeat') is not None:
                raise Unsupported('vec![x; n]')
            items = [self.ev(a, env) for a in e['args']]
            return self.new_vec(ty, items)
        raise Unsupported(f'macro {n}!')

    def new_vec(self, ty, items=()):
        alias = (ty or '').replace(' ', '').lstrip('&').replace('mut', '')
        if alias in ('Claims',):
            return SV(MLs.mk('lnil'), 'claims')
        if alias in ('Memory',):
            return SV(TLs.mk('tnil'), 'mem')
        if alias in ('Stack',):
            return SV(TLs.mk('tnil'), 'stack')
        if not ty and not items:
            return UVec()
        t = self.prog.resolve_type(ty) if ty else ''
        if t in ('Vec<u8>', 'Vec<Id>') or (not t and all(isinstance(self.deref(i), (int, SV)) and not (isinstance(self.deref(i), SV) and self.deref(i).kind != 'int') for i in items)):
            return SV(idl(*[self.zint(i) for i in items]), 'idl')
        if t == 'Vec<Rc<Pattern>>':
            r = MLs.mk('lnil')
            for i in reversed(list(items)):
                r = MLs.mk('lcons', self.deref(i).t, r)
            return SV(r, 'mlist')
        if t == 'Vec<Term>':
            if items:
                raise Unsupported('non-empty stack literal')
            return SV(TLs.mk('tnil'), 'stack')
        if t == 'Vec<Entry>':
            return SV(TLs.mk('tnil'), 'mem')
        raise Unsupported(f'vector of type {ty!r}')

    def e_call(self, e, env, ty=None):
        f = e['f']
        if f['k'] == 'path':
            segs = f['segs']
            name = '::'.join(segs)
            args = [self.ev(a, env) for a in e['args']]
            # tuple-like enum constructors
            if len(segs) == 2 and segs[0] == 'Pattern' and segs[1] in RS_FIELDS:
                return self.mk_pattern(segs[1], dict(zip(RS_FIELDS[segs[1]], args)))
            if len(segs) == 2 and segs[0] in ('Term', 'Entry'):
                p = self.deref(args[0])
                return SV(TRM.mk('Pat' if segs[1] == 'Pattern' else 'Prf', p.t), 'term')
            if name == 'Some':
                return ('Some', args[0])
            if name in ('Rc::new', 'Rc::clone'):
                return self.deref(args[0])
            if name in ('Vec::with_capacity', 'Vec::new'):
                return self.new_vec(ty)
            if len(segs) == 1 and env.lookup(segs[0]) is not None:
                fv = self.deref(env.get(segs[0]))
                if isinstance(fv, RClosure):
                    return self.call_closure(fv, args)
            if name in self.prog.fns:
                return self.call_fn(name, args)
            raise Unsupported(f'call of {name}')
        fv = self.ev(f, env)
        if isinstance(fv, RClosure):
            return self.call_closure(fv, [self.ev(a, env) for a in e['args']])
        raise Unsupported('call of non-path')

    def call_closure(self, c, args):
        env = REnv(c.env)
        for p, a in zip(c.node['params'], args):
            if not self.bind(p, a, env):
                self.panic('closure parameter pattern')
        b = c.node['body']
        try:
            return self.ev(b, env)
        except _Ret as r:
            return r.v

    def e_field(self, e, env):
        raise Unsupported('field access')

    # ---- method calls -------------------------------------------------------------------------------------------------
    def e_mcall(self, e, env):
        m = e['m']
        recv_e = e['recv']
        # mutating methods need the place of the receiver
        if m in ('reserve', 'shrink_to_fit', 'reserve_exact'):
            self.ev(recv_e, env)
            for a in e['args']:
                self.ev(a, env)
            return ()                            # capacity only: no observable effect
        if m in ('push', 'pop', 'clear', 'next', 'take', 'remove'):
            pl = None
            try:
                pl = self.place(recv_e, env)
            except Unsupported:
                pl = None
            if pl is not None:
                cur = self.deref(pl.get())
                if isinstance(cur, UVec) and m == 'clear':
                    return ()
                if isinstance(cur, (SV, RIter, list)):
                    args = [self.ev(a, env) for a in e['args']]
                    return self.mut_method(pl, cur, m, args)
        recv = self.deref(self.ev(recv_e, env))
        args = [self.ev(a, env) for a in e['args']]
        return self.method(recv, m, args, env)

    def vec_remove(self, pl, cur, idx):
        i = self.zint(idx)
        if cur.kind == 'claims':
            ln = spec.ml_len(cur.t)
            if not self.ctx.branch(z3.And(i >= 0, i < ln), 'remove: index in range'):
                self.panic('remove out of range')
            j = ln - 1 - i          # claims are kept top (= last pushed) first
            v = SV(spec.ml_nth(cur.t, j), 'mpat')
            pl.set(SV(spec.ml_remove_at(cur.t, j), 'claims'))
            return v
        raise Unsupported(f'remove on {cur.kind}')

    def mut_method(self, pl, cur, m, args):
        if m == 'remove' and isinstance(cur, SV):
            return self.vec_remove(pl, cur, self.deref(args[0]))
        if isinstance(cur, RIter):
            if m == 'next':
                return self.iter_next(cur, pl)
            if m == 'take':
                return ('take', pl, self.deref(args[0]))
            raise Unsupported(f'iterator.{m}')
        if isinstance(cur, SV):
            k = cur.kind
            if m == 'push':
                x = self.deref(args[0])
                if k == 'idl':
                    pl.set(SV(spec.il_snoc(cur.t, self.zint(x)), 'idl'))
                elif k == 'mlist':
                    pl.set(SV(spec.ml_snoc(cur.t, x.t), 'mlist'))
                elif k == 'stack':
                    pl.set(SV(TLs.mk('tcons', x.t, cur.t), 'stack'))
                elif k == 'mem':
                    pl.set(SV(spec.tl_snoc(cur.t, x.t), 'mem'))
                elif k == 'claims':
                    pl.set(SV(MLs.mk('lcons', x.t, cur.t), 'claims'))
                else:
                    raise Unsupported(f'push on {k}')
                return ()
            if m == 'pop':
                if k == 'stack':
                    if self.ctx.branch(TLs.is_('tnil', cur.t), 'stack empty'):
                        return None
                    top = SV(z3.simplify(TLs.get('tcons', 'thd', cur.t)) if ctor_of(cur.t) else TLs.get('tcons', 'thd', cur.t), 'term')
                    rest = TLs.get('tcons', 'ttl', cur.t)
                    pl.set(SV(z3.simplify(rest) if ctor_of(cur.t) else rest, 'stack'))
                    return ('Some', top)
                if k == 'claims':
                    if self.ctx.branch(MLs.is_('lnil', cur.t), 'claims empty'):
                        return None
                    top = SV(MLs.get('lcons', 'lhd', cur.t), 'mpat')
                    pl.set(SV(MLs.get('lcons', 'ltl', cur.t), 'claims'))
                    return ('Some', top)
                raise Unsupported(f'pop on {k}')
            if m == 'clear':
                nil = {'stack': TLs.mk('tnil'), 'mem': TLs.mk('tnil'), 'claims': MLs.mk('lnil'), 'idl': IDL.mk('inil'),
                       'mlist': MLs.mk('lnil')}[k]
                pl.set(SV(nil, k))
                return ()
        raise Unsupported(f'mutating method {m} on {cur!r}')

    def iter_next(self, it, pl=None):
        r = it.rest
        if isinstance(r, SV) and r.kind == 'idl':
            if self.ctx.branch(IDL.is_('inil', r.t), 'input exhausted'):
                return None
            hd = IDL.get('icons', 'ihd', r.t)
            tl = IDL.get('icons', 'itl', r.t)
            if ctor_of(r.t):
                hd, tl = z3.simplify(hd), z3.simplify(tl)
            it.rest = SV(tl, 'idl')
            return ('Some', SV(hd, 'int'))
        raise Unsupported('iterator over non-list')

    def method(self, recv, m, args, env):
        # --- no-ops of the lowering
        if m in ('clone', 'as_ref', 'iter', 'into_iter', 'copied', 'cloned', 'borrow', 'to_vec', 'as_slice'):
            if m in ('iter', 'into_iter') and isinstance(recv, SV) and recv.kind == 'idl' and self.opts.get('iter_objects') \
                    and self.fn_stack and self.fn_stack[-1]['name'] in self.opts.get('iter_fns', ('execute_instructions',)):
                return RIter(recv)
            return recv
        # --- Option
        if m in ('expect', 'unwrap'):
            if recv is None:
                self.panic(m)
            if isinstance(recv, tuple) and recv and recv[0] == 'Some':
                return recv[1]
            raise Unsupported(f'{m} on {recv!r}')
        if isinstance(recv, UVec) and m == 'is_empty':
            return True
        if m in ('map', 'and_then') and (recv is None or (isinstance(recv, tuple) and recv and recv[0] == 'Some')):
            if recv is None:
                return None
            clo = self.deref(args[0])
            if not isinstance(clo, RClosure):
                raise Unsupported(f'Option::{m} with a non-closure argument')
            r = self.call_closure(clo, [recv[1]])
            return ('Some', r) if m == 'map' else r
        if m == 'unwrap_or' and (recv is None or (isinstance(recv, tuple) and recv and recv[0] == 'Some')):
            return self.deref(args[0]) if recv is None else recv[1]
        if m == 'is_none':
            return recv is None
        if m == 'is_some':
            return recv is not None
        # --- Pattern methods (impl Pattern) -> real function / contract
        if isinstance(recv, SV) and recv.kind == 'mpat':
            name = f'Pattern::{m}'
            if name in self.prog.fns or name in self.contracts:
                return self.call_fn(name, args, selfv=recv)
            raise Unsupported(f'Pattern method {m}')
        # --- lists
        if isinstance(recv, SV) and recv.kind in ('idl', 'mlist', 'stack', 'mem', 'claims'):
            k = recv.kind
            if m == 'len':
                ln = {'idl': spec.il_len, 'mlist': spec.ml_len, 'mem': spec.tl_len, 'stack': spec.tl_len, 'claims': spec.ml_len}[k]
                return SV(ln(recv.t), 'int')
            if m == 'is_empty':
                if k == 'idl':
                    nil = IDL.is_('inil', recv.t)
                elif k in ('mlist', 'claims'):
                    nil = MLs.is_('lnil', recv.t)
                else:
                    nil = TLs.is_('tnil', recv.t)
                return SV(nil, 'bool')
            if m == 'contains' and k == 'idl':
                return SV(spec.mem(self.zint(args[0]), recv.t), 'bool')
            if m == 'last' and k == 'stack':
                if self.ctx.branch(TLs.is_('tnil', recv.t), 'stack empty'):
                    return None
                return ('Some', SV(TLs.get('tcons', 'thd', recv.t), 'term'))
            if m in ('position', 'rposition', 'find', 'any', 'all') and k == 'idl':
                return self.list_hof(recv, m, self.deref(args[0]))
        if isinstance(recv, tuple) and recv and recv[0] == 'take' and m == 'for_each':
            return self.take_for_each(recv[1], recv[2], self.deref(args[0]), env)
        if isinstance(recv, tuple) and recv and recv[0] == 'take' and m == 'collect':
            # iterator.take(n).collect(): up to n elements -- silently fewer when the input ends
            it = self.deref(recv[1].get())
            if isinstance(it, RIter) and isinstance(it.rest, SV) and it.rest.kind == 'idl':
                n = self.zint(recv[2])
                lst = spec.il_take(n, it.rest.t)
                it.rest = SV(spec.il_drop(n, it.rest.t), 'idl')
                return SV(lst, 'idl')
        if isinstance(recv, RIter) and m == 'next':
            return self.iter_next(recv)
        if isinstance(recv, RIter) and m in ('position', 'rposition', 'find', 'any', 'all'):
            return self.list_hof(recv.rest, m, self.deref(args[0]))
        raise Unsupported(f'method {m} on {recv!r}')

    # closures over id lists: only the shapes with a first-order meaning that the contracts can speak about
    def list_hof(self, lst, m, clo):
        if not isinstance(clo, RClosure):
            raise Unsupported(f'{m} with non-closure')
        x = self.ctx.fresh('int', 'elem')
        res = self.call_closure(clo, [x])
        res = self.deref(res)
        if isinstance(res, bool):
            res = SV(z3.BoolVal(res), 'bool')
        if not (isinstance(res, SV) and res.kind == 'bool'):
            raise Unsupported(f'{m}: closure result {res!r}')
        c = z3.simplify(res.t)
        if m in ('position', 'rposition'):
            # |&x| x == e   (e independent of x)  ->  Some(index of the first / last e) if e in list else None
            if z3.is_eq(c):
                a, b = c.arg(0), c.arg(1)
                other = b if a.eq(x.t) else (a if b.eq(x.t) else None)
                if other is not None and not _occurs(x.t, other):
                    if self.ctx.branch(spec.mem(other, lst.t), 'position: found'):
                        return ('Some', SV((spec.il_index if m == 'position' else spec.il_rindex)(lst.t, other), 'int'))
                    return None
            raise Unsupported('position with a closure that is not an equality test')
        hook = self.opts.get('hof')
        if hook is not None:
            r = hook(self, lst, m, x, c)
            if r is not NotImplemented:
                return r
        raise Unsupported(f'{m} over a symbolic list with closure {c}')

    def take_for_each(self, pl, n, clo, env):
        lc = self.loop_contracts.get((self.fn_stack[-1]['name'], 'take.for_each'))
        if lc is None:
            raise Unsupported('iterator.take(n).for_each without loop contract')
        return lc.run(self, pl, n, clo, env)

    # ---- loops ---------------------------------------------------------------------------------------------------------
    def e_whilelet(self, e, env):
        lc = self.loop_contracts.get((self.fn_stack[-1]['name'], 'while-let'))
        if lc is not None:
            return lc.run(self, e, env)
        n = 0
        while True:
            v = self.ev(e['e'], env)
            e2 = REnv(env)
            if not self.bind(e['pat'], v, e2):
                return ()
            n += 1
            if n > self.opts.get('max_unroll', 40):
                raise Unsupported('while-let without loop contract exceeds the unrolling bound')
            try:
                self.block(e['body'], e2)
            except _Brk:
                return ()
            except _Cont:
                continue

    def e_for(self, e, env):
        lc = self.loop_contracts.get((self.fn_stack[-1]['name'], 'for'))
        it = self.ev(e['iter'], env)
        if lc is not None:
            return lc.run(self, e, it, env)
        it = self.deref(it)
        if isinstance(it, tuple) and it and it[0] == 'take' and (self.fn_stack[-1]['name'], 'take.for_each') in self.loop_contracts:
            # `for x in iterator.take(n) { body }` is `iterator.take(n).for_each(|x| { body })` as long as the body neither breaks nor returns
            if _has_jump(e['body']):
                raise Unsupported('for over iterator.take(n) whose body breaks / continues / returns')
            clo = RClosure({'k': 'closure', 'line': e.get('line'), 'params': [e['pat']],
                            'body': {'k': 'blockexpr', 'line': e.get('line'), 'block': e['body']}, 'move': False}, env)
            return self.take_for_each(it[1], it[2], clo, env)
        if isinstance(it, tuple) and it and it[0] == 'range' and isinstance(it[1], int) and isinstance(it[2], int):
            for i in range(it[1], it[2]):
                e2 = REnv(env)
                self.bind(e['pat'], i, e2)
                try:
                    self.block(e['body'], e2)
                except _Brk:
                    break
                except _Cont:
                    continue
            return ()
        raise Unsupported('for loop over a symbolic range without loop contract')

    def e_while(self, e, env):
        raise Unsupported('while loop')

    def e_loop(self, e, env):
        raise Unsupported('loop')


def _has_jump(n):
    if isinstance(n, dict):
        if n.get('k') in ('break', 'continue', 'return', 'try'):
            return True
        if n.get('k') == 'closure':
            return False
        return any(_has_jump(v) for v in n.values())
    if isinstance(n, (list, tuple)):
        return any(_has_jump(v) for v in n)
    return False


def _occurs(x, t):
    stack, seen = [t], set()
    while stack:
        e = stack.pop()
        if e.get_id() in seen:
            continue
        seen.add(e.get_id())
        if e.eq(x):
            return True
        if z3.is_app(e):
            stack.extend(e.children())
    return False
