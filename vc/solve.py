"""Discharging one verification condition: z3 5.1 first, cvc5 (CLI, SMT-LIB export) for z3's unknowns.

prove(assumptions, goal) -> Verdict(status in proved/refuted/unknown, backend, seconds, model)
"""
import os
import subprocess
import tempfile
import time
import z3

Z3_TIMEOUT_MS = int(os.environ.get('VC_Z3_TIMEOUT_MS', '20000'))
CVC5_TIMEOUT_S = int(os.environ.get('VC_CVC5_TIMEOUT_S', '20'))
CVC5 = '/usr/bin/cvc5'


class Verdict:
    def __init__(self, status, backend, seconds, model=None, detail=''):
        self.status = status
        self.backend = backend
        self.seconds = seconds
        self.model = model
        self.detail = detail

    def __repr__(self):
        return f'<{self.status} by {self.backend} in {self.seconds:.3f}s>'


def _mk_solver(timeout_ms, seed):
    s = z3.Solver()
    s.set('timeout', timeout_ms)
    s.set('random_seed', seed)
    return s


def to_smt2(assumptions, goal):
    s = z3.Solver()
    for a in assumptions:
        s.add(a)
    s.add(z3.Not(goal))
    return s.to_smt2()


def run_cvc5(smt2, timeout_s=None):
    timeout_s = timeout_s or CVC5_TIMEOUT_S
    txt = '(set-logic ALL)\n' + smt2
    with tempfile.NamedTemporaryFile('w', suffix='.smt2', delete=False) as f:
        f.write(txt)
        fn = f.name
    try:
        t0 = time.time()
        try:
            out = subprocess.run([CVC5, '--tlimit=%d' % (timeout_s * 1000), '--fmf-fun', fn], capture_output=True, text=True,
                                 timeout=timeout_s + 5).stdout.strip()
        except subprocess.TimeoutExpired:
            out = 'timeout'
        dt = time.time() - t0
    finally:
        os.unlink(fn)
    first = out.split('\n')[0] if out else ''
    return first, dt, out


def prove(assumptions, goal, seed=0, timeout_ms=None, use_cvc5=True, both=False, lemmas=None, split_depth=0, deepen=2):
    """prove1 + iterative deepening of the definitional case split when refuted: a counter-model found with stuck spec
    applications may be spurious; unfolding them further either turns the verdict into `proved` or makes the model concrete."""
    v = prove1(assumptions, goal, seed, timeout_ms, use_cvc5, both, lemmas, split_depth)
    d = split_depth
    while v.status == 'refuted' and d < split_depth + deepen:
        d += 1
        v2 = prove1(assumptions, goal, seed, timeout_ms, False, False, lemmas, d)
        if v2.status == 'unknown':
            break
        v2.seconds += v.seconds
        v = v2
    return v


def prove1(assumptions, goal, seed=0, timeout_ms=None, use_cvc5=True, both=False, lemmas=None, split_depth=0):
    """Validity of (/\\ assumptions) => goal.  Spec functions are unfolded by rewriting (vc/norm.py); proved
    lemmas are instantiated by trigger matching on the unfolded terms (vc/lemmas.py)."""
    from . import norm, lemmas as lem
    t0 = time.time()
    norm.set_rules(lemmas)
    assumptions, goal = norm.prep(assumptions, goal, split_depth=split_depth)
    if lemmas:
        n = norm.Normalizer()
        assumptions, gs = saturate(assumptions, [goal], lemmas, n)
        goal = gs[0]
    s = _mk_solver(timeout_ms or Z3_TIMEOUT_MS, seed)
    for a in assumptions:
        s.add(a)
    s.add(z3.Not(goal))
    r = s.check()
    dt = time.time() - t0
    if r == z3.unsat:
        v = Verdict('proved', 'z3', dt)
    elif r == z3.sat:
        v = Verdict('refuted', 'z3', dt, model=s.model())
    else:
        v = Verdict('unknown', 'z3', dt, detail=s.reason_unknown())
    if (v.status == 'unknown' and use_cvc5) or both:
        first, dt2, out = run_cvc5(to_smt2(assumptions, goal))
        if first == 'unsat':
            if v.status == 'refuted':
                return Verdict('unknown', 'z3+cvc5', dt + dt2, detail='solvers disagree: z3 sat, cvc5 unsat')
            return Verdict('proved', 'cvc5' if v.status == 'unknown' else 'z3+cvc5', dt + dt2)
        if first == 'sat' and v.status == 'proved':
            return Verdict('unknown', 'z3+cvc5', dt + dt2, detail='solvers disagree: z3 unsat, cvc5 sat')
        if v.status == 'unknown':
            v = Verdict('unknown', 'z3+cvc5', dt + dt2, detail=v.detail + ' / cvc5: ' + first)
    return v


def saturate(nas, ngs, lemmas, n, rounds=4):
    """Lemma instantiation + conditional rewriting: an instance  H => lhs == rhs  of a `crewrite` lemma whose H is entailed by the
    current assumptions replaces lhs by rhs everywhere (equals for equals), which lets further triggers match syntactically."""
    from . import lemmas as lem
    nas, ngs = list(nas), list(ngs)
    seen = set()
    allsubs = []
    for _ in range(rounds):
        inst, tags = lem.instantiate(lemmas, nas + ngs, tagged=True)
        inst = [n.norm(i) for i in inst]
        subs = []
        base = nas + inst
        for f, lm in zip(inst, tags):
            if not getattr(lm, 'crewrite', False):
                continue
            hyp, eq = (f.arg(0), f.arg(1)) if z3.is_implies(f) else (None, f)
            if not z3.is_eq(eq) or eq.arg(0).eq(eq.arg(1)):
                continue
            key = eq.get_id()
            if key in seen:
                continue
            if hyp is not None:
                sv = _mk_solver(1500, 0)
                for a in base:
                    sv.add(a)
                sv.add(z3.Not(hyp))
                if sv.check() != z3.unsat:
                    continue
            seen.add(key)
            subs.append((eq.arg(0), eq.arg(1)))
            allsubs.append((eq.arg(0), eq.arg(1)))
            nas.append(eq)
        nas = nas + [i for i in inst if not any(i.eq(a) for a in nas[-len(inst):])] if not subs else nas + inst
        if not subs:
            break
        for _k in range(3):     # equations found earlier also apply to terms introduced by later replacements
            nas2 = [n.norm(z3.substitute(a, *allsubs)) for a in nas]
            ngs2 = [n.norm(z3.substitute(g, *allsubs)) for g in ngs]
            same = all(x.eq(y) for x, y in zip(nas + ngs, nas2 + ngs2))
            nas, ngs = nas2, ngs2
            if same:
                break
    return nas, ngs


def prove_group(assumptions, goals, seed=0, timeout_ms=None, use_cvc5=True, both=False, lemmas=None, split_depth=0):
    """Several goals under the same assumptions: unfolding and lemma instantiation are done once for the group."""
    from . import norm, lemmas as lem
    t0 = time.time()
    norm.set_rules(lemmas)
    n = norm.shared_normalizer()
    nas, ngs = norm.prep_many(assumptions, goals, split_depth=split_depth, normalizer=n)
    if lemmas:
        nas, ngs = saturate(nas, ngs, lemmas, n)
    s = _mk_solver(timeout_ms or Z3_TIMEOUT_MS, seed)
    for a in nas:
        s.add(a)
    prep_s = (time.time() - t0) / max(1, len(goals))
    out = []
    for g in ngs:
        t1 = time.time()
        s.push()
        s.add(z3.Not(g))
        r = s.check()
        dt = time.time() - t1 + prep_s
        if r == z3.unsat:
            v = Verdict('proved', 'z3', dt)
        elif r == z3.sat:
            v = Verdict('refuted', 'z3', dt, model=s.model())
        else:
            v = Verdict('unknown', 'z3', dt, detail=s.reason_unknown())
        s.pop()
        if (v.status == 'unknown' and use_cvc5) or both:
            first, dt2, _ = run_cvc5(to_smt2(nas, g))
            if first == 'unsat':
                v = (Verdict('unknown', 'z3+cvc5', dt + dt2, detail='solvers disagree: z3 sat, cvc5 unsat') if v.status == 'refuted'
                     else Verdict('proved', 'cvc5' if v.status == 'unknown' else 'z3+cvc5', dt + dt2))
            elif first == 'sat' and v.status == 'proved':
                v = Verdict('unknown', 'z3+cvc5', dt + dt2, detail='solvers disagree: z3 unsat, cvc5 sat')
            elif v.status == 'unknown':
                v = Verdict('unknown', 'z3+cvc5', dt + dt2, detail=v.detail + ' / cvc5: ' + first)
        out.append(v)
    # a counter-model found with stuck spec applications may be spurious: deepen the definitional case split for refuted goals (as prove does)
    for i, v in enumerate(out):
        if v.status == 'refuted':
            v2 = prove(assumptions, goals[i], seed, timeout_ms, False, False, lemmas, split_depth + 1, deepen=1)
            if v2.status != 'unknown':
                v2.seconds += v.seconds
                out[i] = v2
    return out


def feasible(assumptions, timeout_ms=2000):
    """Is the conjunction satisfiable?  unknown counts as feasible (only adds paths, never removes one)."""
    from . import norm
    try:
        assumptions, _ = norm.prep(assumptions, z3.BoolVal(True))
    except Exception:
        pass
    s = _mk_solver(timeout_ms, 0)
    for a in assumptions:
        s.add(a)
    return s.check() != z3.unsat


def ceval(e):
    from . import norm
    return norm.ceval(e)
