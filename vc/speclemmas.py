"""Library of lemmas over the spec functions (each proved by induction on every run that uses it)."""
import z3
from .sorts import *  # noqa
from .spec import *  # noqa
from .lemmas import Lemma

phi, psi = z3.Const('phi', MPat), z3.Const('psi', MPat)
X, Y = z3.Int('X'), z3.Int('Y')
m_ = z3.Const('m_', MMap)
pm_ = z3.Const('pm_', PMap)
kk = z3.Int('kk')
pp_ = z3.Const('pp_', PPat)
il_ = z3.Const('il_', IdL)

LIB = {}


def L(name, vars, stmt, **kw):
    lm = Lemma(name, vars, stmt, **kw)
    LIB[name] = lm
    return lm


# --- free variables of a (naive) substitution -----------------------------------------------------------------
L('fve_subst_e', [phi, Y, psi, X],
  z3.Implies(fve(subst_e(phi, Y, psi), X), z3.Or(z3.And(fve(phi, X), X != Y), fve(psi, X))),
  ind=phi, triggers=[fve(subst_e(phi, Y, psi), X)])
L('fve_subst_s', [phi, Y, psi, X],
  z3.Implies(fve(subst_s(phi, Y, psi), X), z3.Or(fve(phi, X), fve(psi, X))),
  ind=phi, triggers=[fve(subst_s(phi, Y, psi), X)])
L('fvs_subst_e', [phi, Y, psi, X],
  z3.Implies(fvs(subst_e(phi, Y, psi), X), z3.Or(fvs(phi, X), fvs(psi, X))),
  ind=phi, triggers=[fvs(subst_e(phi, Y, psi), X)])
L('fvs_subst_s', [phi, Y, psi, X],
  z3.Implies(fvs(subst_s(phi, Y, psi), X), z3.Or(z3.And(fvs(phi, X), X != Y), fvs(psi, X))),
  ind=phi, triggers=[fvs(subst_s(phi, Y, psi), X)])

# --- polarity: a variable that does not occur free is both positive and negative -------------------------------
_pn1 = Lemma('notfree_pos', [phi, X], z3.Implies(z3.Not(fvs(phi, X)), pos(phi, X)), ind=phi, triggers=[pos(phi, X)])
_pn2 = Lemma('notfree_neg', [phi, X], z3.Implies(z3.Not(fvs(phi, X)), neg(phi, X)), ind=phi, triggers=[neg(phi, X)])
_pn1.companions = [_pn2]
LIB['notfree_pos'] = _pn1
LIB['notfree_neg'] = _pn2

# --- polarity under element substitution: plug has no free X --------------------------------------------------------
_pe1 = Lemma('pos_subst_e', [phi, Y, psi, X],
             z3.Implies(z3.And(pos(phi, X), z3.Not(fvs(psi, X))), pos(subst_e(phi, Y, psi), X)),
             ind=phi, triggers=[pos(subst_e(phi, Y, psi), X)], uses=['notfree_pos', 'notfree_neg'])
_pe2 = Lemma('neg_subst_e', [phi, Y, psi, X],
             z3.Implies(z3.And(neg(phi, X), z3.Not(fvs(psi, X))), neg(subst_e(phi, Y, psi), X)),
             ind=phi, triggers=[neg(subst_e(phi, Y, psi), X)], uses=['notfree_pos', 'notfree_neg'])
_pe1.companions = [_pe2]
LIB['pos_subst_e'] = _pe1
LIB['neg_subst_e'] = _pe2

# --- polarity under set substitution (the rule of the document / the checker's SSubst arm) ---------------------------
_PP = z3.Or(z3.Not(fvs(psi, X)), z3.And(pos(phi, Y), pos(psi, X)), z3.And(neg(phi, Y), neg(psi, X)))
_NP = z3.Or(z3.Not(fvs(psi, X)), z3.And(pos(phi, Y), neg(psi, X)), z3.And(neg(phi, Y), pos(psi, X)))
_ps1 = Lemma('pos_subst_s', [phi, Y, psi, X],
             z3.Implies(z3.And(z3.Or(X == Y, pos(phi, X)), _PP), pos(subst_s(phi, Y, psi), X)),
             ind=phi, triggers=[pos(subst_s(phi, Y, psi), X)], uses=['notfree_pos', 'notfree_neg'])
_ps2 = Lemma('neg_subst_s', [phi, Y, psi, X],
             z3.Implies(z3.And(z3.Or(X == Y, neg(phi, X)), _NP), neg(subst_s(phi, Y, psi), X)),
             ind=phi, triggers=[neg(subst_s(phi, Y, psi), X)], uses=['notfree_pos', 'notfree_neg'])
_ps1.companions = [_ps2]
LIB['pos_subst_s'] = _ps1
LIB['neg_subst_s'] = _ps2

# --- constraint lists -----------------------------------------------------------------------------------------------
L('all_efresh_mem', [il_, psi, X], z3.Implies(z3.And(all_efresh(il_, psi), mem(X, il_)), z3.Not(fve(psi, X))),
  ind=il_, triggers=[[all_efresh(il_, psi), mem(X, il_)]])
L('all_sfresh_mem', [il_, psi, X], z3.Implies(z3.And(all_sfresh(il_, psi), mem(X, il_)), z3.Not(fvs(psi, X))),
  ind=il_, triggers=[[all_sfresh(il_, psi), mem(X, il_)]])
L('all_pos_mem', [il_, psi, X], z3.Implies(z3.And(all_pos(il_, psi), mem(X, il_)), pos(psi, X)),
  ind=il_, triggers=[[all_pos(il_, psi), mem(X, il_)]])
L('all_neg_mem', [il_, psi, X], z3.Implies(z3.And(all_neg(il_, psi), mem(X, il_)), neg(psi, X)),
  ind=il_, triggers=[[all_neg(il_, psi), mem(X, il_)]])

# --- maps -------------------------------------------------------------------------------------------------------------
L('pmwf_get', [pm_, kk], z3.Implies(z3.And(pmwf(pm_), phas(pm_, kk)), pwf(pget(pm_, kk))),
  ind=pm_, triggers=[pget(pm_, kk)])
L('expandmap_has', [pm_, kk], mhas(expandmap(pm_), kk) == phas(pm_, kk), ind=pm_,
  triggers=[phas(pm_, kk), mhas(expandmap(pm_), kk)])
L('expandmap_get', [pm_, kk], z3.Implies(phas(pm_, kk), mget(expandmap(pm_), kk) == expand(pget(pm_, kk))), ind=pm_,
  triggers=[pget(pm_, kk), mget(expandmap(pm_), kk)])
L('expandmap_nil', [pm_], (expandmap(pm_) == MMp.mk('mnil')) == (pm_ == PMp.mk('pnil')), nonind=True,
  triggers=[expandmap(pm_)])

# --- well-formedness is preserved; instantiating with the empty map is the identity --------------------------------------
L('wf_msubst_e', [phi, Y, psi], z3.Implies(z3.And(wf_py(phi), wf_py(psi)), wf_py(msubst_e_py(phi, Y, psi))),
  ind=phi, triggers=[msubst_e_py(phi, Y, psi)])
L('wf_msubst_s', [phi, Y, psi], z3.Implies(z3.And(wf_py(phi), wf_py(psi)), wf_py(msubst_s_py(phi, Y, psi))),
  ind=phi, triggers=[msubst_s_py(phi, Y, psi)])
L('mwf_get', [m_, kk], z3.Implies(z3.And(mwf(m_), mhas(m_, kk)), wf_py(mget(m_, kk))), ind=m_, triggers=[mget(m_, kk)])
L('wf_minst', [phi, m_], z3.Implies(z3.And(wf_py(phi), mwf(m_)), wf_py(minst_py(phi, m_))),
  ind=phi, triggers=[minst_py(phi, m_)], uses=['wf_msubst_e', 'wf_msubst_s', 'mwf_get'])
_we = Lemma('pwf_expand', [pp_], z3.Implies(pwf(pp_), wf_py(expand(pp_))), ind=pp_, triggers=[expand(pp_)],
            uses=['wf_minst'], split_depth=1)
_wm = Lemma('pmwf_expandmap', [pm_], z3.Implies(pmwf(pm_), mwf(expandmap(pm_))), ind=pm_, triggers=[expandmap(pm_)],
            uses=['wf_minst'])
_we.companions = [_wm]
LIB['pwf_expand'] = _we
LIB['pmwf_expandmap'] = _wm
L('minst_nil', [phi], z3.Implies(wf_py(phi), minst_py(phi, MMp.mk('mnil')) == phi), ind=phi,
  triggers=[minst_py(phi, MMp.mk('mnil'))], split_depth=1)

# --- maps: update, inclusion, monotonicity of instantiation (matching, C13) ------------------------------------------------------
m2_ = z3.Const('m2_', MMap)
m3_ = z3.Const('m3_', MMap)
pv_ = z3.Const('pv_', PPat)
L('expandmap_pset', [pm_, kk, pv_], expandmap(pset(pm_, kk, pv_)) == mset(expandmap(pm_), kk, expand(pv_)), ind=pm_,
  triggers=[pset(pm_, kk, pv_)], rewrite=True)
L('pmwf_pset', [pm_, kk, pv_], z3.Implies(z3.And(pmwf(pm_), pwf(pv_)), pmwf(pset(pm_, kk, pv_))), ind=pm_,
  triggers=[pset(pm_, kk, pv_)])
L('mset_has', [m_, kk, psi, X], mhas(mset(m_, kk, psi), X) == z3.Or(X == kk, mhas(m_, X)), ind=m_,
  triggers=[mhas(mset(m_, kk, psi), X)], rewrite=True)
L('mset_get', [m_, kk, psi, X], mget(mset(m_, kk, psi), X) == z3.If(X == kk, psi, mget(m_, X)), ind=m_,
  triggers=[mget(mset(m_, kk, psi), X)], rewrite=True)
L('mset_distinct', [m_, kk, psi], z3.Implies(mdistinct(m_), mdistinct(mset(m_, kk, psi))), ind=m_,
  triggers=[mset(m_, kk, psi)], uses=['mset_has'])
L('submap_get', [m_, m2_, X], z3.Implies(z3.And(submap(m_, m2_), mhas(m_, X)),
                                         z3.And(mhas(m2_, X), mget(m2_, X) == mget(m_, X))), ind=m_,
  triggers=[[submap(m_, m2_), mhas(m_, X)], [submap(m_, m2_), mget(m_, X)]])
L('submap_trans', [m_, m2_, m3_], z3.Implies(z3.And(submap(m_, m2_), submap(m2_, m3_)), submap(m_, m3_)), ind=m_,
  triggers=[[submap(m_, m2_), submap(m2_, m3_)]], uses=['submap_get'])
L('submap_mset', [m_, m2_, kk, psi], z3.Implies(z3.And(submap(m_, m2_), z3.Not(mhas(m_, kk))), submap(m_, mset(m2_, kk, psi))),
  ind=m_, triggers=[[submap(m_, m2_), mset(m2_, kk, psi)]], uses=['mset_has', 'mset_get'])
L('submap_cons', [m_, m2_, kk, psi], z3.Implies(z3.And(submap(m_, m2_), z3.Not(mhas(m_, kk))),
                                                 submap(m_, MMp.mk('mcons', kk, psi, m2_))), ind=m_,
  triggers=[submap(m_, MMp.mk('mcons', kk, psi, m2_))])
L('submap_refl', [m_], z3.Implies(mdistinct(m_), submap(m_, m_)), ind=m_, triggers=[submap(m_, m_)], uses=['submap_cons'])
L('submap_self_mset', [m_, kk, psi], z3.Implies(z3.And(mdistinct(m_), z3.Not(mhas(m_, kk))), submap(m_, mset(m_, kk, psi))),
  nonind=True, triggers=[mset(m_, kk, psi)], hints=[('submap_refl', [m_]), ('submap_mset', [m_, m_, kk, psi])])
L('covers_mono', [phi, m_, m2_], z3.Implies(z3.And(covers(phi, m_), submap(m_, m2_)), covers(phi, m2_)), ind=phi,
  triggers=[[covers(phi, m_), submap(m_, m2_)]], uses=['submap_get'])
L('minst_mono', [phi, m_, m2_], z3.Implies(z3.And(covers(phi, m_), submap(m_, m2_)), minst_py(phi, m_) == minst_py(phi, m2_)),
  ind=phi, triggers=[[covers(phi, m_), submap(m_, m2_)]], uses=['submap_get'])
L('submap_mset_left', [m_, m2_, kk, psi], z3.Implies(z3.And(submap(m_, m2_), mhas(m2_, kk), mget(m2_, kk) == psi),
                                                      submap(mset(m_, kk, psi), m2_)), ind=m_,
  triggers=[submap(mset(m_, kk, psi), m2_)])
L('submap_get_p', [pm_, m2_, X], z3.Implies(z3.And(submap(expandmap(pm_), m2_), phas(pm_, X)),
                                            z3.And(mhas(m2_, X), mget(m2_, X) == expand(pget(pm_, X)))),
  nonind=True, triggers=[[submap(expandmap(pm_), m2_), phas(pm_, X)]],
  hints=[('submap_get', [expandmap(pm_), m2_, X]), ('expandmap_has', [pm_, X]), ('expandmap_get', [pm_, X])])

# --- rust side: well-formedness, zip of (vars, plugs) -------------------------------------------------------------------------------
vs__ = z3.Const('vs__', IdL)
ps__ = z3.Const('ps__', ML)
L('wf_msubst_e_rs', [phi, Y, psi], z3.Implies(z3.And(wf_rs(phi), wf_rs(psi)), wf_rs(msubst_e_rs(phi, Y, psi))),
  ind=phi, triggers=[msubst_e_rs(phi, Y, psi)])
L('wf_msubst_s_rs', [phi, Y, psi], z3.Implies(z3.And(wf_rs(phi), wf_rs(psi)), wf_rs(msubst_s_rs(phi, Y, psi))),
  ind=phi, triggers=[msubst_s_rs(phi, Y, psi)])
_tl_ps = lambda f, val, vars: [[(vars[1], MLs.get('lcons', 'ltl', vars[1]))]]
L('mzip_has_mem', [vs__, ps__, kk], z3.Implies(mhas(mzip(vs__, ps__), kk), mem(kk, vs__)), ind=vs__,
  triggers=[mhas(mzip(vs__, ps__), kk)], ih_extra=_tl_ps)
L('mzip_get', [vs__, ps__, kk], z3.Implies(z3.And(mem(kk, vs__), il_index(vs__, kk) < ml_len(ps__)),
                                           z3.And(mhas(mzip(vs__, ps__), kk),
                                                  mget(mzip(vs__, ps__), kk) == ml_nth(ps__, il_index(vs__, kk)))),
  ind=vs__, triggers=[[mzip(vs__, ps__), il_index(vs__, kk)]], ih_extra=_tl_ps, split_depth=2, uses=['il_index_nonneg', 'ml_len_nonneg'])
L('ml_len_nonneg', [ps__], ml_len(ps__) >= 0, ind=ps__, triggers=[ml_len(ps__)])
L('il_index_nonneg', [vs__, kk], il_index(vs__, kk) >= 0, ind=vs__, triggers=[il_index(vs__, kk)])
L('minst_rs_nohit', [phi, vs__, ps__], z3.Implies(z3.And(wf_rs(phi), z3.Not(mv_hit(phi, vs__))),
                                                  minst_rs(phi, mzip(vs__, ps__)) == phi), ind=phi,
  triggers=[minst_rs(phi, mzip(vs__, ps__))], uses=['mzip_has_mem'], split_depth=1)
L('ml_all_wf_nth', [ps__, kk], z3.Implies(z3.And(ml_all_wf(ps__), kk >= 0, kk < ml_len(ps__)), wf_rs(ml_nth(ps__, kk))), ind=ps__,
  triggers=[ml_nth(ps__, kk)], ih_extra=lambda f, val, vars: [[(vars[1], vars[1] - 1)]], split_depth=1)
tl__ = z3.Const('tl__', TL)
tt__ = z3.Const('tt__', Term)
L('il_len_snoc', [vs__, kk], il_len(il_snoc(vs__, kk)) == il_len(vs__) + 1, ind=vs__, triggers=[il_len(il_snoc(vs__, kk))], rewrite=True)
L('ml_len_snoc', [ps__, psi], ml_len(ml_snoc(ps__, psi)) == ml_len(ps__) + 1, ind=ps__, triggers=[ml_len(ml_snoc(ps__, psi))], rewrite=True)
L('tl_len_snoc', [tl__, tt__], tl_len(tl_snoc(tl__, tt__)) == tl_len(tl__) + 1, ind=tl__, triggers=[tl_len(tl_snoc(tl__, tt__))], rewrite=True)
L('ml_all_wf_snoc', [ps__, psi], ml_all_wf(ml_snoc(ps__, psi)) == z3.And(ml_all_wf(ps__), wf_rs(psi)), ind=ps__,
  triggers=[ml_all_wf(ml_snoc(ps__, psi))], rewrite=True)
L('tl_all_wf_snoc', [tl__, tt__], tl_all_wf(tl_snoc(tl__, tt__)) == z3.And(tl_all_wf(tl__), wf_rs(z3.If(TRM.is_('Pat', tt__), TRM.get('Pat', 'pat', tt__), TRM.get('Prf', 'prf', tt__)))),
  ind=tl__, triggers=[tl_all_wf(tl_snoc(tl__, tt__))], rewrite=True)
L('tl_all_wf_nth', [tl__, kk], z3.Implies(z3.And(tl_all_wf(tl__), kk >= 0, kk < tl_len(tl__)),
                                          wf_rs(z3.If(TRM.is_('Pat', tl_nth(tl__, kk)), TRM.get('Pat', 'pat', tl_nth(tl__, kk)), TRM.get('Prf', 'prf', tl_nth(tl__, kk))))),
  ind=tl__, triggers=[tl_nth(tl__, kk)], ih_extra=lambda f, val, vars: [[(vars[1], vars[1] - 1)]], split_depth=1)
L('tl_len_nonneg', [tl__], tl_len(tl__) >= 0, ind=tl__, triggers=[tl_len(tl__)])
L('il_len_nonneg', [vs__], il_len(vs__) >= 0, ind=vs__, triggers=[il_len(vs__)])
L('wf_minst_rs', [phi, m_], z3.Implies(z3.And(wf_rs(phi), mwf_rs(m_)), wf_rs(minst_rs(phi, m_))),
  ind=phi, triggers=[minst_rs(phi, m_)], uses=['wf_msubst_e_rs', 'wf_msubst_s_rs', 'mwf_rs_get'])
L('mwf_rs_get', [m_, kk], z3.Implies(z3.And(mwf_rs(m_), mhas(m_, kk)), wf_rs(mget(m_, kk))), ind=m_, triggers=[mget(m_, kk)])
L('mwf_rs_zip', [vs__, ps__], z3.Implies(ml_all_wf(ps__), mwf_rs(mzip(vs__, ps__))), ind=vs__, triggers=[mzip(vs__, ps__)],
  ih_extra=_tl_ps, split_depth=1)

# --- serializer <-> machine: reading back what was written; memory index ---------------------------------------------------------------
from . import sm as _sm
acc__ = z3.Const('acc__', IdL)
rest__ = z3.Const('rest__', IdL)
L('il_cat_snoc', [vs__, kk, rest__], il_cat(il_snoc(vs__, kk), rest__) == il_cat(vs__, IDL.mk('icons', kk, rest__)), ind=vs__,
  triggers=[il_cat(il_snoc(vs__, kk), rest__)], rewrite=True)
L('il_cat_nil', [vs__], il_cat(vs__, IDL.mk('inil')) == vs__, ind=vs__, triggers=[il_cat(vs__, IDL.mk('inil'))], rewrite=True)
L('read_n_cat', [vs__, rest__, acc__], _sm.read_n(il_len(vs__), il_cat(vs__, rest__), acc__) == RDR.mk('rdone', il_cat(acc__, vs__), rest__),
  ind=vs__, triggers=[_sm.read_n(il_len(vs__), il_cat(vs__, rest__), acc__)], uses=['il_len_nonneg', 'il_cat_snoc', 'il_cat_nil'],
  ih_extra=lambda f, val, vars: [[(vars[2], il_snoc(vars[2], val.arg(0)))]], split_depth=1, rewrite=True)
L('tl_index_has', [tl__, tt__], z3.Implies(tl_has(tl__, tt__), z3.And(tl_index(tl__, tt__) >= 0, tl_index(tl__, tt__) < tl_len(tl__),
                                                                    tl_nth(tl__, tl_index(tl__, tt__)) == tt__)), ind=tl__,
  triggers=[tl_index(tl__, tt__)], uses=['tl_len_nonneg'])
L('read_n_all', [vs__, acc__], _sm.read_n(il_len(vs__), vs__, acc__) == RDR.mk('rdone', il_cat(acc__, vs__), IDL.mk('inil')), nonind=True,
  triggers=[_sm.read_n(il_len(vs__), vs__, acc__)], rewrite=True,
  hints=[('read_n_cat', [vs__, IDL.mk('inil'), acc__]), ('il_cat_nil', [vs__])])

# --- Instantiate: slices / views vs the machine's operand loop -------------------------------------------------------------------------
ptl__ = z3.Const('ptl__', PTL)
tlw__ = z3.Const('tlw__', TL)
tlr__ = z3.Const('tlr__', TL)
ids__ = z3.Const('ids__', IdL)
pls__ = z3.Const('pls__', ML)
nn__ = z3.Int('nn__')
mlq__ = z3.Const('mlq__', ML)
L('ml_cat_nil', [ps__], ml_cat(ps__, MLs.mk('lnil')) == ps__, ind=ps__, triggers=[ml_cat(ps__, MLs.mk('lnil'))], rewrite=True)
L('ml_cat_snoc', [ps__, psi, mlq__], ml_cat(ml_snoc(ps__, psi), mlq__) == ml_cat(ps__, MLs.mk('lcons', psi, mlq__)), ind=ps__,
  triggers=[ml_cat(ml_snoc(ps__, psi), mlq__)], rewrite=True)
L('ml_cat_nil_c', [ps__, mlq__], z3.Implies(MLs.is_('lnil', mlq__), ml_cat(ps__, mlq__) == ps__), ind=ps__, triggers=[ml_cat(ps__, mlq__)])
L('il_cat_nil_c', [vs__, rest__], z3.Implies(IDL.is_('inil', rest__), il_cat(vs__, rest__) == vs__), ind=vs__, triggers=[il_cat(vs__, rest__)])
L('ex_stack_lastn', [ptl__, nn__], ex_stack(ptl_lastn(ptl__, nn__)) == tl_taken(ex_stack(ptl__), nn__), ind=ptl__,
  triggers=[ex_stack(ptl_lastn(ptl__, nn__))], rewrite=True, ih_extra=lambda f, val, vars: [[(vars[1], vars[1] - 1)]], split_depth=1)
L('ex_stack_dropn', [ptl__, nn__], ex_stack(ptl_dropn(ptl__, nn__)) == tl_dropn(ex_stack(ptl__), nn__), ind=ptl__,
  triggers=[ex_stack(ptl_dropn(ptl__, nn__))], rewrite=True, ih_extra=lambda f, val, vars: [[(vars[1], vars[1] - 1)]], split_depth=1)
L('ex_stack_len', [ptl__], tl_len(ex_stack(ptl__)) == ptl_len(ptl__), ind=ptl__, triggers=[tl_len(ex_stack(ptl__))], rewrite=True)
# a list whose top-n segment is W (of length n) is W followed by the rest
L('tl_decompose', [tl__, nn__, tlw__], z3.Implies(z3.And(tl_taken(tl__, nn__) == tlw__, tl_len(tlw__) == nn__), tl__ == tl_cat(tlw__, tl_dropn(tl__, nn__))),
  ind=tl__, triggers=[[tl_taken(tl__, nn__), tl_len(tlw__)]], uses=['tl_len_nonneg'],
  ih_extra=lambda f, val, vars: [[(vars[1], vars[1] - 1), (vars[2], TLs.get('tcons', 'ttl', vars[2]))]], split_depth=2)
# the machine's operand loop on n = |K| ids followed by r, over a stack that starts with the all-Pattern segment W, |W| = |K|
L('take_acc_cat', [vs__, tlw__, rest__, tlr__, ids__, pls__],
  z3.Implies(z3.And(il_len(vs__) == tl_len(tlw__), tl_allpat(tlw__)),
             _sm.take_acc(tl_len(tlw__), il_cat(vs__, rest__), tl_cat(tlw__, tlr__), ids__, pls__) ==
             TKR.mk('tdone', il_cat(ids__, vs__), ml_cat(pls__, tl_pats(tlw__)), rest__, tlr__)),
  ind=vs__, triggers=[_sm.take_acc(tl_len(tlw__), il_cat(vs__, rest__), tl_cat(tlw__, tlr__), ids__, pls__)],
  uses=['il_len_nonneg', 'tl_len_nonneg', 'il_cat_snoc', 'il_cat_nil', 'ml_cat_snoc', 'ml_cat_nil', 'ml_cat_nil_c', 'il_cat_nil_c'],
  ih_extra=lambda f, val, vars: [[(vars[1], TLs.get('tcons', 'ttl', vars[1])), (vars[4], il_snoc(vars[4], val.arg(0))),
                                  (vars[5], ml_snoc(vars[5], TRM.get('Pat', 'pat', TLs.get('tcons', 'thd', vars[1]))))]], split_depth=3)
pt__ = z3.Const('pt__', PTerm)
L('ptl_len_bottom', [ptl__, pt__], ptl_len(ptl_bottom(ptl__, pt__)) == ptl_len(ptl__) + 1, ind=ptl__, triggers=[ptl_len(ptl_bottom(ptl__, pt__))], rewrite=True)
L('ex_stack_bottom', [ptl__, pt__], ex_stack(ptl_bottom(ptl__, pt__)) == tl_snoc(ex_stack(ptl__), ex_term(pt__)), ind=ptl__,
  triggers=[ex_stack(ptl_bottom(ptl__, pt__))], rewrite=True)
L('tl_allpat_snoc', [tl__, tt__], tl_allpat(tl_snoc(tl__, tt__)) == z3.And(tl_allpat(tl__), TRM.is_('Pat', tt__)), ind=tl__,
  triggers=[tl_allpat(tl_snoc(tl__, tt__))], rewrite=True)
L('tl_pats_snoc', [tl__, psi], tl_pats(tl_snoc(tl__, TRM.mk('Pat', psi))) == ml_snoc(tl_pats(tl__), psi), ind=tl__,
  triggers=[tl_pats(tl_snoc(tl__, TRM.mk('Pat', psi)))], rewrite=True)
L('pm_values_len', [pm_], ptl_len(pm_values(pm_)) == pm_len(pm_), ind=pm_, triggers=[ptl_len(pm_values(pm_))], rewrite=True, uses=['ptl_len_bottom'])
L('pm_values_allpat', [pm_], tl_allpat(ex_stack(pm_values(pm_))), ind=pm_, triggers=[ex_stack(pm_values(pm_))], uses=['ex_stack_bottom', 'tl_allpat_snoc'])
L('pm_values_pats', [pm_], tl_pats(ex_stack(pm_values(pm_))) == mvals_rev(expandmap(pm_)), ind=pm_, triggers=[ex_stack(pm_values(pm_))], crewrite=True, uses=['ex_stack_bottom', 'tl_pats_snoc'])
L('pm_keys_rev_m', [pm_], pm_keys_rev(pm_) == mkeys_rev(expandmap(pm_)), ind=pm_, triggers=[pm_keys_rev(pm_)], rewrite=True)
L('mkeys_rev_len', [m_], il_len(mkeys_rev(m_)) == mlen(m_), ind=m_, triggers=[il_len(mkeys_rev(m_))], rewrite=True, uses=['il_len_snoc'])
L('mvals_rev_len', [m_], ml_len(mvals_rev(m_)) == mlen(m_), ind=m_, triggers=[ml_len(mvals_rev(m_))], rewrite=True, uses=['ml_len_snoc'])
L('pm_len_m', [pm_], pm_len(pm_) == mlen(expandmap(pm_)), ind=pm_, triggers=[pm_len(pm_)], rewrite=True)
L('mlen_nonneg', [m_], mlen(m_) >= 0, ind=m_, triggers=[mlen(m_)])
# zipping the reversed keys with the reversed values gives a map with the same bindings
L('mzip_snoc', [vs__, ps__, kk, psi], z3.Implies(il_len(vs__) == ml_len(ps__), mzip(il_snoc(vs__, kk), ml_snoc(ps__, psi)) == msnoc(mzip(vs__, ps__), kk, psi)),
  ind=vs__, triggers=[mzip(il_snoc(vs__, kk), ml_snoc(ps__, psi))], uses=['ml_len_nonneg', 'il_len_nonneg'], ih_extra=_tl_ps, split_depth=2)
L('msnoc_has', [m_, kk, psi, X], mhas(msnoc(m_, kk, psi), X) == z3.Or(mhas(m_, X), X == kk), ind=m_, triggers=[mhas(msnoc(m_, kk, psi), X)], rewrite=True)
L('msnoc_get', [m_, kk, psi, X], mget(msnoc(m_, kk, psi), X) == z3.If(mhas(m_, X), mget(m_, X), z3.If(X == kk, psi, M.mk('EVar', z3.IntVal(-1)))), ind=m_,
  triggers=[mget(msnoc(m_, kk, psi), X)], rewrite=True)
L('mzip_rev_is_mrz', [m_], mzip(mkeys_rev(m_), mvals_rev(m_)) == mrz(m_), ind=m_, triggers=[mzip(mkeys_rev(m_), mvals_rev(m_))], rewrite=True,
  uses=['mzip_snoc', 'mlen_nonneg', 'mkeys_rev_len', 'mvals_rev_len'], split_depth=1)
L('mrz_lookup', [m_, X], z3.Implies(mdistinct(m_), z3.And(mhas(mrz(m_), X) == mhas(m_, X), z3.Implies(mhas(m_, X), mget(mrz(m_), X) == mget(m_, X)))),
  ind=m_, triggers=[mhas(mrz(m_), X), mget(mrz(m_), X)], uses=['msnoc_has', 'msnoc_get'])
L('minst_rs_mrz', [phi, m_], z3.Implies(mdistinct(m_), minst_rs(phi, mrz(m_)) == minst_rs(phi, m_)), ind=phi, crewrite=True,
  triggers=[minst_rs(phi, mrz(m_))], uses=['mrz_lookup'])
L('mv_hit_keys', [phi, m_], mv_hit(phi, mkeys_rev(m_)) == mv_hit_m(phi, m_), ind=phi, triggers=[mv_hit(phi, mkeys_rev(m_))], uses=['mem_mkeys_rev'], rewrite=True)
L('mem_mkeys_rev', [m_, X], mem(X, mkeys_rev(m_)) == mhas(m_, X), ind=m_, triggers=[mem(X, mkeys_rev(m_))], uses=['mem_snoc'], rewrite=True)
L('mem_snoc', [vs__, kk, X], mem(X, il_snoc(vs__, kk)) == z3.Or(mem(X, vs__), X == kk), ind=vs__, triggers=[mem(X, il_snoc(vs__, kk))], rewrite=True)
_W = tl_taken(tl__, nn__)
_take_all_stmt = z3.Implies(z3.And(tl_len(_W) == nn__, tl_allpat(_W), il_len(vs__) == nn__),
                            _sm.take_acc(nn__, vs__, tl__, IDL.mk('inil'), MLs.mk('lnil')) ==
                            TKR.mk('tdone', vs__, tl_pats(_W), IDL.mk('inil'), tl_dropn(tl__, nn__)))
L('take_all', [tl__, nn__, vs__], _take_all_stmt, nonind=True, crewrite=True,
  triggers=[_sm.take_acc(nn__, vs__, tl__, IDL.mk('inil'), MLs.mk('lnil'))],
  hints=[('tl_decompose', [tl__, nn__, _W]),
         ('take_acc_cat', [vs__, _W, IDL.mk('inil'), tl_dropn(tl__, nn__), IDL.mk('inil'), MLs.mk('lnil')]),
         ('il_cat_nil', [vs__])], split_depth=1)
_take_eq_stmt = z3.Implies(z3.And(tl_taken(tl__, nn__) == tlw__, tl_len(tlw__) == nn__, tl_allpat(tlw__), il_len(vs__) == nn__),
                           _sm.take_acc(nn__, vs__, tl__, IDL.mk('inil'), MLs.mk('lnil')) ==
                           TKR.mk('tdone', vs__, tl_pats(tlw__), IDL.mk('inil'), tl_dropn(tl__, nn__)))
L('take_all_eq', [tl__, nn__, tlw__, vs__], _take_eq_stmt, nonind=True, crewrite=True,
  triggers=[[_sm.take_acc(nn__, vs__, tl__, IDL.mk('inil'), MLs.mk('lnil')), tl_taken(tl__, nn__) == tlw__],
            [_sm.take_acc(nn__, vs__, tl__, IDL.mk('inil'), MLs.mk('lnil')), tlw__ == tl_taken(tl__, nn__)]],
  hints=[('tl_decompose', [tl__, nn__, tlw__]),
         ('take_acc_cat', [vs__, tlw__, IDL.mk('inil'), tl_dropn(tl__, nn__), IDL.mk('inil'), MLs.mk('lnil')]),
         ('il_cat_nil', [vs__])], split_depth=1)
L('pm_values_tllen', [pm_], tl_len(ex_stack(pm_values(pm_))) == mlen(expandmap(pm_)), nonind=True, triggers=[ex_stack(pm_values(pm_))],
  hints=[('ex_stack_len', [pm_values(pm_)]), ('pm_values_len', [pm_]), ('pm_len_m', [pm_])])
L('mlen_zero', [m_], (mlen(m_) == 0) == MMp.is_('mnil', m_), ind=m_, triggers=[mlen(m_)], uses=['mlen_nonneg'])

L('minst_rs_nohit_m', [phi, m_], z3.Implies(z3.And(wf_rs(phi), z3.Not(mv_hit_m(phi, m_))), minst_rs(phi, m_) == phi), ind=phi,
  triggers=[[minst_rs(phi, m_), mv_hit_m(phi, m_)]], split_depth=1)
L('ptl_wf_dropn', [ptl__, nn__], z3.Implies(ptl_wf(ptl__), ptl_wf(ptl_dropn(ptl__, nn__))), ind=ptl__, triggers=[ptl_dropn(ptl__, nn__)],
  ih_extra=lambda f, val, vars: [[(vars[1], vars[1] - 1)]], split_depth=1)
L('wf_py_is_rs', [phi], z3.Implies(wf_py(phi), wf_rs(phi)), ind=phi, triggers=[wf_py(phi)])

L('pm_len_zero', [pm_], z3.And(pm_len(pm_) >= 0, (pm_len(pm_) == 0) == PMp.is_('pnil', pm_)), ind=pm_, triggers=[pm_len(pm_)])
L('ptl_len_zero', [ptl__], z3.And(ptl_len(ptl__) >= 0, (ptl_len(ptl__) == 0) == PTLs.is_('ptnil', ptl__)), ind=ptl__, triggers=[ptl_len(ptl__)])
L('il_len_zero', [vs__], z3.And(il_len(vs__) >= 0, (il_len(vs__) == 0) == IDL.is_('inil', vs__)), ind=vs__, triggers=[il_len(vs__)])

# lemmas about the python-side views (tracker lists, instantiation maps, operand segments): used by C03/C04/C14/..., never needed by the
# checker-side proofs (C01/C05), where their broad multi-triggers only multiply instances
PY_SIDE = ['ex_stack_lastn', 'ex_stack_dropn', 'ex_stack_len', 'tl_decompose', 'take_acc_cat', 'ptl_len_bottom', 'ex_stack_bottom', 'tl_allpat_snoc',
           'tl_pats_snoc', 'pm_values_len', 'pm_values_allpat', 'pm_values_pats', 'pm_keys_rev_m', 'mkeys_rev_len', 'mvals_rev_len', 'pm_len_m',
           'mzip_rev_is_mrz', 'mrz_lookup', 'minst_rs_mrz', 'mv_hit_keys', 'mem_mkeys_rev', 'take_all', 'take_all_eq', 'pm_values_tllen',
           'minst_rs_nohit_m', 'ptl_wf_dropn', 'pm_len_zero', 'ptl_len_zero']


def checker_side_lib():
    return {k: v for k, v in LIB.items() if k not in PY_SIDE}


STREAM = {}


def LS(name, vars, stmt, **kw):
    lm = Lemma(name, vars, stmt, **kw)
    STREAM[name] = lm
    return lm


# --- byte streams: take / drop / nth (C14: the deserialiser's readers) -----------------------------------------------------------------
_nm1 = lambda f, val, vars: [[(vars[0], vars[0] - 1)]]
LS('il_drop_len', [nn__, vs__], z3.Implies(nn__ >= 0, IDL.is_('inil', il_drop(nn__, vs__)) == (il_len(vs__) <= nn__)), ind=vs__,
  triggers=[il_drop(nn__, vs__)], ih_extra=_nm1, uses=['il_len_nonneg'], split_depth=1)
LS('il_nth_drop', [nn__, vs__], z3.Implies(z3.And(nn__ >= 0, nn__ < il_len(vs__)),
                                          z3.And(IDL.is_('icons', il_drop(nn__, vs__)), il_nth(vs__, nn__) == IDL.get('icons', 'ihd', il_drop(nn__, vs__)),
                                                 il_drop(nn__ + 1, vs__) == IDL.get('icons', 'itl', il_drop(nn__, vs__)))), ind=vs__,
  triggers=[il_nth(vs__, nn__), il_drop(nn__, vs__)], ih_extra=_nm1, uses=['il_len_nonneg'], split_depth=1)
LS('il_take_step', [nn__, vs__], z3.Implies(z3.And(nn__ >= 0, nn__ < il_len(vs__)),
                                           il_take(nn__ + 1, vs__) == il_snoc(il_take(nn__, vs__), IDL.get('icons', 'ihd', il_drop(nn__, vs__)))), ind=vs__,
  triggers=[il_take(nn__, vs__)], ih_extra=_nm1, uses=['il_len_nonneg'], split_depth=1)
LS('il_len_cat', [vs__, rest__], il_len(il_cat(vs__, rest__)) == il_len(vs__) + il_len(rest__), ind=vs__, triggers=[il_len(il_cat(vs__, rest__))], rewrite=True)
LS('il_take_cat', [vs__, rest__], il_take(il_len(vs__), il_cat(vs__, rest__)) == vs__, ind=vs__, triggers=[il_take(il_len(vs__), il_cat(vs__, rest__))],
  rewrite=True, uses=['il_len_nonneg'])
LS('il_drop_cat', [vs__, rest__], il_drop(il_len(vs__), il_cat(vs__, rest__)) == rest__, ind=vs__, triggers=[il_drop(il_len(vs__), il_cat(vs__, rest__))],
  rewrite=True, uses=['il_len_nonneg'])
LS('il_take_drop', [nn__, vs__], il_cat(il_take(nn__, vs__), il_drop(nn__, vs__)) == vs__, ind=vs__, triggers=[il_cat(il_take(nn__, vs__), il_drop(nn__, vs__))],
  ih_extra=_nm1, split_depth=1)     # not a rewrite rule: it would erase the instances il_take_drop_t adds (the second operand is rarely syntactically a drop)
LS('il_take_len', [nn__, vs__], z3.Implies(z3.And(nn__ >= 0, nn__ <= il_len(vs__)), il_len(il_take(nn__, vs__)) == nn__), ind=vs__,
  triggers=[il_len(il_take(nn__, vs__))], ih_extra=_nm1, uses=['il_len_nonneg'], split_depth=1)
LS('il_allbytes_take', [nn__, vs__], z3.Implies(il_allbytes(vs__), z3.And(il_allbytes(il_take(nn__, vs__)), il_allbytes(il_drop(nn__, vs__)))), ind=vs__,
  triggers=[il_take(nn__, vs__)], ih_extra=_nm1, split_depth=1)
# python memory (list, indexed from the front) <-> machine memory
LS('ex_mem_len', [ptl__], tl_len(ex_mem(ptl__)) == ptl_len(ptl__), ind=ptl__, triggers=[tl_len(ex_mem(ptl__))], rewrite=True, uses=['tl_len_snoc'])
LS('tl_nth_snoc', [tl__, tt__, kk], z3.Implies(z3.And(kk >= 0, kk <= tl_len(tl__)),
                                              tl_nth(tl_snoc(tl__, tt__), kk) == z3.If(kk == tl_len(tl__), tt__, tl_nth(tl__, kk))), ind=tl__,
  triggers=[tl_nth(tl_snoc(tl__, tt__), kk)], ih_extra=lambda f, val, vars: [[(vars[2], vars[2] - 1)]], uses=['tl_len_nonneg'], split_depth=1)
LS('ex_mem_nth', [ptl__, kk], z3.Implies(z3.And(kk >= 0, kk < ptl_len(ptl__)), ex_term(ptl_nth_front(ptl__, kk)) == tl_nth(ex_mem(ptl__), kk)), ind=ptl__,
  triggers=[ptl_nth_front(ptl__, kk)], uses=['tl_nth_snoc', 'ex_mem_len', 'ptl_len_zero'], split_depth=1)
LS('ptl_wf_nth', [ptl__, kk], z3.Implies(z3.And(ptl_wf(ptl__), kk >= 0, kk < ptl_len(ptl__)), ptl_wf(PTLs.mk('ptcons', ptl_nth_front(ptl__, kk), PTLs.mk('ptnil')))),
  ind=ptl__, triggers=[ptl_nth_front(ptl__, kk)], uses=['ptl_len_zero'], split_depth=1)
LS('il_take_drop_t', [nn__, vs__], il_cat(il_take(nn__, vs__), il_drop(nn__, vs__)) == vs__, nonind=True, triggers=[il_take(nn__, vs__)],
  hints=[('il_take_drop', [nn__, vs__])])
LS('il_allbytes_hd', [vs__], z3.Implies(z3.And(il_allbytes(vs__), IDL.is_('icons', vs__)),
                                       z3.And(IDL.get('icons', 'ihd', vs__) >= 0, IDL.get('icons', 'ihd', vs__) <= 255, il_allbytes(IDL.get('icons', 'itl', vs__)))),
  ind=vs__, triggers=[il_allbytes(vs__)])
LS('il_drop_zero', [nn__, vs__], z3.Implies(nn__ <= 0, il_drop(nn__, vs__) == vs__), ind=vs__, triggers=[il_drop(nn__, vs__)])
LS('il_take_zero', [nn__, vs__], z3.Implies(nn__ <= 0, il_take(nn__, vs__) == IDL.mk('inil')), ind=vs__, triggers=[il_take(nn__, vs__)])

# --- C03: journals of published patterns (lists built front to back) -------------------------------------------------------------------
PUBL = {}


def LP(name, vars, stmt, **kw):
    lm = Lemma(name, vars, stmt, **kw)
    PUBL[name] = lm
    return lm


AX = z3.Function('AX', z3.IntSort(), TL)          # the journal a module (by id) publishes in the gamma phase: its imports' axioms, then its own
flat_ax = SpecFn_like = None
from .spec import _rec as _rec_, _def as _def_
flat_ax = _rec_('flat_ax', IdL, TL)
_fl = z3.Const('_fl', IdL)
_def_(flat_ax, [_fl], z3.If(IDL.is_('inil', _fl), TLs.mk('tnil'), tl_cat(AX(IDL.get('icons', 'ihd', _fl)), flat_ax(IDL.get('icons', 'itl', _fl)))))
tl2__ = z3.Const('tl2__', TL)
tl3__ = z3.Const('tl3__', TL)
_km1 = lambda f, val, vars: [[(vars[1], vars[1] - 1)]]
LP('tl_cat_nil', [tl__], tl_cat(tl__, TLs.mk('tnil')) == tl__, ind=tl__, triggers=[tl_cat(tl__, TLs.mk('tnil'))], rewrite=True)
LP('tl_cat_assoc', [tl__, tl2__, tl3__], tl_cat(tl_cat(tl__, tl2__), tl3__) == tl_cat(tl__, tl_cat(tl2__, tl3__)), ind=tl__,
   triggers=[tl_cat(tl_cat(tl__, tl2__), tl3__)], rewrite=True)
LP('tl_cat_snoc', [tl__, tl2__, tt__], tl_cat(tl__, tl_snoc(tl2__, tt__)) == tl_snoc(tl_cat(tl__, tl2__), tt__), ind=tl__,
   triggers=[tl_cat(tl__, tl_snoc(tl2__, tt__))])
LP('tl_taken_step', [tl__, kk], z3.Implies(z3.And(kk >= 0, kk < tl_len(tl__)), tl_taken(tl__, kk + 1) == tl_snoc(tl_taken(tl__, kk), tl_nth(tl__, kk))),
   ind=tl__, triggers=[tl_taken(tl__, kk)], ih_extra=_km1, uses=['tl_len_nonneg'], split_depth=1)
LP('tl_taken_all', [tl__, kk], z3.Implies(kk >= tl_len(tl__), tl_taken(tl__, kk) == tl__), ind=tl__, triggers=[tl_taken(tl__, kk)], ih_extra=_km1,
   uses=['tl_len_nonneg'], split_depth=1)
LP('tl_taken_zero', [tl__, kk], z3.Implies(kk <= 0, tl_taken(tl__, kk) == TLs.mk('tnil')), ind=tl__, triggers=[tl_taken(tl__, kk)])
LP('il_take_step_nth', [nn__, vs__], z3.Implies(z3.And(nn__ >= 0, nn__ < il_len(vs__)), il_take(nn__ + 1, vs__) == il_snoc(il_take(nn__, vs__), il_nth(vs__, nn__))),
   ind=vs__, triggers=[il_take(nn__, vs__)], ih_extra=_nm1, uses=['il_len_nonneg'], split_depth=1)
LP('il_take_all', [nn__, vs__], z3.Implies(nn__ >= il_len(vs__), il_take(nn__, vs__) == vs__), ind=vs__, triggers=[il_take(nn__, vs__)], ih_extra=_nm1,
   uses=['il_len_nonneg'], split_depth=1)
LP('il_take_zero', [nn__, vs__], z3.Implies(nn__ <= 0, il_take(nn__, vs__) == IDL.mk('inil')), ind=vs__, triggers=[il_take(nn__, vs__)])
LP('flat_ax_snoc', [vs__, kk], flat_ax(il_snoc(vs__, kk)) == tl_cat(flat_ax(vs__), AX(kk)), ind=vs__, triggers=[flat_ax(il_snoc(vs__, kk))],
   uses=['tl_cat_nil', 'tl_cat_assoc'])
LP('ex_stack_nth', [ptl__, kk], z3.Implies(z3.And(kk >= 0, kk < ptl_len(ptl__)), tl_nth(ex_stack(ptl__), kk) == ex_term(ptl_nth_back(ptl__, kk))), ind=ptl__,
   triggers=[ptl_nth_back(ptl__, kk)], ih_extra=_km1, uses=['ptl_len_zero'], split_depth=1)
for _n in ('ex_mem_len', 'tl_nth_snoc', 'ex_mem_nth', 'ex_stack_len', 'tl_len_snoc', 'tl_len_nonneg', 'il_len_nonneg', 'il_len_zero', 'ptl_len_zero'):
    PUBL[_n] = (LIB.get(_n) or STREAM.get(_n))

# --- pushing the values of an instantiation map, in map order, onto a stack (C03/C08: loops over delta.values() / delta.items()) -------------
MAPL = {}


def LM(name, vars, stmt, **kw):
    lm = Lemma(name, vars, stmt, **kw)
    MAPL[name] = lm
    return lm


pushall = _rec_('pushall', MMap, TL, TL)
_pm = z3.Const('_pm', MMap)
_px = z3.Const('_px', TL)
_def_(pushall, [_pm, _px], z3.If(MMp.is_('mnil', _pm), _px,
                                 pushall(MMp.get('mcons', 'mtl', _pm), TLs.mk('tcons', TRM.mk('Pat', MMp.get('mcons', 'mval', _pm)), _px))), dec=0)
LM('tl_nth_dropn', [tl__, kk], z3.Implies(z3.And(kk >= 0, kk < tl_len(tl__)),
                                          z3.And(TLs.is_('tcons', tl_dropn(tl__, kk)), tl_nth(tl__, kk) == TLs.get('tcons', 'thd', tl_dropn(tl__, kk)),
                                                 tl_dropn(tl__, kk + 1) == TLs.get('tcons', 'ttl', tl_dropn(tl__, kk)))), ind=tl__,
   triggers=[tl_dropn(tl__, kk)], ih_extra=_km1, uses=['tl_len_nonneg'], split_depth=1)
LM('tl_pats_snoc_g', [tl__, tt__], z3.Implies(TRM.is_('Pat', tt__), tl_pats(tl_snoc(tl__, tt__)) == ml_snoc(tl_pats(tl__), TRM.get('Pat', 'pat', tt__))), ind=tl__,
   triggers=[tl_snoc(tl__, tt__)])
LM('tl_allpat_snoc_g', [tl__, tt__], tl_allpat(tl_snoc(tl__, tt__)) == z3.And(tl_allpat(tl__), TRM.is_('Pat', tt__)), ind=tl__, triggers=[tl_snoc(tl__, tt__)])
_pushall_stmt = z3.And(tl_pats(tl_taken(pushall(m_, tl__), mlen(m_))) == mvals_rev(m_), tl_allpat(tl_taken(pushall(m_, tl__), mlen(m_))),
                       tl_dropn(pushall(m_, tl__), mlen(m_)) == tl__, tl_len(pushall(m_, tl__)) == mlen(m_) + tl_len(tl__))
LM('pushall_views', [m_, tl__], _pushall_stmt, ind=m_, triggers=[pushall(m_, tl__)],
   ih_extra=lambda f, val, vars: [[(vars[1], TLs.mk('tcons', TRM.mk('Pat', val.arg(1)), vars[1]))]],
   uses=['tl_taken_step', 'tl_nth_dropn', 'tl_pats_snoc_g', 'tl_allpat_snoc_g', 'mlen_nonneg', 'tl_len_nonneg', 'tl_taken_zero'], split_depth=1)
LM('tl_allpat_eq', [tl__, tl2__], z3.Implies(z3.And(tl_allpat(tl__), tl_allpat(tl2__), tl_pats(tl__) == tl_pats(tl2__)), tl__ == tl2__), ind=tl__,
   triggers=[[tl_pats(tl__), tl_pats(tl2__)]], ih_extra=lambda f, val, vars: [[(vars[1], TLs.get('tcons', 'ttl', vars[1]))]], split_depth=1)
for _n in ('tl_taken_step', 'tl_taken_zero', 'tl_taken_all', 'tl_pats_snoc', 'tl_allpat_snoc', 'mlen_nonneg', 'tl_len_nonneg', 'pm_values_pats', 'pm_values_allpat', 'pm_len_m',
           'ex_stack_lastn', 'ex_stack_dropn', 'ex_stack_len', 'mlen_zero', 'pm_len_zero'):
    MAPL[_n] = LIB.get(_n) or PUBL.get(_n) or STREAM.get(_n)

# --- suffixes of an instantiation map (C08: the loop of dynamic_inst rewrites delta[idn] while iterating delta.items()) ---------------------
msuffix = _rec_('msuffix', MMap, MMap, B)            # msuffix(s, M): s is a suffix of M
_ms = z3.Const('_ms', MMap)
_def_(msuffix, [_ms, _pm], z3.Or(_ms == _pm, z3.And(MMp.is_('mcons', _pm), msuffix(_ms, MMp.get('mcons', 'mtl', _pm)))), dec=1)
m2_ = z3.Const('m2_', MMap)
LM('msuffix_tail', [m2_, m_], z3.Implies(z3.And(msuffix(m2_, m_), MMp.is_('mcons', m2_)), msuffix(MMp.get('mcons', 'mtl', m2_), m_)), ind=m_, triggers=[msuffix(m2_, m_)], split_depth=1)
LM('msuffix_head', [m2_, m_], z3.Implies(z3.And(msuffix(m2_, m_), MMp.is_('mcons', m2_), mdistinct(m_)),
                                         z3.And(mhas(m_, MMp.get('mcons', 'mkey', m2_)), mget(m_, MMp.get('mcons', 'mkey', m2_)) == MMp.get('mcons', 'mval', m2_))),
   ind=m_, triggers=[msuffix(m2_, m_)], split_depth=1)
LM('mset_same', [m_, kk, psi], z3.Implies(z3.And(mhas(m_, kk), mget(m_, kk) == psi), mset(m_, kk, psi) == m_), ind=m_, triggers=[mset(m_, kk, psi)], split_depth=1)
for _n in ('expandmap_pset', 'pmwf_pset', 'expandmap_has', 'expandmap_get'):
    MAPL[_n] = LIB.get(_n)

# --- building a dict from reversed(zip(keys, reversed(stack segment)))  (C14: the Instantiate case of the deserialiser) ---------------------
ZIPL = {}


def LZ(name, vars, stmt, **kw):
    lm = Lemma(name, vars, stmt, **kw)
    ZIPL[name] = lm
    return lm


pm_snoc = _rec_('pm_snoc', PMap, z3.IntSort(), PPat, PMap)          # append a binding at the END of the association list
_zd = z3.Const('_zd', PMap)
_zk = z3.Int('_zk')
_zv = z3.Const('_zv', PPat)
_def_(pm_snoc, [_zd, _zk, _zv], z3.If(PMp.is_('pnil', _zd), PMp.mk('pcons', _zk, _zv, PMp.mk('pnil')),
                                      PMp.mk('pcons', PMp.get('pcons', 'pkey', _zd), PMp.get('pcons', 'pval', _zd), pm_snoc(PMp.get('pcons', 'ptl', _zd), _zk, _zv))), dec=0)
# the dict python builds:  keys K = [k0, k1, ...] (as read), segment W (python list, head of the PTL = LAST element = pairs with k0);  insertion order is the reverse of the pairing order
pmz = _rec_('pmz', IdL, PTL, PMap)
_zK = z3.Const('_zK', IdL)
_zW = z3.Const('_zW', PTL)
_def_(pmz, [_zK, _zW], z3.If(z3.Or(IDL.is_('inil', _zK), PTLs.is_('ptnil', _zW)), PMp.mk('pnil'),
                             pm_snoc(pmz(IDL.get('icons', 'itl', _zK), PTLs.get('ptcons', 'pttl', _zW)), IDL.get('icons', 'ihd', _zK),
                                     PTR.get('PyPat', 'pypat', PTLs.get('ptcons', 'pthd', _zW)))), dec=0)
mz = _rec_('mz', IdL, ML, MMap)                        # the same on the machine side
_zL = z3.Const('_zL', ML)
_def_(mz, [_zK, _zL], z3.If(z3.Or(IDL.is_('inil', _zK), MLs.is_('lnil', _zL)), MMp.mk('mnil'),
                            msnoc(mz(IDL.get('icons', 'itl', _zK), MLs.get('lcons', 'ltl', _zL)), IDL.get('icons', 'ihd', _zK), MLs.get('lcons', 'lhd', _zL))), dec=0)
il_distinct = _rec_('il_distinct', IdL, B)
_def_(il_distinct, [_zK], z3.If(IDL.is_('inil', _zK), True, z3.And(z3.Not(mem(IDL.get('icons', 'ihd', _zK), IDL.get('icons', 'itl', _zK))), il_distinct(IDL.get('icons', 'itl', _zK)))))
pv_ = z3.Const('pv_z', PPat)
LZ('pm_snoc_len', [pm_, kk, pv_], pm_len(pm_snoc(pm_, kk, pv_)) == 1 + pm_len(pm_), ind=pm_, triggers=[pm_len(pm_snoc(pm_, kk, pv_))], rewrite=True)
LZ('pm_snoc_values', [pm_, kk, pv_], pm_values(pm_snoc(pm_, kk, pv_)) == PTLs.mk('ptcons', PTR.mk('PyPat', pv_), pm_values(pm_)), ind=pm_,
   triggers=[pm_values(pm_snoc(pm_, kk, pv_))], rewrite=True)
LZ('pm_snoc_keys', [pm_, kk, pv_], pm_keys_rev(pm_snoc(pm_, kk, pv_)) == IDL.mk('icons', kk, pm_keys_rev(pm_)), ind=pm_, triggers=[pm_keys_rev(pm_snoc(pm_, kk, pv_))], rewrite=True)
LZ('pm_snoc_expand', [pm_, kk, pv_], expandmap(pm_snoc(pm_, kk, pv_)) == msnoc(expandmap(pm_), kk, expand(pv_)), ind=pm_, triggers=[expandmap(pm_snoc(pm_, kk, pv_))], rewrite=True)
LZ('pm_snoc_wf', [pm_, kk, pv_], pmwf(pm_snoc(pm_, kk, pv_)) == z3.And(pmwf(pm_), pwf(pv_)), ind=pm_, triggers=[pmwf(pm_snoc(pm_, kk, pv_))], rewrite=True)
_zstep = lambda f, val, vars: [[(vars[1], PTLs.get('ptcons', 'pttl', vars[1]))]]
LZ('pmz_len', [vs__, ptl__], z3.Implies(il_len(vs__) == ptl_len(ptl__), pm_len(pmz(vs__, ptl__)) == il_len(vs__)), ind=vs__, triggers=[pmz(vs__, ptl__)], ih_extra=_zstep,
   uses=['pm_snoc_len', 'ptl_len_zero', 'il_len_zero'], split_depth=1)
LZ('pmz_keys', [vs__, ptl__], z3.Implies(il_len(vs__) == ptl_len(ptl__), pm_keys_rev(pmz(vs__, ptl__)) == vs__), ind=vs__, triggers=[pmz(vs__, ptl__)], ih_extra=_zstep,
   uses=['pm_snoc_keys', 'ptl_len_zero', 'il_len_zero'], split_depth=1)
LZ('pmz_values', [vs__, ptl__], z3.Implies(z3.And(il_len(vs__) == ptl_len(ptl__), tl_allpat(ex_stack(ptl__))), ex_stack(pm_values(pmz(vs__, ptl__))) == ex_stack(ptl__)), ind=vs__,
   triggers=[pmz(vs__, ptl__)], ih_extra=_zstep, uses=['pm_snoc_values', 'ptl_len_zero', 'il_len_zero'], split_depth=1)
LZ('pmz_wf', [vs__, ptl__], z3.Implies(z3.And(ptl_wf(ptl__), tl_allpat(ex_stack(ptl__))), pmwf(pmz(vs__, ptl__))), ind=vs__, triggers=[pmz(vs__, ptl__)], ih_extra=_zstep,
   uses=['pm_snoc_wf'], split_depth=1)
LZ('pmz_expand', [vs__, ptl__], z3.Implies(tl_allpat(ex_stack(ptl__)), expandmap(pmz(vs__, ptl__)) == mz(vs__, tl_pats(ex_stack(ptl__)))), ind=vs__, triggers=[pmz(vs__, ptl__)],
   ih_extra=_zstep, uses=['pm_snoc_expand'], split_depth=1)
ml2__ = z3.Const('ml2__', ML)
LZ('mz_snoc', [vs__, ml2__, kk, psi], z3.Implies(il_len(vs__) == ml_len(ml2__), mz(il_snoc(vs__, kk), ml_snoc(ml2__, psi)) == MMp.mk('mcons', kk, psi, mz(vs__, ml2__))), ind=vs__,
   triggers=[mz(il_snoc(vs__, kk), ml_snoc(ml2__, psi))], ih_extra=lambda f, val, vars: [[(vars[1], MLs.get('lcons', 'ltl', vars[1]))]],
   uses=['il_len_nonneg', 'ml_len_nonneg'], split_depth=2)
LZ('mz_rev', [m_], mz(mkeys_rev(m_), mvals_rev(m_)) == m_, ind=m_, triggers=[mz(mkeys_rev(m_), mvals_rev(m_))], uses=['mz_snoc', 'mkeys_rev_len', 'mvals_rev_len'])   # not a rewrite rule: it is used through explicit instances
LZ('msnoc_distinct', [m_, kk, psi], mdistinct(msnoc(m_, kk, psi)) == z3.And(mdistinct(m_), z3.Not(mhas(m_, kk))), ind=m_, triggers=[mdistinct(msnoc(m_, kk, psi))], uses=['msnoc_has'], split_depth=1)
LZ('mz_has', [vs__, ml2__, kk], z3.Implies(il_len(vs__) == ml_len(ml2__), mhas(mz(vs__, ml2__), kk) == mem(kk, vs__)), ind=vs__, triggers=[mhas(mz(vs__, ml2__), kk)],
   ih_extra=lambda f, val, vars: [[(vars[1], MLs.get('lcons', 'ltl', vars[1]))]], uses=['msnoc_has', 'il_len_nonneg', 'ml_len_nonneg'], split_depth=1)
LZ('mz_distinct', [vs__, ml2__], z3.Implies(z3.And(il_len(vs__) == ml_len(ml2__), il_distinct(vs__)), mdistinct(mz(vs__, ml2__))), ind=vs__, triggers=[mz(vs__, ml2__)],
   ih_extra=lambda f, val, vars: [[(vars[1], MLs.get('lcons', 'ltl', vars[1]))]], uses=['msnoc_distinct', 'mz_has', 'il_len_nonneg', 'ml_len_nonneg'], split_depth=1)
for _n in ('ptl_len_zero', 'il_len_zero', 'il_len_nonneg', 'ml_len_nonneg', 'mkeys_rev_len', 'mvals_rev_len', 'msnoc_has', 'msnoc_get', 'pm_values_pats', 'pm_values_allpat', 'pm_keys_rev_m',
           'pm_len_m', 'ex_stack_lastn', 'ex_stack_dropn', 'ex_stack_len', 'tl_allpat_eq', 'il_take_cat', 'il_drop_cat', 'il_len_cat', 'tl_len_nonneg', 'mlen_nonneg'):
    ZIPL[_n] = LIB.get(_n) or MAPL.get(_n) or STREAM.get(_n) or PUBL.get(_n)
LZ('il_distinct_snoc', [vs__, kk], il_distinct(il_snoc(vs__, kk)) == z3.And(il_distinct(vs__), z3.Not(mem(kk, vs__))), ind=vs__, triggers=[il_distinct(il_snoc(vs__, kk))],
   uses=['mem_snoc'], split_depth=1)
LZ('mkeys_rev_distinct', [m_], z3.Implies(mdistinct(m_), il_distinct(mkeys_rev(m_))), ind=m_, triggers=[il_distinct(mkeys_rev(m_))], uses=['il_distinct_snoc', 'mem_mkeys_rev'], split_depth=1)
for _n in ('mem_snoc', 'mem_mkeys_rev'):
    ZIPL[_n] = LIB.get(_n)
LZ('il_take_cat_c', [nn__, vs__, rest__], z3.Implies(nn__ == il_len(vs__), il_take(nn__, il_cat(vs__, rest__)) == vs__), nonind=True, triggers=[il_take(nn__, il_cat(vs__, rest__))],
   crewrite=True, hints=[('il_take_cat', [vs__, rest__])])
LZ('il_drop_cat_c', [nn__, vs__, rest__], z3.Implies(nn__ == il_len(vs__), il_drop(nn__, il_cat(vs__, rest__)) == rest__), nonind=True, triggers=[il_drop(nn__, il_cat(vs__, rest__))],
   crewrite=True, hints=[('il_drop_cat', [vs__, rest__])])
LZ('ptl_wf_lastn', [ptl__, nn__], z3.Implies(ptl_wf(ptl__), ptl_wf(ptl_lastn(ptl__, nn__))), ind=ptl__, triggers=[ptl_lastn(ptl__, nn__)],
   ih_extra=lambda f, val, vars: [[(vars[1], vars[1] - 1)]], split_depth=1)
