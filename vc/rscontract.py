"""Contracts on Rust functions (same discipline as vc/contract.py: callers see only the contract)."""
import z3
from .engine import SV, SymRaise, Unsupported
from .sorts import *  # noqa

PANIC = 'panic'


class RsContract:
    def __init__(self, name, params, result, requires=None, ensures=None, nopanic_if=None, may_panic=False, doc=''):
        self.name = name
        self.params = params          # [(name, kind)]  kind: mpat | int | idl | mlist | ...
        self.result = result          # kind | ('opt', kind) | 'unit' | 'bool'
        self._requires = requires or (lambda a: [])
        self._ensures = ensures or (lambda a, r: [])
        self.nopanic_if = nopanic_if  # callable(a)->z3 Bool: under this condition the function must not panic
        self.may_panic = may_panic
        self.doc = doc

    def requires(self, a):
        return self._requires(a)

    def ensures(self, a, r):
        return self._ensures(a, r)

    def bind(self, interp, args):
        return {p[0]: interp.deref(v) for p, v in zip(self.params, args)}

    def apply_rs(self, interp, ctx, args):
        a = self.bind(interp, args)
        k = sum(1 for x in interp.call_log if x == '@' + self.name)
        interp.call_log.append('@' + self.name)
        for label, cond in self.requires(a):
            ctx.oblige(f'callpre:{self.name}#{k}:{label}', cond, kind='callpre')
        if self.may_panic:
            np = self.nopanic_if(a) if self.nopanic_if else None
            if np is None or not z3.is_true(z3.simplify(np)):
                b = z3.Bool(f'panics!{self.name}!{next(ctx.counter)}')
                if ctx.branch(b, f'{self.name} panics'):
                    if np is not None:
                        ctx.assume(z3.Not(np))
                        ctx.check_feasible()
                    raise SymRaise(PANIC, '', f'callee {self.name}')
        res = fresh_rs(ctx, self.result, a)
        for label, cond in self.ensures(a, res):
            ctx.assume(cond)
        return res


def fresh_rs(ctx, desc, a=None):
    if desc in ('unit', None):
        return ()
    if isinstance(desc, str):
        return ctx.fresh(desc, 'r')
    if desc[0] == 'opt':
        cond = desc[2](a) if len(desc) > 2 and desc[2] is not None else z3.Bool(f'some!{next(ctx.counter)}')
        if ctx.branch(cond, 'result is Some'):
            return ('Some', fresh_rs(ctx, desc[1], a))
        return None
    raise Unsupported(f'rust result descriptor {desc!r}')


def rs_input(ctx, name, kind, arm=None):
    if kind == 'mpat' and arm:
        zs = []
        for f in FIELDS[arm]:
            k2 = {'pat': 'mpat', 'int': 'int', 'idl': 'idl'}[FKIND[f]]
            zs.append(ctx.input(k2, f'{name}.{f}').t)
        v = SV(M.mk(arm, *zs), 'mpat')
        ctx.inputs[name] = v
        return v
    return ctx.input(kind, name)


def verify_rs_unit(prog, contracts, fname, contract, arm=None, arm_param=None, opts=None, selfparam=False):
    from .rsfe import RsInterp
    opts = opts or {}

    def unit(ctx):
        interp = RsInterp(prog, ctx, contracts, opts=dict(opts, inline=list(opts.get('inline', ())) + [fname]))
        amap = {}
        args = []
        for p in contract.params:
            v = rs_input(ctx, p[0], p[1], arm if p[0] == arm_param else None)
            amap[p[0]] = v
            args.append(v)
        for label, cond in contract.requires(amap):
            ctx.assume(cond)
        ctx.check_feasible()
        ctx.cover('requires')
        fn = prog.fns[fname]
        try:
            # the function's own recursive calls go through the contract (induction hypothesis): only the top call is inlined
            interp.opts['inline'] = []
            if selfparam:
                res = interp.run_fn(fn, args[1:], selfv=args[0])
            else:
                res = interp.run_fn(fn, args)
        except SymRaise as e:
            np = contract.nopanic_if(amap) if contract.nopanic_if else None
            if np is not None:
                ctx.oblige(f'nopanic[{e.where}]', z3.Not(np), kind='nopanic', where=e.where)
            elif not contract.may_panic:
                ctx.oblige(f'nopanic[{e.where}]', z3.BoolVal(False), kind='nopanic', where=e.where)
            raise
        res = interp.deref(res)
        for label, cond in contract.ensures(amap, res):
            ctx.oblige(f'post:{label}', cond, kind='post')
        return res
    return unit
