"""Replaying counterexamples on the REAL code, and bounded enumeration of small real inputs.

python side: a driver process under /venv/bin/python (3.12, the interpreter the repository's tests use) imports the real
modules from $PI2_ROOT/generation/src and evaluates job expressions; results travel as dataclass reprs."""
import ast
import itertools
import json
import os
import random
import subprocess
import sys
import z3
from .sorts import *  # noqa
from .engine import SV
from . import norm

ROOT = os.environ.get('PI2_ROOT', '/repo')
VENV_PY = '/venv/bin/python'

DRIVER = r'''
import sys, json, os
sys.setrecursionlimit(10000)
sys.path.insert(0, os.path.join(os.environ.get('PI2_ROOT', '/repo'), 'generation', 'src'))
from frozendict import frozendict
from proof_generation.pattern import *
from proof_generation import pattern as _pattern
PRELUDE
jobs = json.load(sys.stdin)
out = []
for j in jobs:
    try:
        env = dict(globals())
        exec(j.get('setup', ''), env)
        v = eval(j['expr'], env)
        out.append({'ok': True, 'repr': repr(v)})
    except BaseException as e:
        tb = e.__traceback__
        while tb is not None and tb.tb_next is not None:
            tb = tb.tb_next
        fn = tb.tb_frame.f_code.co_filename if tb is not None else '<string>'
        # where the exception was raised: in the repository's code, or in this driver / its prelude (then the DRIVER failed, nothing is known about the code)
        out.append({'ok': False, 'exc': type(e).__name__, 'msg': str(e)[:300], 'where': 'driver' if fn.startswith('<') else fn})
json.dump(out, sys.stdout)
'''


class DriverError(Exception):
    """the bounded driver itself raised (its innermost frame is driver code): the stand-in decided nothing"""


def check_driver(real):
    if not real.get('ok') and real.get('where') == 'driver':
        raise DriverError(f"bounded driver failed in its own code: {real.get('exc')}: {real.get('msg')}")


PRELUDE_OF = {}      # expression -> prelude it was evaluated under (so that a replay file is self-contained)


def run_real(jobs, prelude='', root=None, timeout=600):
    for j in jobs:
        PRELUDE_OF[j.get('expr')] = (prelude, j.get('setup', ''))
    env = dict(os.environ)
    env['PI2_ROOT'] = root or os.environ.get('PI2_ROOT', '/repo')
    env.pop('PYTHONPATH', None)
    p = subprocess.run([VENV_PY, '-c', DRIVER.replace('PRELUDE', prelude)], input=json.dumps(jobs), capture_output=True,
                       text=True, env=env, timeout=timeout)
    if p.returncode != 0:
        raise RuntimeError('replay driver failed: ' + p.stderr[-2000:])
    return json.loads(p.stdout)


# ---- decoded model data -> python source constructing the real object -------------------------------------------------
def idl_list(d):
    out = []
    while d[0] == 'icons':
        out.append(d[1])
        d = d[2]
    return out


def pmap_list(d):
    out = []
    while d[0] == 'pcons':
        out.append((d[1], d[2]))
        d = d[3]
    return out


def sym_name(n):
    return f's{n}'


def data_to_py(d):
    """nested ctor data (as produced by run.term_to_data) -> python expression string."""
    if isinstance(d, bool):
        return repr(d)
    if isinstance(d, int):
        return repr(d)
    c = d[0]
    if c.startswith('P') and c[1:] in PCTORS:
        c = c[1:]
    if c in ('EVar', 'SVar'):
        return f'{c}({d[1]})'
    if c == 'Symbol':
        return f'Symbol({sym_name(d[1])!r})'
    if c in ('Implies', 'App'):
        return f'{c}({data_to_py(d[1])}, {data_to_py(d[2])})'
    if c in ('Exists', 'Mu'):
        return f'{c}({d[1]}, {data_to_py(d[2])})'
    if c == 'MetaVar':
        def tup(x, k):
            xs = idl_list(x)
            return '(' + ''.join(f'{k}({i}), ' for i in xs) + ')'
        return (f'MetaVar({d[1]}, {tup(d[2], "EVar")}, {tup(d[3], "SVar")}, {tup(d[4], "SVar")}, {tup(d[5], "SVar")}, '
                f'{tup(d[6], "EVar")})')
    if c == 'ESubst':
        return f'ESubst({data_to_py(d[1])}, EVar({d[2]}), {data_to_py(d[3])})'
    if c == 'SSubst':
        return f'SSubst({data_to_py(d[1])}, SVar({d[2]}), {data_to_py(d[3])})'
    if c == 'Instantiate':
        return f'Instantiate({data_to_py(d[1])}, {data_to_py(d[2])})'
    if c in ('pnil', 'pcons'):
        # duplicate keys cannot exist in a real frozendict: first occurrence wins (lookup semantics of the encoding)
        seen, items = set(), []
        for k, v in pmap_list(d):
            if k not in seen:
                seen.add(k)
                items.append(f'{k}: {data_to_py(v)}')
        return 'frozendict({' + ', '.join(items) + '})'
    if c in ('inil', 'icons'):
        return repr(tuple(idl_list(d)))
    raise ValueError(f'cannot render {d!r}')


def data_to_term(d, kind):
    """nested ctor data -> closed z3 term of the given kind (ppat | mpat | pmap | idl | int | bool)."""
    if kind in ('int', 'name'):
        return z3.IntVal(d)
    if kind == 'bool':
        return z3.BoolVal(d)
    if kind == 'idl':
        return idl(*idl_list(d))
    if kind == 'pmap':
        r = PMp.mk('pnil')
        seen = set()
        items = []
        for k, v in pmap_list(d):
            if k not in seen:
                seen.add(k)
                items.append((k, v))
        for k, v in reversed(items):
            r = PMp.mk('pcons', k, data_to_term(v, 'ppat'), r)
        return r
    A = P if kind == 'ppat' else M
    c = d[0]
    if c.startswith('P') and c[1:] in PCTORS:
        c = c[1:]
    args = []
    for f, x in zip(FIELDS[c], d[1:]):
        fk = FKIND[f]
        args.append(data_to_term(x, {'pat': kind, 'int': 'int', 'idl': 'idl', 'map': 'pmap'}[fk]))
    return A.mk(c, *args)


# ---- repr of a real result -> data ---------------------------------------------------------------------------------------
def repr_to_data(s):
    """Parse a dataclass repr produced by the real code into ctor data (PPat flavour) / python scalars."""
    try:
        node = ast.parse(s, mode='eval').body
    except SyntaxError:
        return ('?', s)
    return _node_to_data(node)


_SYMS = {}


def sym_id(name):
    if name.startswith('s') and name[1:].isdigit():
        return int(name[1:])
    if name not in _SYMS:
        _SYMS[name] = 5000 + len(_SYMS)
    return _SYMS[name]


def _node_to_data(n):
    if isinstance(n, ast.Constant):
        return n.value
    if isinstance(n, ast.UnaryOp) and isinstance(n.op, ast.USub):
        return -_node_to_data(n.operand)
    if isinstance(n, ast.Tuple):
        return ('tuple',) + tuple(_node_to_data(e) for e in n.elts)
    if isinstance(n, ast.List):
        return ('list',) + tuple(_node_to_data(e) for e in n.elts)
    if isinstance(n, ast.Set):
        return ('set',) + tuple(_node_to_data(e) for e in n.elts)
    if isinstance(n, ast.Dict):
        return ('dict',) + tuple((_node_to_data(k), _node_to_data(v)) for k, v in zip(n.keys, n.values))
    if isinstance(n, ast.Call):
        fn = n.func.attr if isinstance(n.func, ast.Attribute) else n.func.id
        kw = {k.arg: _node_to_data(k.value) for k in n.keywords}
        args = [_node_to_data(a) for a in n.args]
        if fn == 'frozendict':
            return args[0] if args else ('dict',)
        if fn == 'set' and not args:
            return ('set',)
        if fn in PCTORS:
            vals = args + [kw[f] for f in FIELDS[fn][len(args):]]
            out = []
            for f, v in zip(FIELDS[fn], vals):
                fk = FKIND[f]
                if fk == 'idl':
                    xs = [x[1] if isinstance(x, tuple) else x for x in (v[1:] if isinstance(v, tuple) else [])]
                    r = ('inil',)
                    for x in reversed(xs):
                        r = ('icons', x, r)
                    out.append(r)
                elif fk == 'map':
                    r = ('pnil',)
                    for k2, v2 in reversed(v[1:]):
                        r = ('pcons', k2, v2, r)
                    out.append(r)
                elif fk == 'int':
                    if fn == 'Symbol':
                        out.append(sym_id(v))
                    elif isinstance(v, tuple):
                        out.append(v[1])   # EVar(name=..)/SVar(name=..) object in ESubst/SSubst.var
                    else:
                        out.append(v)
                else:
                    out.append(v)
            return ('P' + fn,) + tuple(out)
        return ('obj', fn, kw, args)
    if isinstance(n, ast.Name):
        return {'None': None, 'True': True, 'False': False}.get(n.id, ('name', n.id))
    return ('?', ast.dump(n))


def data_to_value(d, kind=None):
    """ctor data of a real result -> value usable by Contract.ensures (SV with closed term / python scalar)."""
    if d is None or isinstance(d, (bool, int, str)):
        return d
    if isinstance(d, tuple) and d and d[0] in ('tuple', 'list'):
        return tuple(data_to_value(x) for x in d[1:])
    if isinstance(d, tuple) and d and isinstance(d[0], str) and d[0].startswith('P') and d[0][1:] in PCTORS:
        return SV(data_to_term(d, 'ppat'), 'ppat')
    if isinstance(d, tuple) and d and d[0] == 'dict':
        r = ('pnil',)
        for k2, v2 in reversed(d[1:]):
            r = ('pcons', k2, v2, r)
        return SV(data_to_term(r, 'pmap'), 'pmap')
    if isinstance(d, tuple) and d and d[0] in ('pnil', 'pcons'):
        return SV(data_to_term(d, 'pmap'), 'pmap')
    if isinstance(d, tuple) and d and d[0] == 'obj':
        from .pyfe import Obj
        return Obj(None, {k: data_to_value(v) for k, v in d[2].items()})
    if isinstance(d, tuple) and d and d[0] == 'set':
        s = z3.EmptySet(Int)
        for x in d[1:]:
            s = z3.SetAdd(s, z3.IntVal(x))
        return SV(s, 'intset')
    return d


# ---- small-value enumeration ---------------------------------------------------------------------------------------------
def small_patterns(depth=2, with_notation=True, rng=None, cap=None):
    """PPat ctor-data up to the given depth over a small alphabet (ids 0,1; one symbol; metavars 0,1, one constrained)."""
    nil = ('inil',)
    leaves = [('PEVar', 0), ('PEVar', 1), ('PSVar', 0), ('PSVar', 1), ('PSymbol', 0),
              ('PMetaVar', 0, nil, nil, nil, nil, nil), ('PMetaVar', 1, nil, nil, nil, nil, nil),
              ('PMetaVar', 1, ('icons', 0, nil), nil, nil, nil, nil),
              ('PMetaVar', 0, nil, ('icons', 0, nil), ('icons', 1, nil), nil, nil),
              ('PMetaVar', 0, nil, nil, ('icons', 0, nil), ('icons', 1, nil), nil)]
    levels = [leaves]
    for _ in range(depth - 1):
        prev = [p for lv in levels for p in lv]
        if cap and len(prev) > cap:
            prev = (rng or random).sample(prev, cap)
        new = []
        for a in prev:
            for v in (0, 1):
                new.append(('PExists', v, a))
                new.append(('PMu', v, a))
            if a[0] in ('PMetaVar', 'PESubst', 'PSSubst'):
                for v in (0, 1):
                    if a[0] == 'PMetaVar' and v in idl_list(a[2]):
                        pass
                    else:
                        for pl in leaves[:5] + leaves[5:7]:
                            new.append(('PESubst', a, v, pl))
                    if a[0] == 'PMetaVar' and v in idl_list(a[3]):
                        pass
                    else:
                        for pl in leaves[:5] + leaves[5:7]:
                            new.append(('PSSubst', a, v, pl))
            for b in leaves:
                new.append(('PImplies', a, b))
                new.append(('PImplies', b, a))
                new.append(('PApp', a, b))
            if with_notation:
                for b in leaves[:7]:
                    new.append(('PInstantiate', a, ('pcons', 0, b, ('pnil',))))
                    new.append(('PInstantiate', a, ('pcons', 1, b, ('pcons', 0, leaves[0], ('pnil',)))))
                new.append(('PInstantiate', a, ('pnil',)))
        seen, uniq = set(), []
        for x in new:
            if x not in seen:
                seen.add(x)
                uniq.append(x)
        levels.append(uniq)
    return [p for lv in levels for p in lv]


def ground_patterns():
    return [('EVar', 0), ('EVar', 1), ('SVar', 0), ('SVar', 1), ('Symbol', 0),
            ('Implies', ('SVar', 0), ('Symbol', 0)), ('Implies', ('EVar', 0), ('SVar', 1)), ('App', ('EVar', 1), ('SVar', 0)),
            ('Exists', 0, ('EVar', 0)), ('Mu', 0, ('SVar', 0)), ('Implies', ('SVar', 1), ('SVar', 0)),
            ('Implies', ('SVar', 1), ('Symbol', 0)), ('Implies', ('SVar', 0), ('Symbol', 0))]


def small_maps():
    nilm = ('pnil',)
    leaves = [('PEVar', 0), ('PSVar', 0), ('PSymbol', 0), ('PMetaVar', 0, ('inil',), ('inil',), ('inil',), ('inil',), ('inil',)),
              ('PMetaVar', 1, ('inil',), ('inil',), ('inil',), ('inil',), ('inil',)),
              ('PImplies', ('PMetaVar', 1, ('inil',), ('inil',), ('inil',), ('inil',), ('inil',)), ('PEVar', 1))]
    out = [nilm]
    for k in (0, 1):
        for v in leaves:
            out.append(('pcons', k, v, nilm))
    for v in leaves[:4]:
        for w in leaves[2:]:
            out.append(('pcons', 0, v, ('pcons', 1, w, nilm)))
            out.append(('pcons', 1, v, ('pcons', 0, w, nilm)))
    return out


class Interp0:
    """Interpretation of uninterpreted symbols for concrete evaluation (sigma: id -> ground MPat data)."""

    def __init__(self, sigma=None, default=('Symbol', 99)):
        self.sigma = sigma or {}
        self.default = default


def ceval_with(term, interp0):
    """Evaluate a closed clause; sigma(i) is looked up in interp0."""
    from .spec import sigma
    t = term
    # replace sigma(i) applications by values (ids are concrete after normalisation of the arguments)
    n = norm.Normalizer()
    t = n.norm(t)
    for _ in range(6):
        apps = [a for a in _apps_of(t, 'sigma')]
        if not apps:
            break
        subs = []
        for a in apps:
            i = z3.simplify(a.arg(0))
            if z3.is_int_value(i):
                d = interp0.sigma.get(i.as_long(), interp0.default)
                subs.append((a, data_to_term(d, 'mpat')))
        if not subs:
            break
        t = z3.substitute(t, *subs)
        t = norm.Normalizer().norm(t)
    return z3.simplify(t)


def _apps_of(t, name):
    seen, out, stack = set(), [], [t]
    while stack:
        e = stack.pop()
        if e.get_id() in seen:
            continue
        seen.add(e.get_id())
        if z3.is_app(e):
            if e.decl().name() == name and e.num_args() == 1:
                out.append(e)
            stack.extend(e.children())
    return out
