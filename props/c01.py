"""C01 - checker soundness.  Composition (every piece re-discharged here):
  (a) the four judgements of the real checker are sound for every admissible instance            (lemmas over reflected code)
  (b) apply_esubst / apply_ssubst / instantiate_internal meet their contracts                      (real code, per match arm)
  (c) every opcode arm of execute_instructions refines the spec machine step, incl. Pattern/Proved tags (real code)
  (d) each proof rule of the spec machine, with exactly the syntactic side conditions the checker evaluates, preserves
      'every Proved entry is a schematic theorem' -- from the TRUSTED soundness of the textbook Hilbert system and the glue
      lemmas between meta-level and ground substitution / instantiation (proved by induction).
Two admissibility side conditions are ASSUMED, not proved (see DESIGN.md C01): modus ponens (admissible for the consequent =>
admissible for the antecedent) and instantiate (admissible for every plug, also for plugs a vacuous pending substitution drops)."""
from .common import *  # noqa
from . import c05
from vc.speclemmas import LIB, checker_side_lib
from vc.rsfe import RsProgram
from vc.reflect import reflect_rs_bool_methods, rs_judgement_contracts
from vc.rscontract import verify_rs_unit
from vc import sm, sem
from contracts.rust_subst import inst_contracts, rs_fn_replayer
from contracts.rust_judgements import judgement_lemmas, judgement_replayer
from contracts.sm_contracts import step_unit, equivalence_lemmas, ReadVecContract, read_vec_unit, TakeLoop, verify_unit, exit_unit


def build(repo, tier):
    prog = RsProgram(repo.root)
    rsf = reflect_rs_bool_methods(prog, ['e_fresh', 's_fresh', 'positive', 'negative'])
    cs, hof, preds = inst_contracts(rsf)
    cs.update(rs_judgement_contracts(rsf))
    cs['read_u8_vec'] = ReadVecContract()
    lib = checker_side_lib()
    lib.update(sem.TRUSTED)
    lib.update(sem.GLUE)
    for l in judgement_lemmas(rsf) + equivalence_lemmas(rsf, preds):
        lib[l.name] = l
    rules = sem.rule_lemmas(rsf, preds)
    lib.update(rules)
    lib.update(sem.invariant_lemmas(rules))
    units = lemma_units(lib)
    loops = {('execute_instructions', 'take.for_each'): TakeLoop()}
    for op in sm.OPC:
        for ph in (['Gamma', 'Claim', 'Proof'] if op == 'Publish' else ['Proof']):
            units.append(Unit(f'C01/rs/step/{op}/{ph}', step_unit(prog, cs, op, ph, opts={'hof': hof, 'loops': loops}),
                              info={'split_depth': c05.SPLIT.get(op, 2)}))
    units.append(Unit('C01/rs/step/<byte outside the opcode table>', step_unit(prog, cs, None, 'Proof', opts={'hof': hof}, code='sym')))
    units.append(Unit('C01/rs/read_u8_vec', read_vec_unit(prog, cs)))
    units.append(Unit('C01/rs/verify', verify_unit(prog, cs)))
    for cn in CTORS:
        units.append(Unit(f'C01/rs/instantiate_internal/arm={cn}',
                          verify_rs_unit(prog, cs, 'instantiate_internal', cs['instantiate_internal'], arm=cn, arm_param='p', opts={'hof': hof})))
        for fn in ('apply_esubst', 'apply_ssubst'):
            units.append(Unit(f'C01/rs/{fn}/arm={cn}', verify_rs_unit(prog, cs, fn, cs[fn], arm=cn, arm_param='pattern')))
    spec = PropSpec('C01', units, lib, {}, trusted=TRUSTED_ENGINE + [
        'TRUSTED META-THEOREM: soundness of the Hilbert system of applicative matching logic (Chen, Lucanu, Rosu): ' +
        '; '.join(f'{n}: {l.doc}' for n, l in sem.TRUSTED.items()),
        'rust front end /verif/vc/rsparse.py + rsfe.py; reflection of the four judgements (vc/reflect.py)',
        'spec machine /verif/vc/sm.py (proof rules with the syntactic side conditions of docs/proof-language.md)'],
        assumptions=c05.RS_ASSUMPTIONS + [
            'validity is an abstract predicate: what is decided is that the checker only certifies what the trusted Hilbert system derives; semantic validity in all models rests on the trusted meta-theorem (no finite-model evaluation is part of the deciding step)',
            'ASSUMED (not proved): modus ponens -- a valuation admissible for the consequent is admissible for the antecedent (metavariable ids shared between antecedent and consequent carry compatible constraint lists)',
            'ASSUMED (not proved): instantiate -- the valuation is admissible for every plug, including plugs that a resolved pending substitution drops because the substituted variable does not occur',
            'gamma-phase axioms are assumed valid (property statement: "from an empty or valid theory")',
            'app_ctx_holes constraints are not part of admissibility (never checked by the checker; known finding under C05)'],
        functions=[('rust/src/lib.rs', f) for f in ('execute_instructions', 'verify', 'instantiate_internal', 'instantiate_in_place', 'apply_esubst',
                                                    'apply_ssubst', 'Pattern::e_fresh', 'Pattern::s_fresh', 'Pattern::positive', 'Pattern::negative',
                                                    'Pattern::well_formed', 'Pattern::is_redundant_subst', 'pop_stack*', 'read_u8_vec',
                                                    'Instruction::from')],
        notes=['spec decisions: ' + ' | '.join(sm.SPEC_DECISIONS)])
    spec.lemma_replayers['lemma:rs_'] = judgement_replayer
    spec.lemma_replayers['C01/rs/step/'] = lambda name, model, root: c05.step_replayer(name.replace('C01/', 'C05/', 1), model, root)
    for _fn in ('apply_esubst', 'apply_ssubst', 'instantiate_internal'):
        spec.lemma_replayers['C01/rs/' + _fn + '/'] = rs_fn_replayer
    spec.extra_checks.append(lambda tier, seed: [soundness_standin(repo.root, tier, seed)])
    from .c05 import differential_standin
    spec.extra_checks.append(lambda tier, seed: [differential_standin(repo.root, tier, seed)])       # checker = documented machine on crafted multi-instruction runs and random programs (bounded)
    return spec


def soundness_standin(root, tier, seed):
    """Bounded stand-in (NOT counted): known unsound derivations must be rejected by the real checker."""
    from vc.rsreal import RustReal
    attacks = {
        'capture under Exists by Substitution': '- - 020003000200080 00c1a02010016001800'.replace(' 00c', '00c'),
        'truncated Instantiate': '- - 0c1a01',
    }
    attacks['capture under Exists by Substitution'] = '- - 0200030002000800' + '0c1a0201001600' + '1800'
    rr = RustReal(root)
    viol = []
    try:
        outs = rr.run([f'verify {a}' for a in attacks.values()])
        for (nm, a), out in zip(attacks.items(), outs):
            if out[0] == 'OK':
                viol.append({'name': f'C01/bounded/attack[{nm}]', 'status': 'refuted-bounded', 'backend': 'real checker run', 'model': None,
                             'detail': '', 'confirmed': True, 'replay': {'command': 'verify ' + a, 'real': list(out)}})
    finally:
        rr.close()
    return {'bounded': {'kind': 'regression attacks replayed on the real checker', 'programs': len(attacks)}, 'violations': viol}
