"""C14 - binary round trip: deserialising what the serialiser emitted replays it; truncated / unknown input is an error."""
import z3
from .common import *  # noqa
from .shared import *  # noqa
from vc.reflect import reflect_bool_method
from contracts.pattern_family import c12_contracts
from contracts.interp_sim import METHODS, PHASES_OF, SIFILE
from contracts.deser import DFILE, frame_unit, closure_unit, encdec_unit, decenc_unit, EMITTABLE, deser_bounded
from vc import sm
from .c04 import py_lib, STFILE

BOUNDED_ONLY = ('instantiate', 'instantiate_pattern')       # their enc->dec units are slow: thorough tier only
TIER = ['quick']


def units_for(repo, cs, pid):
    us = [Unit(f'{pid}/py/deserialize_instructions/frame', frame_unit(repo))]
    for w in ('maybe_next_byte', 'next_byte', 'read_list'):
        us.append(Unit(f'{pid}/py/deserialize_instructions.{w}', closure_unit(repo, cs, w), info={'split_depth': 1}))
    for m in list(METHODS) + ['symbol']:
        if m in BOUNDED_ONLY and TIER[0] != 'thorough':
            continue            # enc->dec of the Instantiate case: ~5 min per unit, thorough tier only (quick: dec->enc unit + bounded stand-in)
        for ph in PHASES_OF.get(m, ['Proof']):
            us.append(Unit(f'{pid}/py/enc-dec/{m}/{ph}', encdec_unit(repo, cs, m, ph), info={'split_depth': 1}))
    for m in ('pop', 'save', 'load'):
        us.append(Unit(f'{pid}/py/enc-dec/{m}[Proved term]/Proof', encdec_unit(repo, cs, m, 'Proof', proved_term=True), info={'split_depth': 1}))
    for op in list(sm.OPC) + ['other']:
        for ph in (['Gamma', 'Claim', 'Proof'] if op == 'Publish' else ['Proof']):
            us.append(Unit(f'{pid}/py/dec-enc/{op}/{ph}', decenc_unit(repo, cs, op, ph), info={'split_depth': 1}))
    return us


def build(repo, tier):
    TIER[0] = tier
    notes = []
    try:
        JE = reflect_bool_method(repo, 'evar_is_free')
    except Exception as e:
        JE = None
        notes.append(f'reflection of evar_is_free failed: {e!r}')
    cs = c12_contracts(JE)
    lib = py_lib(JE)
    from vc.speclemmas import STREAM, MAPL, ZIPL
    lib.update(STREAM)
    lib.update({k: v for k, v in MAPL.items() if v is not None})
    lib.update({k: v for k, v in ZIPL.items() if v is not None})
    units = lemma_units(lib) + units_for(repo, cs, 'C14')
    du, dt, dfn = merge(eq_units(repo, cs, 'C14'), family_units(repo, cs, 'C14', 'instantiate'), family_units(repo, cs, 'C14', 'evar_is_free'),
                        destructuring_units(repo, cs, 'C14', unwrap_classes=('Implies',), meths=('unwrap', 'extract'), deconstructs=()),
                        simplify_units(repo, cs, 'C14'))
    spec = PropSpec('C14', units + du, lib, dt, trusted=TRUSTED_ENGINE,
                    assumptions=PY_ASSUMPTIONS + [
                        'data is a bytes-like sequence of ints in 0..255; python lists are finite sequences; list == list compares element-wise with ==',
                        'state equality is python ==, i.e. up to notation (expanded patterns are compared)',
                        'symbols are compared up to the renaming name |-> str(id); the renaming is injective by the symbol-table invariant (C03/C04 symbol unit)',
                        'whole-stream round trip = induction over the call sequence with these per-instruction steps (the induction itself is the loop rule, not re-proved)',
                        'Instantiate case: the id list of an Instantiate instruction has pairwise distinct ids (a python dict cannot be serialised otherwise) - stated as a precondition of the dec->enc unit; '
                        'the function mapped over the plugs is recognised syntactically as a type-asserting identity; operands of pattern constructors are Patterns (dec->enc precondition)'],
                    functions=[(DFILE, 'deserialize_instructions'), (DFILE, 'deserialize_instructions.<locals>.maybe_next_byte'),
                               (DFILE, 'deserialize_instructions.<locals>.next_byte'), (DFILE, 'deserialize_instructions.<locals>.read_list')] +
                              [(SIFILE, 'SerializingInterpreter.' + m) for m in list(METHODS) + ['symbol']] + [(STFILE, 'StatefulInterpreter.' + m) for m in METHODS] + dfn,
                    notes=notes)
    def instantiate_standin(tier, seed):
        w, n = deser_bounded('instantiate', repo.root, tier, seed)
        viol = []
        if w is not None:
            viol.append({'name': 'C14/bounded/replay of serialised call sequences (Instantiate case)', 'status': 'refuted-bounded', 'backend': 'bounded run on the real code',
                         'model': None, 'detail': w.get('failed_clause', ''), 'confirmed': True, 'replay': w})
        return [{'bounded': {'kind': 'random accepted call sequences on the real serialiser replayed by the real deserialiser (state and bytes compared, symbols '
                                     'renumbered); every cut inside an instruction and every spliced unknown/zero opcode must raise',
                             'programs': n, 'bound': f'<= 6 calls per sequence, patterns of depth <= 2, seed {seed}'}, 'violations': viol}]
    spec.extra_checks.append(instantiate_standin)
    def replayer(name, model, root):
        # a refuted step obligation: look for a concrete failing call sequence on the real serialiser / deserialiser (bounded, seeded)
        w, n = deser_bounded(name, root, 'thorough', 0)
        if w is not None:
            w['bounded_evaluated'] = n
            return True, w
        return False, {'note': f'no failing input among {n} random call sequences', 'bounded_evaluated': n}
    spec.lemma_replayers['C14/py/'] = replayer
    spec.unit_bounded = lambda unit_name, tier, seed: deser_bounded(unit_name, repo.root, tier, seed)
    return spec
