"""C10 - every derived rule proves exactly its advertised schema (see contracts/lemlib.py)."""
import z3
from .common import *  # noqa
from .shared import *  # noqa
from vc.reflect import reflect_bool_method
from vc.speclemmas import STREAM, PUBL, MAPL
from contracts.pattern_family import c12_contracts
from contracts.lemlib import library, lemma_unit, dsl_only_unit, lib_bounded, PROP_FILE, TAUT_FILE, MATCH_RULES, match_rule_unit
from contracts.refine import dsl_unit, PFILE
from .c04 import py_lib
from .c08 import RULES


def build(repo, tier):
    notes = []
    try:
        JE = reflect_bool_method(repo, 'evar_is_free')
    except Exception as e:
        JE = None
        notes.append(f'reflection of evar_is_free failed: {e!r}')
    cs = c12_contracts(JE)
    lib = py_lib(JE)
    lib.update(STREAM)
    lib.update(PUBL)
    lib.update({k: v for k, v in MAPL.items() if v is not None})
    pid = 'C10'
    infos, skipped = library(repo)
    us = [Unit(f'{pid}/py/library is assembled from DSL rules only', dsl_only_unit(repo))]
    for q in infos:
        us.append(Unit(f'{pid}/py/{q}' + ('[sidecar schema]' if infos[q].sidecar else ''), lemma_unit(repo, cs, infos, q), info={'split_depth': 1}))
    for name in MATCH_RULES:
        if name.startswith('equiv_trans_match') and tier != 'thorough':
            notes.append(f'Tautology.{name}: its matching contract (53 paths, ~200 s) is verified in the thorough tier only; quick tier: bounded stand-in')
            continue
        us.append(Unit(f'{pid}/py/Tautology.{name}[matching contract]', match_rule_unit(repo, cs, infos, name), info={'split_depth': 1}))
    for r in RULES:
        us.append(Unit(f'{pid}/py/ProofExp.{r} keeps thunks good', dsl_unit(repo, cs, r), info={'split_depth': 1}))
    us.append(Unit(f'{pid}/py/ProofExp.dynamic_inst keeps thunks good', dsl_unit(repo, cs, 'dynamic_inst'), info={'split_depth': 1}))
    bounded = {}
    for r in ('dynamic_inst',):
        for k in (1, 2, 3):
            n = f'{pid}/py/ProofExp.{r} keeps thunks good [|delta| = {k}]'
            us.append(Unit(n, dsl_unit(repo, cs, r, k), info={'split_depth': 1}))
            bounded[n] = f'ProofExp.{r} with exactly {k} map entries (bound: |delta| <= 3)'
    units = lemma_units(lib) + us
    du, dt, dfn = merge(eq_units(repo, cs, pid), family_units(repo, cs, pid, 'instantiate'),
                        destructuring_units(repo, cs, pid, unwrap_classes=('Implies',), meths=('unwrap', 'extract'), deconstructs=()), simplify_units(repo, cs, pid))
    for q, why in sorted(skipped.items()):
        notes.append(f'no docstring schema for {q} ({why}): covered by the bounded stand-in through its callers only')
    spec = PropSpec(pid, units + du, lib, dt, trusted=TRUSTED_ENGINE + ['the docstring grammar of contracts/lemlib.py (~ > /\\ > \\/ > -> right-assoc > <->; premises / dashes / conclusion)'],
                    assumptions=PY_ASSUMPTIONS + [
                        'schemas are read from the docstrings of the current source; pattern parameters are related to schema variables by name, else by order among the variables no premise determines',
                        'premise thunks are good and their conclusions have the premise shapes (up to notation); a callee lemma is used through its own docstring contract (verified in its own unit)',
                        'replay of the built thunk (dynamic conclusion, no tracker error, only prop1-3/MP/instantiate/axioms) is by composition with the good-thunk contracts of the DSL rules (re-run here) - the induction over the thunk tree is not mechanised',
                        'methods without a formula docstring (matching-based helpers, integer-indexed families, the normal-form stages) have no contract here: see notes; they are exercised by the bounded stand-in of C09/C10 only'],
                    functions=[((PROP_FILE if i.cls.name == 'Propositional' else TAUT_FILE), q) for q, i in infos.items()] + [(PFILE, 'ProofExp.' + r) for r in RULES + ['dynamic_inst']] + dfn, notes=notes)
    spec.bounded_units = bounded

    def replayer(name, model, root):
        nm = name.split('/')[2].split('.')[-1] if name.count('/') >= 2 else None
        w, n = lib_bounded(repo, infos, [nm] if nm in [i.name for i in infos.values()] else None, root, 'thorough', 0)
        if w is not None:
            w['bounded_evaluated'] = n
            return True, w
        return False, {'note': f'no failing arguments among {n} random applications', 'bounded_evaluated': n}
    spec.lemma_replayers['C10/py/'] = replayer
    spec.unit_bounded = lambda unit_name, tier, seed: lib_bounded(repo, infos, None, repo.root, tier, seed)

    def standin(tier, seed):
        w, n = lib_bounded(repo, infos, None, repo.root, tier, seed)
        viol = []
        if w is not None:
            viol.append({'name': 'C10/bounded/library entry points on random arguments', 'status': 'refuted-bounded', 'backend': 'bounded run on the real code', 'model': None,
                         'detail': w.get('failed_clause', ''), 'confirmed': True, 'replay': w})
        return [{'bounded': {'kind': 'every entry point with a docstring schema applied to random (also non-propositional) patterns and premise proofs loaded from axioms: advertised conclusion == schema, '
                                     'then replayed on the real StatefulInterpreter (no error, dynamic conclusion == schema, exactly one Proved left on the stack)', 'programs': n, 'bound': f'seed {seed}'}, 'violations': viol}]
    spec.extra_checks.append(standin)
    return spec
