"""C11 - substitution and instantiation obey their algebra."""
from .common import *  # noqa
from vc.speclemmas import LIB
from contracts.pattern_family import base_contracts


def build(repo, tier):
    cs = base_contracts()
    units = lemma_units(LIB)
    targets = {}
    fns = []
    for meth, others in [('apply_esubst', [('evar_id', 'int'), ('plug', 'ppat')]),
                         ('apply_ssubst', [('svar_id', 'int'), ('plug', 'ppat')]),
                         ('instantiate', [('delta', 'pmap')])]:
        c = cs['Pattern.' + meth]
        for cn in PCTORS:
            f = repo.func(PM, f'{cn}.{meth}')
            name = f'C11/py/{cn}.{meth}'
            units.append(Unit(name, verify_unit(repo, cs, f, c, arm=cn)))
            targets[name] = FnTarget(PM, f'{cn}.{meth}', c, arm=cn, enum=arm_enum(cn, others))
            fns.append((PFILE, f'{cn}.{meth}'))
    f = repo.func(PM, 'Instantiate.simplify')
    c = cs['Instantiate.simplify']
    units.append(Unit('C11/py/Instantiate.simplify', verify_unit(repo, cs, f, c, arm='Instantiate')))
    targets['C11/py/Instantiate.simplify'] = FnTarget(PM, 'Instantiate.simplify', c, arm='Instantiate', enum=arm_enum('Instantiate', []))
    fns.append((PFILE, 'Instantiate.simplify'))
    return PropSpec('C11', units, LIB, targets, trusted=TRUSTED_ENGINE, assumptions=PY_ASSUMPTIONS, functions=fns)
