"""C11 - substitution and instantiation obey their algebra."""
from .common import *  # noqa
from vc.speclemmas import LIB
from contracts.pattern_family import base_contracts


def build(repo, tier):
    cs = base_contracts()
    units = lemma_units(LIB)
    targets = {}
    fns = []
    for meth, others in [('apply_esubst', [('evar_id', 'int'), ('plug', 'ppat')]),
                         ('apply_ssubst', [('svar_id', 'int'), ('plug', 'ppat')]),
                         ('instantiate', [('delta', 'pmap')])]:
        c = cs['Pattern.' + meth]
        for cn in PCTORS:
            f = repo.func(PM, f'{cn}.{meth}')
            name = f'C11/py/{cn}.{meth}'
            units.append(Unit(name, verify_unit(repo, cs, f, c, arm=cn)))
            targets[name] = FnTarget(PM, f'{cn}.{meth}', c, arm=cn, enum=arm_enum(cn, others))
            fns.append((PFILE, f'{cn}.{meth}'))
    f = repo.func(PM, 'Instantiate.simplify')
    c = cs['Instantiate.simplify']
    units.append(Unit('C11/py/Instantiate.simplify', verify_unit(repo, cs, f, c, arm='Instantiate')))
    targets['C11/py/Instantiate.simplify'] = FnTarget(PM, 'Instantiate.simplify', c, arm='Instantiate', enum=arm_enum('Instantiate', []))
    fns.append((PFILE, 'Instantiate.simplify'))
    # ---- the checker's counterparts (rust/src/lib.rs): the three functions against the document's substitution / instantiation, and the opcode
    # arms that call them from an ARBITRARY loop state (so that nothing carried over from an earlier instruction can reach the result)
    from vc.rsfe import RsProgram
    from vc.reflect import reflect_rs_bool_methods, rs_judgement_contracts
    from vc.rscontract import verify_rs_unit
    from vc.speclemmas import PY_SIDE
    from contracts.rust_subst import inst_contracts
    from contracts.sm_contracts import step_unit, equivalence_lemmas, ReadVecContract, TakeLoop
    from .c05 import RS_ASSUMPTIONS, RFILE
    prog = RsProgram(repo.root)
    rsf = reflect_rs_bool_methods(prog, ['e_fresh', 's_fresh', 'positive', 'negative'])
    rcs, hof, preds = inst_contracts(rsf)
    rcs.update(rs_judgement_contracts(rsf))
    rcs['read_u8_vec'] = ReadVecContract()
    lib = dict(LIB)
    for l in equivalence_lemmas(rsf, preds):
        lib[l.name] = l
    units = lemma_units(lib) + [u for u in units if u.kind != 'lemma']
    rs_units = []
    for cn in CTORS:
        rs_units.append(Unit(f'C11/rs/instantiate_internal/arm={cn}',
                             verify_rs_unit(prog, rcs, 'instantiate_internal', rcs['instantiate_internal'], arm=cn, arm_param='p', opts={'hof': hof})))
        for fn in ('apply_esubst', 'apply_ssubst'):
            rs_units.append(Unit(f'C11/rs/{fn}/arm={cn}', verify_rs_unit(prog, rcs, fn, rcs[fn], arm=cn, arm_param='pattern')))
    loops = {('execute_instructions', 'take.for_each'): TakeLoop()}
    for op in ('Instantiate', 'ESubst', 'SSubst'):
        rs_units.append(Unit(f'C11/rs/step/{op}/Proof', step_unit(prog, rcs, op, 'Proof', opts={'hof': hof, 'loops': loops}), info={'split_depth': 2, 'op': op, 'phase': 'Proof'}))
    for u in rs_units:
        u.info['lib_exclude'] = tuple(PY_SIDE)          # python-side list lemmas only multiply instances in the checker-side proofs
    units += rs_units
    fns += [(RFILE, f) for f in ('instantiate_internal', 'apply_esubst', 'apply_ssubst', 'execute_instructions (arms Instantiate, ESubst, SSubst)')]
    spec = PropSpec('C11', units, lib, targets, trusted=TRUSTED_ENGINE + ['rust front end /verif/vc/rsparse.py + rsfe.py; reflection of e_fresh/s_fresh/positive/negative (vc/reflect.py)'],
                    assumptions=PY_ASSUMPTIONS + RS_ASSUMPTIONS, functions=fns)
    from .c05 import step_replayer
    from contracts.rust_subst import rs_fn_replayer
    spec.lemma_replayers['C11/rs/step/'] = step_replayer
    for _fn in ('apply_esubst', 'apply_ssubst', 'instantiate_internal'):
        spec.lemma_replayers['C11/rs/' + _fn + '/'] = rs_fn_replayer
    return spec
