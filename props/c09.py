"""C09 - the tautology prover is a correct decision procedure (see contracts/tauto.py for what is deductive and what is bounded)."""
import z3
from .common import *  # noqa
from .shared import *  # noqa
from vc.reflect import reflect_bool_method
from vc.speclemmas import STREAM, PUBL
from contracts.pattern_family import c12_contracts
from contracts.tauto import glue_unit, tauto_bounded, TAUT_FILE
from contracts.lemlib import library, lemma_unit
from .c04 import py_lib

GLUE_RULES = ('imp_transitivity', 'dneg_elim', 'top_intro')


def build(repo, tier):
    notes = []
    try:
        JE = reflect_bool_method(repo, 'evar_is_free')
    except Exception as e:
        JE = None
        notes.append(f'reflection of evar_is_free failed: {e!r}')
    cs = c12_contracts(JE)
    lib = py_lib(JE)
    lib.update(STREAM)
    lib.update(PUBL)
    pid = 'C09'
    infos, _ = library(repo)
    us = [Unit(f'{pid}/py/Tautology.prove_tautology[glue]', glue_unit(repo, cs), info={'split_depth': 1})]
    for q, i in infos.items():
        if i.name in GLUE_RULES:
            us.append(Unit(f'{pid}/py/{q}', lemma_unit(repo, cs, infos, q), info={'split_depth': 1}))
    units = lemma_units(lib) + us
    du, dt, dfn = merge(eq_units(repo, cs, pid), family_units(repo, cs, pid, 'instantiate'),
                        destructuring_units(repo, cs, pid, unwrap_classes=('Implies',), meths=('unwrap', 'extract'), deconstructs=()), simplify_units(repo, cs, pid))
    spec = PropSpec(pid, units + du, lib, dt, trusted=TRUSTED_ENGINE,
                    assumptions=PY_ASSUMPTIONS + [
                        'DEDUCTIVE: only the glue of prove_tautology, under the advertised interfaces of the four stages and of start_resolution_algorithm (assumed contracts)',
                        'NOT DEDUCTIVE: equivalence and shape of each normal-form stage, soundness of the clause bookkeeping (build_proof_from_hint, simplify_clause, move-to-front families) and COMPLETENESS of the '
                        'saturation loop (Robinson): decided by the bounded stand-in only - exhaustive up to the stated size, random beyond, truth-table oracle, every proof replayed on the real StatefulInterpreter',
                        'soundness direction (a returned proof that replays proves a tautology) rests on C01/C08/C10'],
                    functions=[(TAUT_FILE, 'Tautology.prove_tautology')] + dfn, notes=notes)
    spec.level = 'exploration'

    def standin(tier, seed):
        try:
            w, n, (ms, nr, dp) = tauto_bounded(repo.root, tier, seed)
        except Exception as e:           # a time-out of the stand-in is not a verdict
            return [{'undecided': [('C09/bounded/prover against the truth-table oracle', 'stand-in did not finish: ' + repr(e)[:200])]}]
        viol = []
        if w is not None:
            viol.append({'name': 'C09/bounded/prover against the truth-table oracle', 'status': 'refuted-bounded', 'backend': 'bounded run on the real code', 'model': None,
                         'detail': w.get('failed_clause', '') + ' on ' + w.get('pattern', ''), 'confirmed': True, 'replay': w})
        from contracts.tauto import LAST
        cov = {'evaluations': LAST.get('evaluations', n), 'distinct_nontrivial': LAST.get('distinct_nontrivial', 0),
               'rule': 'cases = propositional patterns (exhaustive up to the size bound over phi0..phi2, bot, top, ->, ~, \\/, /\\; then random / clause-shaped / all-trivial-clause families over four '
                       'variables); each is classified by prove_tautology and compared with its truth table, its proof replayed; distinct = distinct printed pattern, non-trivial = has at least one connective. '
                       'The saturation loop is additionally run on clause sets against brute-force SAT (not counted here)',
               'samples': [{'pattern': x[0], 'truth_table': x[1]} for x in LAST.get('samples', []) if isinstance(x, list) and len(x) == 2] or [{'note': 'no sample recorded'}],
               'exhaustive': False}
        return [{'coverage': cov, 'bounded': {'kind': 'prove_tautology and the four normal-form stages on every propositional pattern over phi0..phi2, bot, top, ->, ~, \\/, /\\ '
                                     f'with at most {ms} nodes, and {nr} random patterns (depth <= {dp}, one third of them conjunctions of clauses over four variables): classification vs truth table, advertised conclusion literally the pattern / its negation, '
                                     'proof replayed on the real StatefulInterpreter, stage outputs equivalent, in shape, with proofs of both implications; plus the saturation loop alone on '
                                     f'{4 * nr} clause sets over four variables against brute-force satisfiability', 'programs': n,
                             'bound': f'size <= {ms} exhaustive, {nr} random (seed {seed})'}, 'violations': viol}]
    spec.extra_checks.append(standin)

    def replayer(name, model, root):
        w, n, _ = tauto_bounded(root, 'thorough', 0)
        if w is not None:
            w['bounded_evaluated'] = n
            return True, w
        return False, {'note': f'no failing pattern among {n}', 'bounded_evaluated': n}
    spec.lemma_replayers['C09/py/'] = replayer
    spec.unit_bounded = lambda unit_name, tier, seed: tauto_bounded(repo.root, tier, seed)[:2]
    return spec
