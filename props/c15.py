"""C15 - Metamath compressed proofs are decoded as Appendix B of the Metamath book says."""
from .common import *  # noqa
from contracts.mm_codec import LEMS, convert_unit, import_proof_unit, CFILE


def build(repo, tier):
    units = lemma_units(LEMS)
    units.append(Unit('C15/py/convert_to_number', convert_unit(repo), info={'split_depth': 1}))
    units.append(Unit('C15/py/_import_proof/token-loop', import_proof_unit(repo), info={'split_depth': 1}))
    spec = PropSpec('C15', units, LEMS, {}, trusted=TRUSTED_ENGINE + ['python int pow: pow(5,0)=1, pow(5,k+1)=5*pow(5,k) (lemma pow5_def, trusted)'],
                    assumptions=PY_ASSUMPTIONS + [
                        'strings are finite sequences of character codes; str.isspace is an uninterpreted predicate on characters',
                        'the closures convert_to_number / split_proof / parse_lemmas are extracted mechanically from the body of _import_proof (prefix of constant assignments and nested defs)'],
                    functions=[(CFILE, '_import_proof.convert_to_number'), (CFILE, '_import_proof (token loop)')])
    spec.extra_checks.append(lambda tier, seed: [label_standin(repo.root, tier, seed)])
    return spec


# ---- bounded stand-in (NOT counted as proved): label list, whitespace layout, hypothesis order, Z placement, through the REAL
# MetamathConverter on generated databases, compared with an independent Appendix-B reader -----------------------------------------
import json
import os
import random
import subprocess
import tempfile

HEADER = """$c \\imp ( ) #Pattern |- $.
$v ps ph ch $.
ps-is-pattern $f #Pattern ps $.
ph-is-pattern $f #Pattern ph $.
ch-is-pattern $f #Pattern ch $.
imp-is-pattern $a #Pattern ( \\imp ps ph ) $.
proof-rule-prop-1 $a |- ( \\imp ps ( \\imp ph ps ) ) $.
proof-rule-prop-2 $a |- ( \\imp ( \\imp ps ( \\imp ph ch ) ) ( \\imp ( \\imp ps ph ) ( \\imp ps ch ) ) ) $.
rule.refl_1 $a |- ( \\imp ps ps ) $.
-gQ $a |- ( \\imp ph ph ) $.
.hc $a |- ( \\imp ch ch ) $.
_u.1 $a |- ( \\imp ps ( \\imp ps ps ) ) $.
"""
STATEMENTS = {0: '( \\imp ph ph )', 1: '( \\imp ps ps )', 2: '( \\imp ch ( \\imp ps ch ) )', 3: '( \\imp ch ( \\imp ph ( \\imp ps ch ) ) )'}
MAND = {0: ['ph'], 1: ['ps'], 2: ['ps', 'ch'], 3: ['ps', 'ph', 'ch']}     # database order of the $f statements (ps, ph, ch): deliberately NOT the lexicographic order (ch, ph, ps)


def enc_number(n):
    lsd = 'ABCDEFGHIJKLMNOPQRST'[(n - 1) % 20]
    q = (n - 1) // 20
    ms = ''
    while q > 0:
        ms = 'UVWXY'[(q - 1) % 5] + ms
        q = (q - 1) // 5
    return ms + lsd


def ref_decode(letters):
    out, cur = [], 0
    for c in letters:
        if c == 'Z':
            out.append(0)
        elif 'A' <= c <= 'T':
            out.append(cur * 20 + ord(c) - 64)
            cur = 0
        elif 'U' <= c <= 'Y':
            cur = cur * 5 + ord(c) - 84
    return out


DRIVER = r"""
import sys, os, json
sys.path.insert(0, os.path.join(os.environ['PI2_ROOT'], 'generation', 'src'))
from proof_generation.metamath.parser import load_database
from proof_generation.metamath.converter.converter import MetamathConverter
out = []
for path in json.load(sys.stdin):
    try:
        c = MetamathConverter(load_database(path, include_proof=True))
        # when the database has an earlier proof over the same variables, it is read first and must not influence the target (nor be changed by it)
        e = c._lemmas['earlier'][0] if 'earlier' in c._lemmas else None
        l = c._lemmas['target'][0]
        r = {'ok': True, 'labels': [l.proof.labels[k] for k in sorted(l.proof.labels)], 'keys': sorted(l.proof.labels), 'steps': l.proof.applied_lemmas}
        if e is not None:
            r['earlier'] = [[e.proof.labels[k] for k in sorted(e.proof.labels)], e.proof.applied_lemmas]
        out.append(r)
    except BaseException as e:
        out.append({'ok': False, 'exc': type(e).__name__ + ': ' + str(e)[:200]})
json.dump(out, sys.stdout)
"""


def label_standin(root, tier, seed):
    rng = random.Random(seed)
    n = 60 if tier == 'quick' else 1500
    label_pool = ['imp-is-pattern', 'proof-rule-prop-1', 'proof-rule-prop-2', 'rule.refl_1', '-gQ', '.hc', '_u.1']
    viol, samples = [], []
    d = tempfile.mkdtemp(prefix='pi2_c15_')
    try:
        cases, paths = [], []
        for i in range(n):
            si = rng.choice(list(STATEMENTS))
            labels = [rng.choice(label_pool) for _ in range(rng.randint(0, 4))]
            nums = []
            for _ in range(rng.randint(1, 8)):
                r = rng.random()
                nums.append(rng.randint(1, 25) if r < 0.6 else rng.randint(26, 2000) if r < 0.9 else rng.randint(2001, 1200000))
            letters = ''
            for j, x in enumerate(nums):
                letters += enc_number(x)
                if rng.random() < 0.3:
                    letters += 'Z'
            ws = lambda: rng.choice([' ', '  ', '\n', '\n  ', ' \n '])
            lab_txt = ws().join(labels)
            chunks, k = [], 0
            while k < len(letters):
                step = rng.randint(1, 9)
                chunks.append(letters[k:k + step])
                k += step
            body = '(' + ws() + lab_txt + (ws() if labels else '') + ')' + ws() + ws().join(chunks)
            earlier = ''
            if i % 3 == 2:
                # one database, two compressed proofs over the same set of variables: the first one's label list is not the second one's
                el = [rng.choice(label_pool) for _ in range(rng.randint(1, 3))]
                earlier = f'earlier $p |- {STATEMENTS[si]} $= ( {" ".join(el)} ) {enc_number(rng.randint(1, 30))} $.\n'
            text = HEADER + earlier + f'target $p |- {STATEMENTS[si]} $=\n  {body} $.\n'
            p = os.path.join(d, f'g{i}.mm')
            open(p, 'w').write(text)
            paths.append(p)
            cases.append((si, labels, letters, body, earlier, (el if earlier else None)))
        outs = []
        for hs in ('0', '1', '7'):      # every hash seed must give the same, correct, answer
            env = dict(os.environ, PI2_ROOT=root, PYTHONHASHSEED=hs)
            pr = subprocess.run(['/venv/bin/python', '-c', DRIVER], input=json.dumps(paths), capture_output=True, text=True, env=env, timeout=900)
            if pr.returncode != 0:
                return {'undecided': [('C15/bounded/labels', 'driver failed: ' + pr.stderr[-300:])]}
            outs.append(json.loads(pr.stdout))
        for i, (si, labels, letters, body, earlier, el) in enumerate(cases):
            want_labels = [f'{m}-is-pattern' for m in MAND[si]] + labels
            want_steps = ref_decode(letters)
            for hs, res in zip(('0', '1', '7'), outs):
                got = res[i]
                good = got['ok'] and got['labels'] == want_labels and got['keys'] == list(range(1, len(want_labels) + 1)) and got['steps'] == want_steps
                if good and el is not None:
                    good = got.get('earlier', [None])[0] == [f'{m}-is-pattern' for m in MAND[si]] + el
                if len(samples) < 2 and hs == '0':
                    samples.append({'proof': body, 'labels': got.get('labels'), 'steps': got.get('steps')})
                if not good:
                    viol.append({'name': 'C15/bounded/compressed-proof reading', 'status': 'refuted-bounded', 'backend': 'bounded differential run',
                                 'model': None, 'detail': '', 'confirmed': True,
                                 'replay': {'database': HEADER + earlier + f'target $p |- {STATEMENTS[si]} $= {body} $.', 'PYTHONHASHSEED': hs,
                                            'real': got, 'expected_labels': want_labels, 'expected_steps': want_steps}})
                    break
            if viol:
                break
    finally:
        import shutil
        shutil.rmtree(d, ignore_errors=True)
    return {'bounded': {'kind': 'generated compressed proofs through the real MetamathConverter vs an Appendix-B reference, 3 hash seeds',
                        'programs': n, 'samples': samples}, 'violations': viol}
