"""C05 - the checker implements the documented machine (rust/src/lib.rs against vc/sm.py)."""
import random
import z3
from .common import *  # noqa
from vc.speclemmas import LIB, checker_side_lib
from vc.rsfe import RsProgram
from vc.reflect import reflect_rs_bool_methods, rs_judgement_contracts
from vc.rscontract import verify_rs_unit
from vc import sm, smreplay
from vc.rsreal import RustReal
from contracts.rust_subst import inst_contracts, rs_fn_replayer
from contracts.sm_contracts import (step_unit, equivalence_lemmas, ReadVecContract, read_vec_unit, TakeLoop, verify_unit,
                                    exit_unit)

RFILE = 'rust/src/lib.rs'
SPLIT = {'ModusPonens': 3, 'Load': 1}

RS_ASSUMPTIONS = [
    'u8 / usize values are mathematical integers (ids are only compared and copied; `as` casts are the identity); opcode and operand bytes are arbitrary integers, so every byte value is covered',
    'Rc / & / clone / as_ref are dropped: terms are immutable values, sharing is unobservable (the crate has no interior mutability)',
    'a panic (panic!, failed assert!, expect/unwrap on None, index out of range, unimplemented!) = the machine rejects; panic message formatting is not modelled',
    'machine invariant assumed at every step and re-established by every opcode arm: all patterns on stack / memory / claims are shape-well-formed (ESubst/SSubst bodies are MetaVar/ESubst/SSubst)',
    'termination is not verified; the main loop consumes at least one byte per iteration',
]


def build(repo, tier):
    prog = RsProgram(repo.root)
    rsf = reflect_rs_bool_methods(prog, ['e_fresh', 's_fresh', 'positive', 'negative'])
    cs, hof, preds = inst_contracts(rsf)
    cs.update(rs_judgement_contracts(rsf))
    cs['read_u8_vec'] = ReadVecContract()
    lib = checker_side_lib()
    for l in equivalence_lemmas(rsf, preds):
        lib[l.name] = l
    units = lemma_units(lib)
    loops = {('execute_instructions', 'take.for_each'): TakeLoop()}
    for op in sm.OPC:
        for ph in (['Gamma', 'Claim', 'Proof'] if op == 'Publish' else ['Proof']):
            units.append(Unit(f'C05/rs/step/{op}/{ph}', step_unit(prog, cs, op, ph, opts={'hof': hof, 'loops': loops}),
                              info={'split_depth': SPLIT.get(op, 2), 'op': op, 'phase': ph}))
    units.append(Unit('C05/rs/step/<byte outside the opcode table>', step_unit(prog, cs, None, 'Proof', opts={'hof': hof}, code='sym')))
    for ph in sm.PHASES:
        units.append(Unit(f'C05/rs/loop-exit/{ph}', exit_unit(prog, cs, ph)))
    units.append(Unit('C05/rs/read_u8_vec', read_vec_unit(prog, cs)))
    units.append(Unit('C05/rs/verify', verify_unit(prog, cs)))
    for cn in CTORS:
        units.append(Unit(f'C05/rs/instantiate_internal/arm={cn}',
                          verify_rs_unit(prog, cs, 'instantiate_internal', cs['instantiate_internal'], arm=cn, arm_param='p', opts={'hof': hof})))
        for fn in ('apply_esubst', 'apply_ssubst'):
            units.append(Unit(f'C05/rs/{fn}/arm={cn}', verify_rs_unit(prog, cs, fn, cs[fn], arm=cn, arm_param='pattern')))
    spec = PropSpec('C05', units, lib, {}, trusted=TRUSTED_ENGINE + [
        'rust front end /verif/vc/rsparse.py + rsfe.py; reflection of e_fresh/s_fresh/positive/negative (vc/reflect.py)',
        'spec machine /verif/vc/sm.py written from docs/proof-language.md, with the spec decisions listed in coverage.spec_decisions'],
        assumptions=RS_ASSUMPTIONS,
        functions=[(RFILE, f) for f in ('execute_instructions (one unit per opcode arm and phase)', 'Instruction::from', 'read_u8_vec', 'verify',
                                        'pop_stack', 'pop_stack_pattern', 'pop_stack_proved', 'instantiate_in_place', 'instantiate_internal',
                                        'apply_esubst', 'apply_ssubst', 'Pattern::well_formed', 'Pattern::is_redundant_subst',
                                        'Pattern::e_fresh', 'Pattern::s_fresh', 'Pattern::positive', 'Pattern::negative')],
        notes=['spec decisions: ' + ' | '.join(sm.SPEC_DECISIONS)])
    spec.step_replay = True
    spec.lemma_replayers['C05/rs/step/'] = step_replayer
    for _fn in ('apply_esubst', 'apply_ssubst', 'instantiate_internal'):
        spec.lemma_replayers['C05/rs/' + _fn + '/'] = rs_fn_replayer
    spec.extra_checks.append(lambda tier, seed: [differential_standin(repo.root, tier, seed), three_phase_standin(repo.root, tier, seed)])
    return spec


def _norm_ids(d, table):
    if isinstance(d, bool):
        return d
    if isinstance(d, int):
        if 0 <= d <= 255:
            return d
        if d not in table:
            table[d] = 200 + len(table)
        return table[d]
    if isinstance(d, tuple):
        return (d[0],) + tuple(_norm_ids(x, table) for x in d[1:])
    return d


def step_replayer(name, model, root):
    """Replay a refuted step obligation: build the model's machine state in the real checker (harness `exec`), run the one
    instruction, compare with the spec machine evaluated concretely."""
    parts = name.split('/')
    op, ph = parts[3], parts[4]
    if op not in sm.OPC:
        return False, {'note': 'no concrete opcode'}
    table = {}
    stack = [(_t[0], _norm_ids(_t[1], table)) for _t in smreplay.tl_list(model['stack'])]
    mem = [(_t[0], _norm_ids(_t[1], table)) for _t in smreplay.tl_list(model['memory'])]
    claims = [_norm_ids(c, table) for c in smreplay.ml_list(model['claims'])]
    ops = [_norm_ids(b, table) for b in smreplay.il_list(model['operands'])]
    rr = RustReal(root)
    try:
        agree, rec = smreplay.differential(rr, ph, [sm.OPC[op]] + ops, stack, mem, claims)
    finally:
        rr.close()
    rec['note'] = 'real checker and spec machine ' + ('agree on the model state (spurious model or renamed ids)' if agree else 'DISAGREE')
    if not agree:
        rec['failed_clause'] = name.split('/')[-1]
    return (not agree), rec


def _pat_prog(p):
    """instruction bytes that build a (ground, metavar-free) pattern"""
    c = p[0]
    if c in ('EVar', 'SVar', 'Symbol'):
        return [sm.OPC[c], p[1]]
    if c in ('Implies', 'App'):
        return _pat_prog(p[1]) + _pat_prog(p[2]) + [sm.OPC[c]]
    if c in ('Exists', 'Mu'):
        return _pat_prog(p[2]) + [sm.OPC[c], p[1]]
    raise ValueError(p)


def three_phase_standin(root, tier, seed):
    """Bounded stand-in (NOT counted as proved): whole gamma/claim/proof triples through the real `verify`, compared with the
    spec machine; claims are discharged in random order (only the reverse declaration order is accepted) and triples are
    also truncated at random positions (truncated operands must be rejected)."""
    from vc import norm
    from contracts.sm_contracts import sm_accepts
    rng = random.Random(seed + 7)
    n = 40 if tier == 'quick' else 600
    pool = [('EVar', 0), ('Symbol', 1), ('Implies', ('EVar', 0), ('Symbol', 1)), ('Exists', 0, ('EVar', 0)), ('App', ('Symbol', 1), ('SVar', 2)),
            ('Mu', 1, ('SVar', 1))]
    rr = RustReal(root)
    viol, done, samples = [], 0, []
    try:
        cmds, exps, progs = [], [], []
        for i in range(n):
            k = rng.randint(1, 3)
            axs = rng.sample(pool, k)
            g = []
            for a in axs:
                g += _pat_prog(a) + [sm.OPC['Publish']]
            c = []
            for a in axs:
                c += _pat_prog(a) + [sm.OPC['Publish']]
            order = list(range(k))
            rng.shuffle(order)
            p = []
            for j in order:
                p += [sm.OPC['Load'], j, sm.OPC['Publish']]
            if rng.random() < 0.3:
                p += [sm.OPC['MetaVar'], 0, 1, 2, 0, 0, 0, 1, 5][: rng.randint(2, 9)]
            which = rng.random()
            if which < 0.25 and p:
                p = p[: rng.randint(0, len(p) - 1)]
            elif which < 0.4 and c:
                c = c[: rng.randint(0, len(c) - 1)]
            progs.append((g, c, p))
            hx = lambda b: ''.join('%02x' % x for x in b) or '-'
            cmds.append(f'verify {hx(g)} {hx(c)} {hx(p)}')
            exps.append(z3.is_true(norm.ceval(sm_accepts(idl(*g), idl(*c), idl(*p)))))
        outs = rr.run(cmds)
        for (g, c, p), cmd, exp, out in zip(progs, cmds, exps, outs):
            done += 1
            got = out[0] == 'OK'
            if len(samples) < 3:
                samples.append({'gamma': g, 'claims': c, 'proof': p, 'real_accepts': got, 'spec_accepts': exp})
            if got != exp:
                viol.append({'name': f'C05/bounded/verify[{cmd}]', 'status': 'refuted-bounded', 'backend': 'bounded differential run',
                             'model': None, 'detail': '', 'confirmed': True,
                             'replay': {'command': cmd, 'real': list(out), 'spec_machine_accepts': exp}})
                break
    finally:
        rr.close()
    return {'bounded': {'kind': 'gamma/claim/proof triples (permuted claim order, truncations): real verify vs spec machine',
                        'programs': done, 'samples': samples}, 'violations': viol}


def differential_standin(root, tier, seed):
    """Bounded stand-in (NOT counted as proved): random short programs, real checker vs concretely evaluated spec machine."""
    rng = random.Random(seed)
    n = 150 if tier == 'quick' else 3000
    rr = RustReal(root)
    viol, done = [], 0
    samples = []
    try:
        pool = [2, 3, 4, 5, 6, 7, 8, 9, 10, 11, 12, 13, 14, 15, 19, 21, 22, 24, 26, 27, 28, 29, 30, 137, 16, 1, 0]
        # several instructions of the same kind in one run (what one leaves behind must not reach the next): two / three Instantiate with different plugs,
        # two ESubst / SSubst, repeated Save / Load
        O = sm.OPC
        crafted = [[O['Symbol'], 0, O['Prop1'], O['Instantiate'], 1, 0, O['Symbol'], 1, O['Prop1'], O['Instantiate'], 1, 0],
                   [O['EVar'], 1, O['EVar'], 2, O['Prop2'], O['Instantiate'], 2, 0, 1, O['Symbol'], 3, O['Prop1'], O['Instantiate'], 1, 1, O['Symbol'], 4, O['Prop3'], O['Instantiate'], 1, 0],
                   [O['Symbol'], 0, O['Symbol'], 1, O['Prop1'], O['Instantiate'], 2, 1, 0, O['Symbol'], 2, O['Prop1'], O['Instantiate'], 1, 1],
                   [O['MetaVar'], 0, 0, 0, 0, 0, 0, O['EVar'], 1, O['ESubst'], 0, O['MetaVar'], 1, 0, 0, 0, 0, 0, O['EVar'], 2, O['ESubst'], 1],
                   [O['Symbol'], 0, O['Save'], O['Symbol'], 1, O['Save'], O['Load'], 0, O['Load'], 1, O['Load'], 0],
                   # x1 -> (s0 -> x1): generalising x0 is fine, generalising x1 afterwards (same consequent) is not; x2 afterwards is
                   [O['EVar'], 1, O['Symbol'], 0, O['Prop1'], O['Instantiate'], 2, 1, 0, O['Generalization'], 0, O['Generalization'], 1],
                   [O['EVar'], 1, O['Symbol'], 0, O['Prop1'], O['Instantiate'], 2, 1, 0, O['Generalization'], 0, O['Generalization'], 2],
                   [O['EVar'], 1, O['Symbol'], 0, O['Prop1'], O['Instantiate'], 2, 1, 0, O['Generalization'], 1],
                   # the SAME proved entry generalised twice (through Save / Load): x2 is fine, x1 is not
                   [O['EVar'], 1, O['Symbol'], 0, O['Prop1'], O['Instantiate'], 2, 1, 0, O['Save'], O['Generalization'], 2, O['Pop'], O['Load'], 0, O['Generalization'], 1],
                   # Instantiate on a proof, then on a plain pattern: the second result is a pattern, it cannot be published as a proof
                   [O['Symbol'], 0, O['Prop1'], O['Instantiate'], 1, 0, O['Pop'], O['Symbol'], 1, O['CleanMetaVar'], 0, O['Instantiate'], 1, 0],
                   # mu X0 . X0 (positive) then mu X1 over a body where X1 occurs negatively
                   [O['SVar'], 0, O['Mu'], 0, O['SVar'], 1, O['SVar'], 0, O['Implies'], O['Mu'], 0, O['SVar'], 1, O['SVar'], 0, O['Implies'], O['Mu'], 1]]
        for i in range(n + len(crafted)):
            if i < len(crafted):
                prog = crafted[i]
            else:
                ln = rng.randint(1, 9)
                prog = []
                for _ in range(ln):
                    prog.append(rng.choice(pool))
                    if rng.random() < 0.7:
                        prog.append(rng.choice([0, 0, 1, 1, 2, 3]))
            ph = rng.choice(list(sm.PHASES)) if i >= len(crafted) else 'Proof'
            agree, rec = smreplay.differential(rr, ph, prog, [], [], [])
            done += 1
            if len(samples) < 3:
                samples.append({'phase': ph, 'bytes': prog, 'real': rec['real'][0]})
            if not agree:
                viol.append({'name': f'C05/bounded/differential[{ph}:{" ".join(map(str, prog))}]', 'status': 'refuted-bounded',
                             'backend': 'bounded differential run', 'model': None, 'detail': '', 'confirmed': True, 'replay': rec})
                break
    finally:
        rr.close()
    return {'bounded': {'kind': 'random short programs: real checker vs spec machine', 'programs': done, 'max_len': 9, 'samples': samples},
            'violations': viol}
