"""C07 - python proof rules apply exactly when the documented rule applies (BasicInterpreter.modus_ponens,
exists_generalization, instantiate; the Stateful overrides return super()'s result, see C08)."""
import z3
from .common import *  # noqa
from .shared import *  # noqa
from vc.speclemmas import LIB
from vc.reflect import reflect_bool_method
from vc.contract import Contract, zp, zi, zm, zb
from vc.spec import *  # noqa
from vc.engine import SV
from vc.pyfe import Obj
from contracts.pattern_family import c12_contracts, E

BI = 'proof_generation.basic_interpreter'
BFILE = 'generation/src/proof_generation/basic_interpreter.py'
PROVED = ('obj', 'proof_generation.proved', 'Proved', {'conclusion': 'ppat'})
SELF = ('obj', BI, 'BasicInterpreter', {})


def concl(v):
    if isinstance(v, Obj) and 'conclusion' in v.attrs:
        return zp(v.attrs['conclusion'])
    from vc.contract import ShapeMismatch
    raise ShapeMismatch(f'expected Proved, got {v!r}')


def rule_contracts():
    def mp_ens(a, r):
        l, rt = expand(concl(a['left'])), expand(concl(a['right']))
        return [('left premise is an implication', M.is_('Implies', l)),
                ('antecedent equals right premise', M.get('Implies', 'left', l) == rt),
                ('conclusion is the consequent', expand(concl(r)) == M.get('Implies', 'right', l))]
    mp = Contract('BasicInterpreter.modus_ponens', [('self', SELF), ('left', PROVED), ('right', PROVED)], PROVED,
                  requires=lambda a: [('wf', z3.And(pwf(concl(a['left'])), pwf(concl(a['right']))))], ensures=mp_ens, may_raise=True)

    def gen_ens(a, r):
        c = expand(concl(a['proved']))
        x = _var_name(a['var'])
        lft, rgt = M.get('Implies', 'left', c), M.get('Implies', 'right', c)
        return [('premise is an implication', M.is_('Implies', c)),
                ('conclusion is (exists x. l) -> r', expand(concl(r)) == M.mk('Implies', M.mk('Exists', x, lft), rgt)),
                ('x not free in any admissible instance of the consequent', z3.Implies(adm(rgt), z3.Not(fve(inst_g(rgt), x))))]
    gen = Contract('BasicInterpreter.exists_generalization', [('self', SELF), ('proved', PROVED), ('var', 'ppat')], PROVED,
                   requires=lambda a: [('wf', pwf(concl(a['proved']))), ('var is an EVar', P.is_('EVar', zp(a['var'])))],
                   ensures=gen_ens, may_raise=True)

    def inst_ens(a, r):
        return [('conclusion is the simultaneous instance', expand(concl(r)) == minst_py(expand(concl(a['proved'])), expandmap(zm(a['delta']))))]
    inst = Contract('BasicInterpreter.instantiate', [('self', SELF), ('proved', PROVED), ('delta', 'pmap')], PROVED,
                    requires=lambda a: [('wf', z3.And(pwf(concl(a['proved'])), pmwf(zm(a['delta']))))], ensures=inst_ens,
                    noraise_if=lambda a: z3.BoolVal(True))
    return {c.name: c for c in (mp, gen, inst)}


def _var_name(v):
    return P.get('EVar', 'name', zp(v))


def build(repo, tier):
    notes = []
    try:
        JE = reflect_bool_method(repo, 'evar_is_free')
    except Exception as e:
        JE = None
        notes.append(f'reflection of evar_is_free failed: {e!r}')
    cs = c12_contracts(JE)
    rules = rule_contracts()
    units = lemma_units(LIB)
    targets = {}
    fns = []
    for q, c in rules.items():
        f = repo.func(BI, q)
        name = f'C07/py/{q}'
        units.append(Unit(name, verify_unit(repo, cs, f, c)))
        fns.append((BFILE, q))
        targets[name] = FnTarget(BI, q, c, prelude=HIST_PRELUDE,
                                 call=_call(q), enum=_rule_enum(q))
    du, dt, dfn = merge(destructuring_units(repo, cs, 'C07', unwrap_classes=('Implies',), meths=('unwrap', 'extract'), deconstructs=()),
                        eq_units(repo, cs, 'C07'), family_units(repo, cs, 'C07', 'evar_is_free'),
                        family_units(repo, cs, 'C07', 'instantiate'), family_units(repo, cs, 'C07', 'apply_esubst'),
                        family_units(repo, cs, 'C07', 'apply_ssubst'), simplify_units(repo, cs, 'C07'))
    return PropSpec('C07', units + du, LIB, {**targets, **dt}, trusted=TRUSTED_ENGINE + ['reflection of evar_is_free (vc/reflect.py)'],
                    assumptions=PY_ASSUMPTIONS + ['Proved is a record with one field; premises are arbitrary Proved values (any conclusion)'],
                    functions=fns + dfn, notes=notes)


HIST_PRELUDE = '''
from proof_generation.basic_interpreter import BasicInterpreter
from proof_generation.interpreter import ExecutionPhase
from proof_generation.proved import Proved

_SWAP = {'EVar': SVar, 'SVar': EVar, 'Exists': Mu, 'Mu': Exists, 'ESubst': SSubst, 'SSubst': ESubst, 'Implies': App, 'App': Implies}

def _twin(p):
    # the pattern with every node replaced by the class that has the same fields (where there is one): another pattern, same field values
    cn = type(p).__name__
    if cn in ('EVar', 'SVar'): return _SWAP[cn](p.name)
    if cn in ('Exists', 'Mu'): return _SWAP[cn](p.var, _twin(p.subpattern))
    if cn in ('Implies', 'App'): return type(p)(_twin(p.left), _twin(p.right))
    return p

def _rule(m, *args):
    # the call under test is made on an interpreter that has ALREADY been used for related calls (what they leave behind must not change the answer)
    bi = BasicInterpreter(ExecutionPhase.Proof)
    if m == 'modus_ponens':
        l, r = args
        for a, b in ((Proved(_twin(l.conclusion)), r), (l, Proved(_twin(r.conclusion))), (r, l)):
            try: bi.modus_ponens(a, b)
            except BaseException: pass
        return bi.modus_ponens(l, r)
    if m == 'exists_generalization':
        proved, var = args
        c = proved.conclusion
        warm = []
        if type(c).__name__ == 'Implies':
            warm = [Implies(c.left, _twin(c.right)), Implies(_twin(c.left), c.right), Implies(c.right, c.left)]
        for w in warm:
            try: bi.exists_generalization(Proved(w), var)
            except BaseException: pass
        return bi.exists_generalization(proved, var)
    proved, delta = args
    d = {k: _twin(v) for k, v in delta.items()}
    try: bi.instantiate(proved, d)
    except BaseException: pass
    d.clear(); d.update(delta)                   # the caller reuses its dict for the next call
    return bi.instantiate(proved, d)
'''


def _call(q):
    m = q.split('.')[1]

    def call(ax):
        if m == 'modus_ponens':
            return f"_rule('modus_ponens', {ax['left']}, {ax['right']})"
        if m == 'exists_generalization':
            return f"_rule('exists_generalization', {ax['proved']}, {ax['var']})"
        return f"_rule('instantiate', {ax['proved']}, dict({ax['delta']}))"
    return call


def _rule_enum(q):
    m = q.split('.')[1]

    def gen(tier, rng):
        small = rp.small_patterns(1)
        pats = rp.small_patterns(2, rng=rng, cap=60)
        imps = [p for p in pats if p[0] == 'PImplies']
        if m == 'modus_ponens':
            for l in imps[:40]:
                for r in [l[1], l[2]] + rng.sample(small, min(4, len(small))):
                    yield {'left.conclusion': l, 'right.conclusion': r}
            for l in rng.sample(pats, min(10, len(pats))):
                yield {'left.conclusion': l, 'right.conclusion': rng.choice(small)}
        elif m == 'exists_generalization':
            for c in imps[:60] + rng.sample(pats, min(8, len(pats))):
                for x in (0, 1):
                    yield {'proved.conclusion': c, 'var': ('PEVar', x)}
        else:
            maps = rp.small_maps()
            for c in rng.sample(pats, min(40, len(pats))):
                for d in rng.sample(maps, min(6, len(maps))):
                    yield {'proved.conclusion': c, 'delta': d}
    return gen
