"""C07 - python proof rules apply exactly when the documented rule applies (BasicInterpreter.modus_ponens,
exists_generalization, instantiate; the Stateful overrides return super()'s result, see C08)."""
import z3
from .common import *  # noqa
from .shared import *  # noqa
from vc.speclemmas import LIB
from vc.reflect import reflect_bool_method
from vc.contract import Contract, zp, zi, zm, zb
from vc.spec import *  # noqa
from vc.engine import SV
from vc.pyfe import Obj
from contracts.pattern_family import c12_contracts, E

BI = 'proof_generation.basic_interpreter'
BFILE = 'generation/src/proof_generation/basic_interpreter.py'
PROVED = ('obj', 'proof_generation.proved', 'Proved', {'conclusion': 'ppat'})
SELF = ('obj', BI, 'BasicInterpreter', {})


def concl(v):
    if isinstance(v, Obj) and 'conclusion' in v.attrs:
        return zp(v.attrs['conclusion'])
    from vc.contract import ShapeMismatch
    raise ShapeMismatch(f'expected Proved, got {v!r}')


def rule_contracts():
    def mp_ens(a, r):
        l, rt = expand(concl(a['left'])), expand(concl(a['right']))
        return [('left premise is an implication', M.is_('Implies', l)),
                ('antecedent equals right premise', M.get('Implies', 'left', l) == rt),
                ('conclusion is the consequent', expand(concl(r)) == M.get('Implies', 'right', l))]
    mp = Contract('BasicInterpreter.modus_ponens', [('self', SELF), ('left', PROVED), ('right', PROVED)], PROVED,
                  requires=lambda a: [('wf', z3.And(pwf(concl(a['left'])), pwf(concl(a['right']))))], ensures=mp_ens, may_raise=True)

    def gen_ens(a, r):
        c = expand(concl(a['proved']))
        x = _var_name(a['var'])
        lft, rgt = M.get('Implies', 'left', c), M.get('Implies', 'right', c)
        return [('premise is an implication', M.is_('Implies', c)),
                ('conclusion is (exists x. l) -> r', expand(concl(r)) == M.mk('Implies', M.mk('Exists', x, lft), rgt)),
                ('x not free in any admissible instance of the consequent', z3.Implies(adm(rgt), z3.Not(fve(inst_g(rgt), x))))]
    gen = Contract('BasicInterpreter.exists_generalization', [('self', SELF), ('proved', PROVED), ('var', 'ppat')], PROVED,
                   requires=lambda a: [('wf', pwf(concl(a['proved']))), ('var is an EVar', P.is_('EVar', zp(a['var'])))],
                   ensures=gen_ens, may_raise=True)

    def inst_ens(a, r):
        return [('conclusion is the simultaneous instance', expand(concl(r)) == minst_py(expand(concl(a['proved'])), expandmap(zm(a['delta']))))]
    inst = Contract('BasicInterpreter.instantiate', [('self', SELF), ('proved', PROVED), ('delta', 'pmap')], PROVED,
                    requires=lambda a: [('wf', z3.And(pwf(concl(a['proved'])), pmwf(zm(a['delta']))))], ensures=inst_ens,
                    noraise_if=lambda a: z3.BoolVal(True))
    return {c.name: c for c in (mp, gen, inst)}


def _var_name(v):
    return P.get('EVar', 'name', zp(v))


def build(repo, tier):
    notes = []
    try:
        JE = reflect_bool_method(repo, 'evar_is_free')
    except Exception as e:
        JE = None
        notes.append(f'reflection of evar_is_free failed: {e!r}')
    cs = c12_contracts(JE)
    rules = rule_contracts()
    units = lemma_units(LIB)
    targets = {}
    fns = []
    for q, c in rules.items():
        f = repo.func(BI, q)
        name = f'C07/py/{q}'
        units.append(Unit(name, verify_unit(repo, cs, f, c)))
        fns.append((BFILE, q))
        targets[name] = FnTarget(BI, q, c, prelude='from proof_generation.basic_interpreter import BasicInterpreter\nfrom proof_generation.interpreter import ExecutionPhase\nfrom proof_generation.proved import Proved',
                                 call=_call(q), enum=_rule_enum(q))
    du, dt, dfn = merge(destructuring_units(repo, cs, 'C07', unwrap_classes=('Implies',), meths=('unwrap', 'extract'), deconstructs=()),
                        eq_units(repo, cs, 'C07'), family_units(repo, cs, 'C07', 'evar_is_free'),
                        family_units(repo, cs, 'C07', 'instantiate'), family_units(repo, cs, 'C07', 'apply_esubst'),
                        family_units(repo, cs, 'C07', 'apply_ssubst'), simplify_units(repo, cs, 'C07'))
    return PropSpec('C07', units + du, LIB, {**targets, **dt}, trusted=TRUSTED_ENGINE + ['reflection of evar_is_free (vc/reflect.py)'],
                    assumptions=PY_ASSUMPTIONS + ['Proved is a record with one field; premises are arbitrary Proved values (any conclusion)'],
                    functions=fns + dfn, notes=notes)


def _call(q):
    m = q.split('.')[1]

    def call(ax):
        bi = 'BasicInterpreter(ExecutionPhase.Proof)'
        if m == 'modus_ponens':
            return f"{bi}.modus_ponens({ax['left']}, {ax['right']})"
        if m == 'exists_generalization':
            return f"{bi}.exists_generalization({ax['proved']}, {ax['var']})"
        return f"{bi}.instantiate({ax['proved']}, dict({ax['delta']}))"
    return call


def _rule_enum(q):
    return None
