"""C18 - output is a deterministic function of the input (see contracts/determ.py)."""
from .common import *  # noqa
from contracts.determ import scan_unit, determinism_bounded, scan, MODULES, JUSTIFIED


def build(repo, tier):
    pid = 'C18'
    units = [Unit(f'{pid}/py/order-independence and statelessness of the serialisation / translation code', scan_unit(repo.root, None), use_lemmas=False)]
    obs, nfun = scan(repo.root)
    spec = PropSpec(pid, units, {}, {}, trusted=['the syntactic rules of contracts/determ.py (set-typedness inference is flow-insensitive and annotation-driven: a set that reaches an iteration through an '
                                                 'un-annotated attribute, a container of containers or a callee without return annotation is NOT seen)'],
                    assumptions=['CPython semantics: dict and list iteration order = insertion order; set / frozenset iteration order depends on element hashes (str hashes on PYTHONHASHSEED); sorted() is stable',
                                 'file-system and stdout effects other than the files written by serialize() / translate are out of scope'] +
                                [f'ASSUMED site {p}:{fn}: {frag}: {why}' for p, fn, frag, why in JUSTIFIED],
                    functions=[('generation/src/' + m, '*') for m in MODULES],
                    notes=[f'{nfun} functions scanned, {len(obs)} order / state / nondeterminism sites'])

    spec.level = 'other'
    spec.coverage_extra = {'explanation': f'{len(obs)} order / state / nondeterminism sites found in {nfun} functions of {len(MODULES)} modules; each is an obligation discharged by a syntactic rule '
                                          '(order-insensitive consumer, key-less sorted(), builds a set, __hash__) or ASSUMED with a written justification (' + str(len(JUSTIFIED)) + ' sites); '
                                          'byte identity of real outputs across hash seeds and serialisation orders is a bounded differential run, reported under bounded_standins'}

    def standin(tier, seed):
        w, n = determinism_bounded(repo.root, tier, seed)
        viol = []
        if w is not None:
            viol.append({'name': 'C18/bounded/byte-identical output across hash seeds and serialisation orders', 'status': 'refuted-bounded', 'backend': 'bounded run on the real code', 'model': None,
                         'detail': w.get('failed_clause', ''), 'confirmed': True, 'replay': w})
        return [{'bounded': {'kind': 'Propositional, SmallTheory, Substitution, three generated modules and a module with a memoisation score tie, serialised (binary and pretty, optimize off and on) in fresh processes under several '
                                     'PYTHONHASHSEED values and in both orders within one process; Metamath sample databases converted under the same seeds: all digests identical', 'programs': n,
                             'bound': 'hash seeds 0,1,2,3,7 (quick) / 0..11,13,42 (thorough)'}, 'violations': viol}]
    spec.extra_checks.append(standin)

    def replayer(name, model, root):
        w, n = determinism_bounded(root, 'thorough', 0)
        if w is not None:
            w['bounded_evaluated'] = n
            return True, w
        return False, {'note': f'outputs identical across {n} digests', 'bounded_evaluated': n}
    spec.lemma_replayers['C18/py/'] = replayer
    return spec
