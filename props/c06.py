"""C06 - freshness and positivity judgements are sound for every instantiation (python side + rust side)."""
from .common import *  # noqa
from vc.speclemmas import LIB
from vc.reflect import reflect_bool_method, ReflectError
from contracts.pattern_family import base_contracts
from contracts.rust_judgements import judgement_lemmas, judgement_replayer
from vc.rsfe import RsProgram
from vc.reflect import reflect_rs_bool_methods


def build(repo, tier):
    notes = []
    try:
        JE = reflect_bool_method(repo, 'evar_is_free')
    except (ReflectError, Exception) as e:   # reflection failure leaves the notation clause undecided, never a verdict
        JE = None
        notes.append(f'reflection of evar_is_free failed: {e!r}')
    cs = base_contracts(JE)
    lib = dict(LIB)
    rs_ok = True
    try:
        prog = RsProgram(repo.root)
        rsf = reflect_rs_bool_methods(prog, ['e_fresh', 's_fresh', 'positive', 'negative'])
        for l in judgement_lemmas(rsf):
            lib[l.name] = l
    except Exception as e:
        rs_ok = False
        notes.append(f'rust front end / reflection failed: {e!r}')
    units = lemma_units(lib)
    targets = {}
    c = cs['Pattern.evar_is_free']
    for cn in PCTORS:
        f = repo.func(PM, f'{cn}.evar_is_free')
        name = f'C06/py/{cn}.evar_is_free'
        units.append(Unit(name, verify_unit(repo, cs, f, c, arm=cn)))
        targets[name] = FnTarget(PM, f'{cn}.evar_is_free', c, arm=cn, enum=arm_enum(cn, [('name', 'int')]))
    spec = PropSpec('C06', units, lib, targets,
                    trusted=TRUSTED_ENGINE + ['reflection of evar_is_free into the logical function J_evar_is_free (vc/reflect.py)'],
                    assumptions=PY_ASSUMPTIONS + [
                        'admissible instantiation = total valuation sigma:id->pattern (uninterpreted, so every sigma) whose value at each MetaVar occurrence satisfies that occurrence\'s e_fresh/s_fresh/positive/negative lists; app_ctx_holes is not part of admissibility',
                        'free variables / polarity on non-ground junk (MetaVar inside sigma values) are fixed constants chosen so that all lemmas hold unconditionally'],
                    functions=[(PFILE, f'{cn}.evar_is_free') for cn in PCTORS] + [('rust/src/lib.rs', 'Pattern::' + n) for n in ('e_fresh', 's_fresh', 'positive', 'negative')], notes=notes)
    spec.lemma_replayers['lemma:rs_'] = judgement_replayer
    if rs_ok:
        # where the checker CONSULTS the judgements: the opcode arms Generalization (e_fresh), Mu (positivity), MetaVar / ESubst / SSubst (well-formedness)
        # and Instantiate (all four, per constraint list), each from an arbitrary loop state - a judgement that is right but asked about the wrong
        # pattern / variable, or skipped because of something an earlier instruction left behind, fails here
        from vc.speclemmas import PY_SIDE
        from contracts.rust_subst import inst_contracts
        from contracts.sm_contracts import step_unit, equivalence_lemmas, ReadVecContract, TakeLoop
        from vc.reflect import rs_judgement_contracts
        from .c05 import RS_ASSUMPTIONS, step_replayer, differential_standin
        rcs, hof, preds = inst_contracts(rsf)
        rcs.update(rs_judgement_contracts(rsf))
        rcs['read_u8_vec'] = ReadVecContract()
        for l in equivalence_lemmas(rsf, preds):
            if l.name not in lib:
                lib[l.name] = l
        spec.units = lemma_units(lib) + [u for u in spec.units if u.kind != 'lemma']
        spec.lib = lib
        loops = {('execute_instructions', 'take.for_each'): TakeLoop()}
        for op in ('Generalization', 'Mu', 'MetaVar', 'ESubst', 'SSubst', 'Instantiate'):
            spec.units.append(Unit(f'C06/rs/step/{op}/Proof', step_unit(prog, rcs, op, 'Proof', opts={'hof': hof, 'loops': loops}),
                                   info={'split_depth': 2, 'op': op, 'phase': 'Proof', 'lib_exclude': tuple(PY_SIDE)}))
        spec.lemma_replayers['C06/rs/step/'] = step_replayer
        spec.assumptions = list(spec.assumptions) + RS_ASSUMPTIONS
        spec.functions = list(spec.functions) + [('rust/src/lib.rs', 'execute_instructions (arms Generalization, Mu, MetaVar, ESubst, SSubst, Instantiate)')]
        spec.extra_checks.append(lambda tier, seed: [differential_standin(repo.root, tier, seed)])
    if not rs_ok:
        spec.extra_checks.append(lambda tier, seed: [{'undecided': [('C06/rs', 'rust front end failed: ' + '; '.join(notes))]}])
    if JE is None:
        spec.extra_checks.append(lambda tier, seed: [{'undecided': [('C06/py/notation-independence', 'reflection failed')]}])
    return spec
