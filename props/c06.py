"""C06 - freshness and positivity judgements are sound for every instantiation (python side + rust side)."""
from .common import *  # noqa
from vc.speclemmas import LIB
from vc.reflect import reflect_bool_method, ReflectError
from contracts.pattern_family import base_contracts
from contracts.rust_judgements import judgement_lemmas, judgement_replayer
from vc.rsfe import RsProgram
from vc.reflect import reflect_rs_bool_methods


def build(repo, tier):
    notes = []
    try:
        JE = reflect_bool_method(repo, 'evar_is_free')
    except (ReflectError, Exception) as e:   # reflection failure leaves the notation clause undecided, never a verdict
        JE = None
        notes.append(f'reflection of evar_is_free failed: {e!r}')
    cs = base_contracts(JE)
    lib = dict(LIB)
    rs_ok = True
    try:
        prog = RsProgram(repo.root)
        rsf = reflect_rs_bool_methods(prog, ['e_fresh', 's_fresh', 'positive', 'negative'])
        for l in judgement_lemmas(rsf):
            lib[l.name] = l
    except Exception as e:
        rs_ok = False
        notes.append(f'rust front end / reflection failed: {e!r}')
    units = lemma_units(lib)
    targets = {}
    c = cs['Pattern.evar_is_free']
    for cn in PCTORS:
        f = repo.func(PM, f'{cn}.evar_is_free')
        name = f'C06/py/{cn}.evar_is_free'
        units.append(Unit(name, verify_unit(repo, cs, f, c, arm=cn)))
        targets[name] = FnTarget(PM, f'{cn}.evar_is_free', c, arm=cn, enum=arm_enum(cn, [('name', 'int')]))
    spec = PropSpec('C06', units, lib, targets,
                    trusted=TRUSTED_ENGINE + ['reflection of evar_is_free into the logical function J_evar_is_free (vc/reflect.py)'],
                    assumptions=PY_ASSUMPTIONS + [
                        'admissible instantiation = total valuation sigma:id->pattern (uninterpreted, so every sigma) whose value at each MetaVar occurrence satisfies that occurrence\'s e_fresh/s_fresh/positive/negative lists; app_ctx_holes is not part of admissibility',
                        'free variables / polarity on non-ground junk (MetaVar inside sigma values) are fixed constants chosen so that all lemmas hold unconditionally'],
                    functions=[(PFILE, f'{cn}.evar_is_free') for cn in PCTORS] + [('rust/src/lib.rs', 'Pattern::' + n) for n in ('e_fresh', 's_fresh', 'positive', 'negative')], notes=notes)
    spec.lemma_replayers['lemma:rs_'] = judgement_replayer
    if not rs_ok:
        spec.extra_checks.append(lambda tier, seed: [{'undecided': [('C06/rs', 'rust front end failed: ' + '; '.join(notes))]}])
    if JE is None:
        spec.extra_checks.append(lambda tier, seed: [{'undecided': [('C06/py/notation-independence', 'reflection failed')]}])
    return spec
