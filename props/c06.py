"""C06 - freshness and positivity judgements are sound for every instantiation (python side + rust side)."""
from .common import *  # noqa
from vc.speclemmas import LIB
from vc.reflect import reflect_bool_method, ReflectError
from contracts.pattern_family import base_contracts


def build(repo, tier):
    notes = []
    try:
        JE = reflect_bool_method(repo, 'evar_is_free')
    except (ReflectError, Exception) as e:   # reflection failure leaves the notation clause undecided, never a verdict
        JE = None
        notes.append(f'reflection of evar_is_free failed: {e!r}')
    cs = base_contracts(JE)
    units = lemma_units(LIB)
    targets = {}
    c = cs['Pattern.evar_is_free']
    for cn in PCTORS:
        f = repo.func(PM, f'{cn}.evar_is_free')
        name = f'C06/py/{cn}.evar_is_free'
        units.append(Unit(name, verify_unit(repo, cs, f, c, arm=cn)))
        targets[name] = FnTarget(PM, f'{cn}.evar_is_free', c, arm=cn, enum=arm_enum(cn, [('name', 'int')]))
    spec = PropSpec('C06', units, LIB, targets,
                    trusted=TRUSTED_ENGINE + ['reflection of evar_is_free into the logical function J_evar_is_free (vc/reflect.py)'],
                    assumptions=PY_ASSUMPTIONS + [
                        'admissible instantiation = total valuation sigma:id->pattern (uninterpreted, so every sigma) whose value at each MetaVar occurrence satisfies that occurrence\'s e_fresh/s_fresh/positive/negative lists; app_ctx_holes is not part of admissibility',
                        'free variables / polarity on non-ground junk (MetaVar inside sigma values) are fixed constants chosen so that all lemmas hold unconditionally'],
                    functions=[(PFILE, f'{cn}.evar_is_free') for cn in PCTORS], notes=notes)
    if JE is None:
        spec.extra_checks.append(lambda tier, seed: [{'undecided': [('C06/py/notation-independence', 'reflection failed')]}])
    return spec
