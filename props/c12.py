"""C12 - notation is transparent: == coincides with equality of expansions; every operation is a function of the expansion."""
import copy
import z3
from .common import *  # noqa
from vc.speclemmas import LIB
from vc.reflect import reflect_bool_method
from vc.pyfe import Interp
from vc.contract import make_input, zb, zp
from vc.spec import expand, pwf
from vc.engine import SV
from contracts.pattern_family import c12_contracts


def eq_unit(repo, cs, cn):
    def unit(ctx):
        # the top-level comparison runs the REAL protocol (generated __eq__ / Instantiate.__eq__ body); nested == use the contract
        interp = Interp(repo, ctx, cs, opts={'inline': [f'{c}.__eq__' for c in PCTORS]})
        a = make_input(interp, ctx, 'self', 'ppat', cn)
        b = ctx.input('ppat', 'o')
        ctx.assume(pwf(a.t))
        ctx.assume(pwf(b.t))
        ctx.check_feasible()
        ctx.cover('requires')
        r = interp.pat_eq_real(a, b)
        ctx.oblige('post:iff equal expansions', zb(r) == (expand(a.t) == expand(b.t)), kind='post')
        return r
    return unit


def build(repo, tier):
    notes = []
    try:
        JE = reflect_bool_method(repo, 'evar_is_free')
    except Exception as e:
        JE = None
        notes.append(f'reflection of evar_is_free failed: {e!r}')
    cs = c12_contracts(JE)
    units = lemma_units(LIB)
    targets = {}
    fns = []
    # 1. equality
    ceq = cs['Pattern.__eq__']
    for cn in PCTORS:
        name = f'C12/py/{cn}.__eq__'
        units.append(Unit(name, eq_unit(repo, cs, cn)))
        targets[name] = FnTarget(PM, f'{cn}.__eq__', ceq, arm=cn, call=lambda ax: f"({ax['self']}) == ({ax['o']})",
                                 enum=arm_enum(cn, [('o', 'ppat')]))
        fns.append((PFILE, f'{cn}.__eq__ (dataclass-generated unless Instantiate)'))
    # 2. every virtual operation is stated on (and verified against) the expansion
    for meth, others in [('evar_is_free', [('name', 'int')]), ('metavars', []), ('apply_esubst', [('evar_id', 'int'), ('plug', 'ppat')]),
                         ('apply_ssubst', [('svar_id', 'int'), ('plug', 'ppat')]), ('instantiate', [('delta', 'pmap')])]:
        c = cs['Pattern.' + meth]
        arms = PCTORS if meth in ('evar_is_free', 'metavars') else ['Instantiate']
        for cn in arms:
            f = repo.func(PM, f'{cn}.{meth}')
            name = f'C12/py/{cn}.{meth}'
            units.append(Unit(name, verify_unit(repo, cs, f, c, arm=cn)))
            targets[name] = FnTarget(PM, f'{cn}.{meth}', c, arm=cn, enum=arm_enum(cn, others))
            fns.append((PFILE, f'{cn}.{meth}'))
    f = repo.func(PM, 'Instantiate.simplify')
    units.append(Unit('C12/py/Instantiate.simplify', verify_unit(repo, cs, f, cs['Instantiate.simplify'], arm='Instantiate')))
    fns.append((PFILE, 'Instantiate.simplify'))
    # 3. destructuring sees through notation
    pcls = repo.cls(PM, 'Pattern')
    for meth, cname in [('unwrap', 'Pattern.unwrap'), ('extract', 'Pattern.extract')]:
        func = pcls.methods[meth]
        for target_cls in ('Implies', 'App', 'Exists', 'Mu'):
            base = cs[cname]
            c = copy.copy(base)
            c.params = [('cls', ('const', repo.cls(PM, target_cls))), ('pattern', 'ppat')]
            for cn in PCTORS:
                name = f'C12/py/{target_cls}.{meth}/pattern={cn}'
                units.append(Unit(name, verify_unit(repo, cs, func, c, arm=cn, arm_param='pattern')))
                targets[name] = FnTarget(PM, f'Pattern.{meth}', c, arm=cn,
                                         call=lambda ax, t=target_cls, m=meth: f"{t}.{m}({ax['pattern']})",
                                         enum=_pat_enum(cn, 'pattern'))
        fns.append((PFILE, f'Pattern.{meth}'))
    for dc in ('EVar', 'SVar', 'Symbol', 'Exists', 'Mu'):
        func = repo.func(PM, f'{dc}.deconstruct')
        c = cs[f'{dc}.deconstruct']
        for cn in PCTORS:
            name = f'C12/py/{dc}.deconstruct/pat={cn}'
            units.append(Unit(name, verify_unit(repo, cs, func, c, arm=cn, arm_param='pat')))
            targets[name] = FnTarget(PM, f'{dc}.deconstruct', c, arm=cn, call=lambda ax, d=dc: f"{d}.deconstruct({ax['pat']})",
                                     enum=_pat_enum(cn, 'pat'))
        fns.append((PFILE, f'{dc}.deconstruct'))
    return PropSpec('C12', units, LIB, targets, trusted=TRUSTED_ENGINE + ['reflection of evar_is_free (vc/reflect.py)'],
                    assumptions=PY_ASSUMPTIONS, functions=fns, notes=notes)


def _pat_enum(arm, pname):
    def gen(tier, rng):
        for p in rp.small_patterns(2 if tier == 'quick' else 3, rng=rng, cap=60):
            if p[0] == 'P' + arm:
                yield {pname: p}
    return gen
