"""C12 - notation is transparent: == coincides with equality of expansions; every operation is a function of the expansion."""
from .common import *  # noqa
from .shared import *  # noqa
from vc.speclemmas import LIB
from vc.reflect import reflect_bool_method
from contracts.pattern_family import c12_contracts


def build(repo, tier):
    notes = []
    try:
        JE = reflect_bool_method(repo, 'evar_is_free')
    except Exception as e:
        JE = None
        notes.append(f'reflection of evar_is_free failed: {e!r}')
    cs = c12_contracts(JE)
    parts = [eq_units(repo, cs, 'C12'), family_units(repo, cs, 'C12', 'evar_is_free'), family_units(repo, cs, 'C12', 'metavars'),
             family_units(repo, cs, 'C12', 'apply_esubst', ['Instantiate']), family_units(repo, cs, 'C12', 'apply_ssubst', ['Instantiate']),
             family_units(repo, cs, 'C12', 'instantiate', ['Instantiate']), simplify_units(repo, cs, 'C12'),
             destructuring_units(repo, cs, 'C12')]
    units, targets, fns = merge(*parts)
    spec = PropSpec('C12', lemma_units(LIB) + units, LIB, targets,
                    trusted=TRUSTED_ENGINE + ['reflection of evar_is_free (vc/reflect.py)'],
                    assumptions=PY_ASSUMPTIONS, functions=fns, notes=notes)
    if JE is None:
        spec.extra_checks.append(lambda tier, seed: [{'undecided': [('C12/py/evar_is_free notation-independence', 'reflection failed')]}])
    return spec
