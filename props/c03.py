"""C03 - published theory and claims are exactly what was declared (see contracts/publish.py for the decomposition)."""
import z3
from .common import *  # noqa
from .shared import *  # noqa
from vc.reflect import reflect_bool_method
from vc.speclemmas import STREAM, PUBL, MAPL
from contracts.pattern_family import c12_contracts
from contracts.interp_sim import SIFILE
from contracts.publish import (PFILE, IFILE, OFILE, phase_unit, full_unit, pattern_unit, forward_unit, symbol_table_unit, symbol_refusal_unit, table_kept_unit, publish_bounded, import_unit)
from .c04 import py_lib, STFILE, _bounded as c04_bounded
from contracts.interp_sim import sim_unit

BOUNDED = {}
TIER = ['quick']
PAT_ARMS = ['EVar', 'SVar', 'Symbol', 'Implies', 'App', 'Exists', 'Mu', 'MetaVar', 'ESubst', 'SSubst']


def units_for(repo, cs, pid):
    us = []
    for which in ('gamma', 'claims'):
        for move in (True, False):
            us.append(Unit(f'{pid}/py/ProofExp.execute_{which}_phase[move={move}]', phase_unit(repo, cs, which, move), info={'split_depth': 1}))
    us.append(Unit(f'{pid}/py/ProofExp.execute_full', full_unit(repo, cs)))
    for own in (True, False):
        us.append(Unit(f'{pid}/py/ProofExp.import_module[imported module has axioms of its own={own}]', import_unit(repo, cs, own)))
    for c in PAT_ARMS:
        us.append(Unit(f'{pid}/py/Interpreter.pattern/{c}', pattern_unit(repo, cs, c, False), info={'split_depth': 1}))
    us.append(Unit(f'{pid}/py/MemoizingInterpreter.pattern', pattern_unit(repo, cs, 'Implies', True), info={'split_depth': 1}))
    us.append(Unit(f'{pid}/py/Interpreter.pattern/Instantiate', pattern_unit(repo, cs, 'Instantiate', False), info={'split_depth': 1}))
    us.append(Unit(f'{pid}/py/Interpreter.pattern[through MemoizingInterpreter]/Instantiate', pattern_unit(repo, cs, 'Instantiate', 'base'), info={'split_depth': 1}))
    for k in (0, 1, 2, 3):
        for w, tag in ((False, ''), ('base', '[through MemoizingInterpreter]')):
            if w and k > (2 if TIER[0] == 'thorough' else 1):
                continue
            n = f'{pid}/py/Interpreter.pattern{tag}/Instantiate [|map| = {k}]'
            us.append(Unit(n, pattern_unit(repo, cs, 'Instantiate', w, inst_k=k), info={'split_depth': 1}))
            BOUNDED[n] = f'Interpreter.pattern on a notation node: symbolic definition, keys and plugs, arbitrary tracker state, but the map has exactly {k} entries (bound: |map| <= 3)'
    for c in PAT_ARMS:
        us.append(Unit(f'{pid}/py/Interpreter.pattern[through MemoizingInterpreter]/{c}', _wrapped_arm(repo, cs, c), info={'split_depth': 1}))
    for m in ('publish_axiom', 'publish_claim', 'publish_proof', 'into_claim_phase', 'into_proof_phase'):
        us.append(Unit(f'{pid}/py/MemoizingInterpreter.{m}', forward_unit(repo, cs, m)))
    # the machine-level meaning of publishing and of the memory the optimiser relies on (Save / Load / Publish): the C04 simulation units of these calls, re-run here
    for m, ph in (('publish_axiom', 'Gamma'), ('publish_claim', 'Claim'), ('publish_proof', 'Proof'), ('save', 'Proof'), ('load', 'Proof'), ('save', 'Gamma'), ('load', 'Gamma')):
        us.append(Unit(f'{pid}/py/SerializingInterpreter.{m}/{ph}', sim_unit(repo, cs, m, ph), info={'split_depth': 1}))
    us.append(Unit(f'{pid}/py/SerializingInterpreter.symbol[any table]', symbol_table_unit(repo, cs)))
    us.append(Unit(f'{pid}/py/SerializingInterpreter.symbol[256 or more symbols]', symbol_refusal_unit(repo, cs)))
    for m in ('into_claim_phase', 'into_proof_phase'):
        us.append(Unit(f'{pid}/py/SerializingInterpreter.{m}[symbol table]', table_kept_unit(repo, cs, m)))
    return us


def _wrapped_arm(repo, cs, c):
    """Interpreter.pattern executed with the memoising wrapper as receiver (super().pattern(p) in MemoizingInterpreter.pattern)"""
    from contracts import publish

    def unit(ctx):
        return publish.pattern_unit(repo, cs, c, 'base')(ctx)
    return unit


def build(repo, tier):
    TIER[0] = tier
    notes = []
    try:
        JE = reflect_bool_method(repo, 'evar_is_free')
    except Exception as e:
        JE = None
        notes.append(f'reflection of evar_is_free failed: {e!r}')
    cs = c12_contracts(JE)
    lib = py_lib(JE)
    lib.update(STREAM)
    lib.update(PUBL)
    lib.update({k: v for k, v in MAPL.items() if v is not None})
    units = lemma_units(lib) + units_for(repo, cs, 'C03')
    du, dt, dfn = merge(eq_units(repo, cs, 'C03'), simplify_units(repo, cs, 'C03'))
    spec = PropSpec('C03', units + du, lib, dt, trusted=TRUSTED_ENGINE,
                    assumptions=PY_ASSUMPTIONS + [
                        'AX(m), the journal an imported module m publishes, is used through the contract being proved (induction on the import graph: imports are acyclic, python object graph of finite depth)',
                        'declared axioms and claims are Patterns (annotation list[Pattern]); the symbol table is abstracted as ANY dict injective onto range(n) (SymDict: size + the entries looked at)',
                        'published machine terms: composition with C04 (every serialiser call simulates the machine; publish_* emit Publish of the top of stack) - not re-proved here',
                        'Interpreter.pattern on an Instantiate (notation) node and the proofs phase are NOT covered deductively (bounded stand-in / C02)',
                        'a set of patterns handed to the memoiser is an arbitrary set (membership unconstrained)'],
                    functions=[(PFILE, 'ProofExp.execute_gamma_phase'), (PFILE, 'ProofExp.execute_claims_phase'), (PFILE, 'ProofExp.execute_full'), (PFILE, 'ProofExp.import_module'), (IFILE, 'Interpreter.pattern'),
                               (OFILE, 'MemoizingInterpreter.pattern'), ('generation/src/proof_generation/interpreter_transformer.py', 'InterpreterTransformer.publish_axiom'),
                               ('generation/src/proof_generation/interpreter_transformer.py', 'InterpreterTransformer.publish_claim'),
                               ('generation/src/proof_generation/interpreter_transformer.py', 'InterpreterTransformer.publish_proof'),
                               (SIFILE, 'SerializingInterpreter.symbol'), ('generation/src/proof_generation/io_interpreter.py', 'IOInterpreter.into_claim_phase'),
                               ('generation/src/proof_generation/io_interpreter.py', 'IOInterpreter.into_proof_phase')] + dfn, notes=notes)

    spec.bounded_units = BOUNDED

    def replayer(name, model, root):
        w, n = publish_bounded(name, root, 'thorough', 0)
        if w is not None:
            w['bounded_evaluated'] = n
            return True, w
        return False, {'note': f'no failing input among {n} generated modules / symbol sequences', 'bounded_evaluated': n}
    spec.lemma_replayers['C03/py/'] = replayer
    spec.unit_bounded = lambda unit_name, tier, seed: publish_bounded(unit_name, repo.root, tier, seed)

    def standin(tier, seed):
        out = []
        for what in ('modules', 'symbol'):
            w, n = publish_bounded(what, repo.root, tier, seed)
            viol = []
            if w is not None:
                viol.append({'name': f'C03/bounded/{what}', 'status': 'refuted-bounded', 'backend': 'bounded run on the real code', 'model': None,
                             'detail': w.get('failed_clause', ''), 'confirmed': True, 'replay': w})
            out.append({'bounded': {'kind': ('generated modules (import graphs of depth <= 3, notation-free axioms/claims) through the real execute_gamma_phase/execute_claims_phase on a '
                                             'journalling SerializingInterpreter, with and without the CountingInterpreter/MemoizingInterpreter pipeline' if what == 'modules' else
                                             'symbol sequences over 1..300 distinct names through the real SerializingInterpreter across the three phases: one number per name, no sharing, refusal exactly from the 257th name'),
                                    'programs': n, 'bound': f'seed {seed}'}, 'violations': viol})
        return out
    spec.extra_checks.append(standin)
    return spec
