"""Unit builders shared between properties (a property that relies on a callee contract re-discharges the callee's
obligations itself, so that a defect in the callee is reported under every property that depends on it)."""
import copy
from .common import *  # noqa
from vc.pyfe import Interp
from vc.contract import make_input, zb
from vc.spec import expand, pwf

FAMILY_OTHERS = {
    'evar_is_free': [('name', 'int')], 'metavars': [],
    'apply_esubst': [('evar_id', 'int'), ('plug', 'ppat')], 'apply_ssubst': [('svar_id', 'int'), ('plug', 'ppat')],
    'instantiate': [('delta', 'pmap')],
}


def pat_enum(arm, pname):
    def gen(tier, rng):
        for p in rp.small_patterns(2 if tier == 'quick' else 3, rng=rng, cap=60):
            if p[0] == 'P' + arm:
                yield {pname: p}
        if arm == 'Instantiate':
            # notation nested in notation (kore_bottom(s) style): the expansion is reached only after several unfoldings
            nil = ('inil',)
            mv = lambda i: ('PMetaVar', i, nil, nil, nil, nil, nil)
            pn = ('pnil',)
            heads = [('PMu', 0, ('PSVar', 0)), ('PExists', 0, ('PEVar', 0)), ('PImplies', mv(0), ('PEVar', 1)), ('PApp', ('PSymbol', 0), mv(0)), ('PEVar', 0), ('PSymbol', 0)]
            for h in heads:
                one = ('PInstantiate', h, pn)
                two = ('PInstantiate', one, pn)
                yield {pname: two}
                yield {pname: ('PInstantiate', two, pn)}
                yield {pname: ('PInstantiate', mv(0), ('pcons', 0, one, pn))}
                yield {pname: ('PInstantiate', ('PInstantiate', mv(0), ('pcons', 0, mv(1), pn)), ('pcons', 1, h, pn))}
    return gen


MV_PRELUDE = '''
def _mv2(p):
    # the set a caller received and then updated (as `acc |= p.metavars()` style code does) must not be what the next caller gets
    r1 = p.metavars()
    want = set(r1)
    try:
        r1.add(12345)
    except AttributeError:
        pass
    r2 = type(p)(*[getattr(p, f) for f in p.__dataclass_fields__]).metavars()     # an equal pattern, built afresh
    return want if set(r2) == want else r2
'''


def family_units(repo, cs, pid, meth, arms=None):
    units, targets, fns = [], {}, []
    c = cs['Pattern.' + meth]
    for cn in (arms or PCTORS):
        f = repo.func(PM, f'{cn}.{meth}')
        name = f'{pid}/py/{cn}.{meth}'
        units.append(Unit(name, verify_unit(repo, cs, f, c, arm=cn)))
        if meth == 'metavars':
            targets[name] = FnTarget(PM, f'{cn}.{meth}', c, arm=cn, enum=arm_enum(cn, FAMILY_OTHERS[meth]), call=lambda ax: f"_mv2({ax['self']})", prelude=MV_PRELUDE)
        else:
            targets[name] = FnTarget(PM, f'{cn}.{meth}', c, arm=cn, enum=arm_enum(cn, FAMILY_OTHERS[meth]))
        fns.append((PFILE, f'{cn}.{meth}'))
    return units, targets, fns


def simplify_units(repo, cs, pid):
    f = repo.func(PM, 'Instantiate.simplify')
    c = cs['Instantiate.simplify']
    name = f'{pid}/py/Instantiate.simplify'
    return ([Unit(name, verify_unit(repo, cs, f, c, arm='Instantiate'))],
            {name: FnTarget(PM, 'Instantiate.simplify', c, arm='Instantiate', enum=arm_enum('Instantiate', []))},
            [(PFILE, 'Instantiate.simplify')])


EQ_PRELUDE = '''
def _eq2(a, b):
    # the same comparison also with the notation definition OBJECT shared between both sides (as Notation.__call__ produces it): identity shortcuts must not change the answer
    r1 = (a == b)
    if type(a).__name__ == 'Instantiate' and type(b).__name__ == 'Instantiate' and repr(a.pattern) == repr(b.pattern):
        r2 = (a == type(b)(a.pattern, b.inst))
        if r2 != r1:
            return r2
    return r1
'''


def eq_units(repo, cs, pid):
    units, targets, fns = [], {}, []
    ceq = cs['Pattern.__eq__']

    def mk(cn):
        def unit(ctx):
            # the top-level comparison runs the REAL protocol (generated __eq__ / Instantiate.__eq__ body); nested == use the contract
            interp = Interp(repo, ctx, cs, opts={'inline': [f'{c}.__eq__' for c in PCTORS]})
            a = make_input(interp, ctx, 'self', 'ppat', cn)
            b = ctx.input('ppat', 'o')
            ctx.assume(pwf(a.t))
            ctx.assume(pwf(b.t))
            ctx.check_feasible()
            ctx.cover('requires')
            r = interp.pat_eq_real(a, b)
            ctx.oblige('post:iff equal expansions', zb(r) == (expand(a.t) == expand(b.t)), kind='post')
            return r
        return unit
    for cn in PCTORS:
        name = f'{pid}/py/{cn}.__eq__'
        units.append(Unit(name, mk(cn)))
        targets[name] = FnTarget(PM, f'{cn}.__eq__', ceq, arm=cn, call=lambda ax: f"_eq2(({ax['self']}), ({ax['o']}))", prelude=EQ_PRELUDE,
                                 enum=eq_enum(cn))
        fns.append((PFILE, f'{cn}.__eq__ (dataclass-generated unless Instantiate)'))
    return units, targets, fns


def destructuring_units(repo, cs, pid, unwrap_classes=('Implies', 'App', 'Exists', 'Mu'), meths=('unwrap', 'extract'),
                        deconstructs=('EVar', 'SVar', 'Symbol', 'Exists', 'Mu')):
    units, targets, fns = [], {}, []
    pcls = repo.cls(PM, 'Pattern')
    for meth in meths:
        cname = 'Pattern.' + meth
        func = pcls.methods[meth]
        for target_cls in unwrap_classes:
            c = copy.copy(cs[cname])
            c.params = [('cls', ('const', repo.cls(PM, target_cls))), ('pattern', 'ppat')]
            for cn in PCTORS:
                name = f'{pid}/py/{target_cls}.{meth}/pattern={cn}'
                units.append(Unit(name, verify_unit(repo, cs, func, c, arm=cn, arm_param='pattern')))
                targets[name] = FnTarget(PM, f'Pattern.{meth}', c, arm=cn,
                                         call=lambda ax, t=target_cls, m=meth: f"{t}.{m}({ax['pattern']})",
                                         enum=pat_enum(cn, 'pattern'))
        fns.append((PFILE, f'Pattern.{meth}'))
    for dc in deconstructs:
        func = repo.func(PM, f'{dc}.deconstruct')
        c = cs[f'{dc}.deconstruct']
        for cn in PCTORS:
            name = f'{pid}/py/{dc}.deconstruct/pat={cn}'
            units.append(Unit(name, verify_unit(repo, cs, func, c, arm=cn, arm_param='pat')))
            targets[name] = FnTarget(PM, f'{dc}.deconstruct', c, arm=cn, call=lambda ax, d=dc: f"{d}.deconstruct({ax['pat']})",
                                     enum=pat_enum(cn, 'pat'))
        fns.append((PFILE, f'{dc}.deconstruct'))
    return units, targets, fns


def eq_enum(arm):
    """pairs (self, o): small patterns against leaves, against a sample of composite patterns, and -- for notation --
    against the same definition under every other small map (same keys / other keys / permuted / extra entry)."""
    def gen(tier, rng):
        depth = 2 if tier == 'quick' else 3
        allp = rp.small_patterns(depth, rng=rng, cap=60)
        mine = [p for p in allp if p[0] == 'P' + arm]
        leaves = rp.small_patterns(1)
        comp = rng.sample(allp, min(len(allp), 40))
        maps = rp.small_maps()
        for p in mine:
            for o in leaves:
                yield {'self': p, 'o': o}
            for o in comp:
                yield {'self': p, 'o': o}
            if p[0] == 'PInstantiate':
                for m in maps:
                    yield {'self': p, 'o': ('PInstantiate', p[1], m)}
                if p[2][0] == 'pcons':
                    yield {'self': p, 'o': ('PInstantiate', p[1], p[2] + ())}
    return gen


def merge(*parts):
    units, targets, fns = [], {}, []
    for u, t, f in parts:
        units += u
        targets.update(t)
        fns += f
    return units, targets, fns
