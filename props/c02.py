"""C02 - every proof the toolkit generates is accepted by the checker.

Composition (the induction over call sequences / proof expressions is an argument, not mechanised):
  (S)  every accepted call of the serialising interpreter is ONE step the spec machine accepts, and keeps the tracker/machine simulation
       (the units of C04, re-run here from the current sources, incl. Instantiate key order, Load index, symbol table);
  (G)  every rule of the ProofExp DSL keeps thunks good (units of C08 (G)), so a proof expression the toolkit accepts only makes accepted calls;
  (P)  execute_proofs_phase refuses a module whose proofs do not match its claims one to one, and publishes the proofs in claim order;
       gamma / claims phases: C03;
  (M)  the real checker (rust/src/lib.rs) is the spec machine: C05 - not re-run here.
What the python side never evaluates (machine side conditions) is excluded from (S) as regions: OPEN KNOWN FINDINGS of this property, each with a
witness replayed on every run.  A bounded end-to-end stand-in runs shipped and generated modules, both optimise settings, through the real checker."""
import z3
from .common import *  # noqa
from .shared import *  # noqa
from vc.sorts import *  # noqa
from vc.spec import *  # noqa
from vc.reflect import reflect_bool_method
from vc.speclemmas import STREAM, PUBL, MAPL
from vc.engine import SV, SymRaise
from vc.pyfe import Interp, Obj, LoopContract
from contracts.pattern_family import c12_contracts
from contracts.interp_sim import METHODS, SIFILE
from contracts.refine import dsl_unit, PFILE, good_thunk, _tracker
from contracts.e2e import e2e_bounded
from .c04 import py_lib, sim_units, STFILE, _bounded as c04_bounded
from .c08 import RULES

CONC = z3.Function('thunk_conc', z3.IntSort(), PPat)


class ProofLoop(LoopContract):
    """for proof_expr in self._proof_expressions: the i-th expression is a good thunk for the i-th claim; the tracker holds the claims from i on"""
    def __init__(self, repo, ids, tr):
        self.repo, self.ids, self.tr = repo, ids, tr

    def entry(self, interp, ctx, env, it):
        if not (isinstance(it, SV) and it.kind == 'idl' and it.t.eq(self.ids)):
            raise Unsupported('the loop does not run over self._proof_expressions: the loop contract does not apply')
        self.C0 = self.tr.attrs['claims'].t

    def arbitrary_iteration(self, interp, ctx, env, it):
        i = ctx.fresh('int', 'i').t
        ctx.assume(z3.And(i >= 0, i < il_len(self.ids)))
        rest = ctx.fresh('pclaims', 'claims_from_i')
        conc = SV(CONC(il_nth(self.ids, i)), 'ppat')
        ctx.assume(z3.And(pwf(conc.t), PCLs.is_('pccons', rest.t), expand(PCLs.get('pccons', 'pchd', rest.t)) == expand(conc.t)))
        self.tr.attrs['claims'] = rest
        self.rest = rest
        return good_thunk(self.repo, ctx, conc, 'proof')

    def after_iteration(self, interp, ctx, env, it, elem):
        ctx.oblige('loop-inv:the published proof discharges exactly the first open claim', self.tr.attrs['claims'].t == PCLs.get('pccons', 'pctl', self.rest.t), kind='inv')

    def exit(self, interp, ctx, env, it):
        self.tr.attrs['claims'] = SV(PCLs.mk('pcnil'), 'pclaims')


def proofs_phase_unit(repo, cs):
    def unit(ctx):
        pcls = repo.cls('proof_generation.proof', 'ProofExp')
        tr, S, Mm, C = _tracker(repo, ctx, 'Proof')
        ids = ctx.input('idl', 'proof_expressions')
        claims = ctx.input('plist', 'claims')
        me = Obj(pcls, {'_axioms': SV(PTLs.mk('ptnil'), 'plist'), '_claims': claims, '_submodules': SV(IDL.mk('inil'), 'idl', 'module'),
                        '_proof_expressions': SV(ids.t, 'idl', 'thunk'), '_notations': []})
        interp = Interp(repo, ctx, cs, opts={'loops': {('ProofExp.execute_proofs_phase', 0): ProofLoop(repo, ids.t, tr)}})
        ctx.cover('call')
        try:
            interp.run_function(pcls.find_method('execute_proofs_phase'), [me, tr])
        except SymRaise as e:
            if (e.where or '').startswith('ProofExp.execute_proofs_phase:assert'):
                return None                 # refused by the toolkit
            if (e.where or '').startswith('StatefulInterpreter.'):
                ctx.oblige(f'noraise:publishing a good proof of the first open claim must not trip the tracker ({e.cls} at {e.where})', z3.BoolVal(False), kind='noraise')
                return None
            raise
        ctx.oblige('post:accepted only when there is exactly one proof expression per claim (the checker rejects claims left unproved)', il_len(ids.t) == ptl_len(claims.t), kind='post')
        return None
    return unit


def build(repo, tier):
    notes = []
    try:
        JE = reflect_bool_method(repo, 'evar_is_free')
    except Exception as e:
        JE = None
        notes.append(f'reflection of evar_is_free failed: {e!r}')
    cs = c12_contracts(JE)
    lib = py_lib(JE)
    lib.update(STREAM)
    lib.update(PUBL)
    lib.update({k: v for k, v in MAPL.items() if v is not None})
    pid = 'C02'
    us = sim_units(repo, cs, pid)
    for r in RULES:
        us.append(Unit(f'{pid}/py/ProofExp.{r} keeps thunks good', dsl_unit(repo, cs, r), info={'split_depth': 1}))
    bounded = {}
    for r in ('dynamic_inst', 'instantiate'):
        us.append(Unit(f'{pid}/py/ProofExp.{r} keeps thunks good', dsl_unit(repo, cs, r), info={'split_depth': 1}))
        for k in (1, 2, 3):
            n = f'{pid}/py/ProofExp.{r} keeps thunks good [|delta| = {k}]'
            us.append(Unit(n, dsl_unit(repo, cs, r, k), info={'split_depth': 1}))
            bounded[n] = f'ProofExp.{r} with exactly {k} map entries (bound: |delta| <= 3)'
    us.append(Unit(f'{pid}/py/ProofExp.execute_proofs_phase', proofs_phase_unit(repo, cs), info={'split_depth': 1}))
    units = lemma_units(lib) + us
    du, dt, dfn = merge(eq_units(repo, cs, pid), family_units(repo, cs, pid, 'instantiate'), family_units(repo, cs, pid, 'evar_is_free'),
                        destructuring_units(repo, cs, pid, unwrap_classes=('Implies',), meths=('unwrap', 'extract'), deconstructs=()), simplify_units(repo, cs, pid))
    spec = PropSpec(pid, units + du, lib, dt, trusted=TRUSTED_ENGINE + ['spec machine /verif/vc/sm.py (docs/proof-language.md); its agreement with rust/src/lib.rs is C05'],
                    assumptions=PY_ASSUMPTIONS + [
                        'composition: induction over the call sequence ((S) per call) and over the proof expression ((G) per rule) is not mechanised; gamma/claims phases are C03, checker = spec machine is C05',
                        'REGIONS excluded from (S), each an OPEN KNOWN FINDING with a replayed witness: machine side conditions the python side never evaluates (mu positivity, esubst/ssubst well-formedness, metavar hole/fresh disjointness, instantiate constraint lists and capture, fresh-skip divergence)',
                        'good argument thunks / module well-formedness (i-th proof expression proves the i-th claim) are preconditions',
                        'whole modules (imports, optimisation pipeline, real checker binary) are covered by the bounded end-to-end stand-in only'],
                    functions=[(SIFILE, 'SerializingInterpreter.' + m) for m in list(METHODS) + ['symbol', 'into_claim_phase', 'into_proof_phase']] + [(STFILE, 'StatefulInterpreter.' + m) for m in METHODS] +
                              [(PFILE, 'ProofExp.' + r) for r in RULES + ['dynamic_inst', 'instantiate', 'execute_proofs_phase']] + [(PFILE, 'ProofThunk.__call__')] + dfn, notes=notes)
    spec.bounded_units = bounded
    spec.unit_bounded = lambda unit_name, tier, seed: c04_bounded(unit_name.replace('C02/', 'C04/'), repo.root, tier, seed)

    def replayer(name, model, root):
        w, n = c04_bounded(name.replace('C02/', 'C04/'), root, 'thorough', 0)
        if w is None:
            w, n, _ = e2e_bounded(root, 'thorough', 0)
        if w is not None:
            w['bounded_evaluated'] = n
            return True, w
        return False, {'note': f'no failing input among {n} concrete states / modules', 'bounded_evaluated': n}
    spec.lemma_replayers['C02/py/'] = replayer

    def standin(tier, seed):
        w, n, _ = e2e_bounded(repo.root, tier, seed)
        viol = []
        if w is not None:
            viol.append({'name': 'C02/bounded/end-to-end: serialise, then run the real checker', 'status': 'refuted-bounded', 'backend': 'real toolkit + real checker (rustc harness)', 'model': None,
                         'detail': w.get('failed_clause', ''), 'confirmed': True, 'replay': w})
        return [{'bounded': {'kind': 'Propositional, SmallTheory, Substitution, Definedness and generated modules (DSL compositions with unsorted instantiation maps, axioms, an import, load_axiom), '
                                     'optimize off and on, serialised by the real toolkit and checked by the real verify() of rust/src/lib.rs', 'programs': n, 'bound': f'seed {seed}'}, 'violations': viol}]
    spec.extra_checks.append(standin)
    return spec
