"""C19 - pretty-printed notation shows the arguments it depends on; pretty and binary outputs are produced from the same
interpreter pipeline."""
import string
import z3
from .common import *  # noqa
from vc.speclemmas import LIB
from vc.pyfe import Interp, Env, Obj, SStr, Repo, Unsupported
from vc.engine import SV, Ctx, explore
from vc.spec import expand, mvset
from vc import norm

MODS = {
    'proof_generation.pattern': ['bot', 'neg', 'top', '_and', '_or', 'equiv'],
    'proof_generation.proofs.definedness': ['ceil', 'floor', 'subset', 'equals', 'functional'],
    'proof_generation.proofs.kore': ['in_sort', 'kore_top', 'kore_not', 'kore_and', 'kore_or', 'kore_next', 'kore_implies', 'kore_rewrites',
                                     'kore_dv', 'kore_ceil', 'kore_floor', 'kore_iff', 'kore_equals', 'kore_kseq', 'kore_in', 'kore_bottom'],
}
FAMILIES = [('proof_generation.proofs.substitution', 'forall', ['var']), ('proof_generation.proofs.kore', 'sorted_exists', ['var']),
            ('proof_generation.proofs.kore', 'kore_exists', ['var'])]


def placeholders(fmt):
    """-> (set of positional indices, ok) of a format string (python str or SStr whose symbolic parts are brace-free)"""
    text = fmt.template() if isinstance(fmt, SStr) else fmt
    out = set()
    for lit, field, spec, conv in string.Formatter().parse(text):
        if field is None:
            continue
        head = field.split('.')[0].split('[')[0]
        if '\x00' in field or not head.isdigit():
            raise Unsupported(f'placeholder {field!r} is not a plain positional index')
        out.add(int(head))
    return out


def notation_unit(repo, build, what):
    """build(interp, ctx) -> Notation Obj.  Obligations: every metavariable id of the definition's expansion is a placeholder;
    every placeholder is below the arity."""
    def unit(ctx):
        interp = Interp(repo, ctx, {})
        n = build(interp, ctx)
        if not isinstance(n, Obj) or n.cls.name != 'Notation':
            raise Unsupported(f'{what} is not a Notation: {n!r}')
        fmt, arity, d = n.attrs['format_str'], n.attrs['arity'], n.attrs['definition']
        ph = placeholders(fmt)
        ctx.cover('notation built')
        phset = z3.EmptySet(Int)
        for i in ph:
            phset = z3.SetAdd(phset, z3.IntVal(i))
        dep = mvset(expand(d.t))
        ctx.oblige('post:every argument the definition depends on is shown', z3.IsSubset(dep, phset), kind='post', dep=str(norm.ceval(dep)), ph=sorted(ph))
        ctx.oblige('post:placeholders are within the arity', z3.BoolVal(all(i < arity for i in ph)), kind='post')
        return n
    return unit


def build(repo, tier):
    units = []
    fns = []
    for mod, names in MODS.items():
        m = repo.module(mod)
        for nm in names:
            units.append(Unit(f'C19/notation/{mod.split(".")[-1]}.{nm}',
                              notation_unit(repo, lambda it, ctx, m=m, nm=nm: it.global_lookup(m, nm), nm), use_lemmas=False))
            fns.append((mod.replace('.', '/') + '.py', nm))
    for mod, fn, params in FAMILIES:
        f = repo.func(mod, fn)
        units.append(Unit(f'C19/notation/{mod.split(".")[-1]}.{fn}(var)',
                          notation_unit(repo, lambda it, ctx, f=f: it.run_function(f, [ctx.input('int', 'var')]), fn), use_lemmas=False))
        fns.append((mod.replace('.', '/') + '.py', fn))
    # nary_app(symbol, n, cell): arbitrary symbol name, both cell settings; n is enumerated (bounded in n, see evidence)
    f = repo.func('proof_generation.proofs.kore', 'nary_app')
    for n in range(0, 13):
        for cell in (False, True):
            def mk(it, ctx, n=n, cell=cell):
                sym = it.mk_pat('Symbol', [ctx.input('name', 'symbol')])
                return it.run_function(f, [sym, n, cell])
            units.append(Unit(f'C19/notation/kore.nary_app(n={n},cell={cell})', notation_unit(repo, mk, 'nary_app'), use_lemmas=False))
    fns.append(('proof_generation/proofs/kore.py', 'nary_app (n = 0..12, any symbol)'))
    units.append(Unit('C19/py/Notation.print_instantiation', print_unit(repo), use_lemmas=False))
    units.append(Unit('C19/py/Notation.__call__', call_unit(repo), use_lemmas=False))
    for flag in (False, True):
        units.append(Unit(f'C19/py/Instantiate.pretty[simplify_instantiations={flag}]', inst_pretty_unit(repo, flag)))
    fns.append((PFILE, 'Instantiate.pretty'))
    for fmt in ('Binary', 'Pretty'):
        pass
    units.append(Unit('C19/py/ProofExp.serialize: same pipeline for binary and pretty', serialize_unit(repo), use_lemmas=False))
    from contracts.pretty import pretty_method_unit, print_stack_unit, STEP_NAME, PPFILE
    from contracts.pattern_family import c12_contracts
    from contracts.interp_sim import PHASES_OF
    cs = c12_contracts(None)
    units.append(Unit('C19/py/PrettyPrintingInterpreter.print_stack', print_stack_unit(repo, cs)))
    for m in STEP_NAME:
        for ph in PHASES_OF.get(m, ['Proof']):
            units.append(Unit(f'C19/py/PrettyPrintingInterpreter.{m}/{ph}', pretty_method_unit(repo, cs, m, ph), info={'split_depth': 1}))
            fns.append((PPFILE, f'PrettyPrintingInterpreter.{m} (through the pretty() decorator)'))
    fns += [(PFILE, 'Notation.print_instantiation'), (PFILE, 'Notation.__call__'), ('generation/src/proof_generation/proof.py', 'ProofExp.serialize')]
    from .c04 import py_lib
    lib = py_lib(None)
    units = lemma_units(lib) + units
    spec = PropSpec('C19', units, lib, {}, trusted=TRUSTED_ENGINE,
                    assumptions=PY_ASSUMPTIONS + [
                        'str.format semantics: placeholders are found with string.Formatter().parse on the format string in which symbolic pieces (str(var), symbol names) are brace-free',
                        'rendering of an argument is an opaque string; "printed differently" is decided up to the delimiters of the format string (str.format does not guarantee unambiguous concatenation)',
                        'nary_app is checked for arities 0..12, which includes two-digit placeholders (bounded in the arity only; symbol and cell flag arbitrary)',
                        'binary side: one instruction per interpreter call is C04; pretty side: all 24 decorator-generated methods of PrettyPrintingInterpreter are executed through the real decorator (one step line, starting with the instruction name, then only empty or tab-indented lines; print_stack and the write_list loop of metavar under loop contracts); whole files: bounded stand-in only', 'renderings of patterns, symbol names, numbers and the id text passed to load() contain no line break',
                        'Instantiate.pretty: membership and lookup in opts.notations are decided by == on the keys (hash is assumed consistent with ==, as the dataclass / Instantiate.__hash__ definitions intend)'],
                    functions=fns)

    def standin(tier, seed):
        w, n = render_bounded(repo.root, tier, seed)
        viol = []
        if w is not None:
            viol.append({'name': 'C19/bounded/rendering and step correspondence on the real code', 'status': 'refuted-bounded', 'backend': 'bounded run on the real code', 'model': None,
                         'detail': w.get('failed_clause', ''), 'confirmed': True, 'replay': w})
        return [{'bounded': {'kind': 'every shipped notation and nary_app of arity 0..14 (cell and non-cell) applied to arguments with pairwise distinct renderings: each argument the definition depends on '
                                     'appears in the rendering; shipped modules and modules with long axioms / repeated large patterns serialised in both formats and optimise settings: the steps of '
                                     'the pretty files (non-empty, non-indented lines) correspond one-to-one, in order, to the instructions of the binary files', 'programs': n, 'bound': f'seed {seed}'},
                 'violations': viol}]
    spec.extra_checks.append(standin)
    spec.unit_bounded = lambda unit_name, tier, seed: render_bounded(repo.root, tier, seed)

    def replayer(name, model, root):
        w, n = render_bounded(root, 'thorough', 0)
        if w is not None:
            w['bounded_evaluated'] = n
            return True, w
        return False, {'note': f'no failing rendering among {n} checks', 'bounded_evaluated': n}
    spec.lemma_replayers['C19/'] = replayer
    return spec


RENDER_PRELUDE = r"""
import io, os, tempfile
from pathlib import Path
from proof_generation.instruction import Instruction
from proof_generation.pattern import *
from proof_generation.pattern import _and, _or
from proof_generation.proof import OutputFormat, ProofExp
from proof_generation.proofs.propositional import Propositional
from proof_generation.proofs.small_theory import SmallTheory
from proof_generation.proofs.substitution import Substitution, forall
from proof_generation.proofs import definedness as D, kore as K

ONE = (Instruction.EVar, Instruction.SVar, Instruction.Symbol, Instruction.Exists, Instruction.Mu, Instruction.ESubst, Instruction.SSubst, Instruction.CleanMetaVar,
       Instruction.Generalization, Instruction.Load)

def decode(data):
    out, i = [], 0
    while i < len(data):
        ins = Instruction(data[i]); i += 1
        if ins in ONE: i += 1
        elif ins == Instruction.MetaVar:
            i += 1
            for _ in range(5): i += 1 + data[i]
        elif ins == Instruction.Instantiate: i += 1 + data[i]
        out.append('MetaVar' if ins == Instruction.CleanMetaVar else ins.name)
    return out

def steps(text):
    return [l.split(' ')[0].split('=')[0] for l in text.split('\n') if l and not l.startswith('\t')]

def notations():
    out = [bot, neg, top, _and, _or, equiv, forall(3)]
    for m, names in ((D, ['ceil', 'floor', 'subset', 'equals', 'functional']),
                     (K, ['in_sort', 'kore_top', 'kore_not', 'kore_and', 'kore_or', 'kore_next', 'kore_implies', 'kore_rewrites', 'kore_dv', 'kore_ceil', 'kore_floor', 'kore_iff',
                          'kore_equals', 'kore_kseq', 'kore_in', 'kore_bottom'])):
        for n in names:
            if hasattr(m, n): out.append(getattr(m, n))
    out += [K.sorted_exists(2), K.kore_exists(2)]
    for ar in range(0, 15):
        for cell in (False, True):
            out.append(K.nary_app(Symbol('ksym_f'), ar, cell))
    return out

def long_chain(n):
    p = MetaVar(n)
    for i in reversed(range(n)): p = Implies(MetaVar(i), p)
    return p

def _c19(seed):
    done = 0
    for nt in notations():
        args = [Symbol('ARG%dX' % i) for i in range(nt.arity)]
        opts = PrettyOptions(notations={nt.definition: nt})
        shown = nt(*args).pretty(opts)
        deps = nt.definition.metavars()
        for i in sorted(deps):
            if str(args[i].pretty(opts)) not in shown:
                return ('fail', 'notation %s/%d: argument %d, on which the definition depends, is not shown: %r' % (nt.label, nt.arity, i, shown), done)
            done += 1
    # two applications of one notation under ONE options object: different patterns, differently printed arguments -> different renderings
    fam = [EVar(0), SVar(0), Symbol('s0'), EVar(1), SVar(1), Implies(EVar(0), EVar(1)), App(EVar(0), EVar(1)), Exists(0, EVar(1)), Mu(0, EVar(1)),
           Implies(SVar(0), SVar(1)), App(SVar(0), SVar(1)), ESubst(MetaVar(0), EVar(0), EVar(1)), SSubst(MetaVar(0), SVar(0), EVar(1))]
    for nt in notations():
        deps = sorted(nt.definition.metavars())
        if not deps or nt.arity > 4:
            continue
        opts = PrettyOptions(notations={nt.definition: nt})
        base = [Symbol('ARG%dX' % i) for i in range(nt.arity)]
        seen = {}
        for pos in deps:
            for v in fam:
                args = list(base); args[pos] = v
                ap = nt(*args)
                shown = ap.pretty(opts)
                key = (pos, v.pretty(opts))
                for (pos2, r2), (ap2, shown2) in seen.items():
                    if shown2 == shown and ap2.simplify() != ap.simplify() and (pos2 != pos or r2 != key[1]):
                        return ('fail', 'notation %s: applications %r and %r denote different patterns and differ in the rendering of an argument, but both print as %r (same options object)'
                                % (nt.label, ap2, ap, shown), done)
                seen[key] = (ap, shown)
                done += 1
    # one call = one step, also for metavariables with several constraint lists
    from proof_generation.pretty_printing_interpreter import PrettyPrintingInterpreter
    from proof_generation.serializing_interpreter import SerializingInterpreter
    from proof_generation.interpreter import ExecutionPhase
    import itertools
    choices = [(), (1,), (1, 2)]
    for ls in itertools.product(choices, repeat=5):
        if sum(1 for l in ls if l) > 3 or set(ls[4]) & set(ls[0]):
            continue
        kw = dict(e_fresh=tuple(EVar(i) for i in ls[0]), s_fresh=tuple(SVar(i) for i in ls[1]), positive=tuple(SVar(i) for i in ls[2]),
                  negative=tuple(SVar(i + 2) for i in ls[3]), application_context=tuple(EVar(i + 2) for i in ls[4]))
        txt, bts = io.StringIO(), io.BytesIO()
        pi, si = PrettyPrintingInterpreter(ExecutionPhase.Gamma, txt), SerializingInterpreter(ExecutionPhase.Gamma, bts)   # (kept alive: they close their stream when collected)
        pi.metavar(0, **kw)
        si.metavar(0, **kw)
        if steps(txt.getvalue()) != decode(bts.getvalue()):
            return ('fail', 'metavar(0, %r): the binary side emits %r, the pretty side lists the steps %r' % (kw, decode(bts.getvalue()), steps(txt.getvalue())), done)
        done += 1
    big = App(App(Symbol('cfg'), long_chain(12)), long_chain(14))
    la = ProofExp(axioms=[long_chain(30)], claims=[long_chain(30)])
    la._proof_expressions = [la.load_axiom(la._axioms[0])]
    bc = ProofExp(axioms=[Implies(big, big), Implies(big, Implies(big, big))], claims=[])
    for name, mod in (('Propositional', Propositional()), ('SmallTheory', SmallTheory()), ('Substitution', Substitution()), ('LongAxiom', la), ('BigConfiguration', bc)):
        for opt in (False, True):
            with tempfile.TemporaryDirectory() as d:
                mod.serialize(Path(d) / 'b', OutputFormat.Binary, opt)
                mod.serialize(Path(d) / 'p', OutputFormat.Pretty, opt)
                import gc; gc.collect()
                for ph in ('gamma', 'claim', 'proof'):
                    ins = decode((Path(d) / ('b.ml-' + ph)).read_bytes())
                    st = steps((Path(d) / ('p.pretty-' + ph)).read_text())
                    if ins != st:
                        k = next((i for i, (a, b) in enumerate(zip(ins, st)) if a != b), min(len(ins), len(st)))
                        return ('fail', '%s optimize=%s %s: %d instructions vs %d pretty steps; first mismatch at #%d: %s vs %s' %
                                (name, opt, ph, len(ins), len(st), k, ins[k] if k < len(ins) else '-', st[k][:40] if k < len(st) else '-'), done)
                    done += len(ins)
    return ('ok', done)
"""


def render_bounded(root, tier, seed):
    from vc import replay as rp
    jobs = [{'expr': f'_c19({seed})'}]
    real = rp.run_real(jobs, prelude=RENDER_PRELUDE, root=root, timeout=1500)[0]
    rp.check_driver(real)
    if not real['ok']:
        return {'expr': jobs[0]['expr'], 'real': real, 'failed_clause': 'bounded driver raised: ' + str(real.get('exc'))}, 0
    d = rp.repr_to_data(real['repr'])
    if d[0] == 'tuple' and d[1] == 'ok':
        return None, d[2]
    return {'expr': jobs[0]['expr'], 'real': real, 'failed_clause': str(d[2])}, (d[3] if len(d) > 3 else 0)


def print_unit(repo):
    """print_instantiation(applied, opts) == format_str.format(*[pretty(v) for v in applied.inst.values()]) in key order."""
    def unit(ctx):
        interp = Interp(repo, ctx, {})
        ncls = repo.cls(PM, 'Notation')
        d = ctx.input('ppat', 'definition')
        fmt = SStr([('name', ctx.input('name', 'format_str').t)])     # an arbitrary format string
        n = Obj(ncls, {'label': 'n', 'arity': 3, 'definition': d, 'format_str': fmt})
        args = [ctx.input('ppat', f'arg{i}') for i in range(3)]
        applied = interp.mk_pat('Instantiate', [d, {0: args[0], 1: args[1], 2: args[2]}])
        opts = Obj(repo.cls(PM, 'PrettyOptions'), {'simplify_instantiations': False, 'notations': {}})
        # arguments render to opaque strings identified by the argument
        from vc.contract import Contract

        class PrettyC:
            name = 'Pattern.pretty'

            def apply(self, interp, ctx, a, kwargs=None):
                return SStr([('pretty', a[0].t.sexpr())])
        interp.contracts['Pattern.pretty'] = PrettyC()
        from contracts.pattern_family import eq_contract
        interp.contracts['Pattern.__eq__'] = eq_contract()
        f = repo.func(PM, 'Notation.print_instantiation')
        res = interp.run_function(f, [n, applied, opts])
        want = SStr([('fmt', fmt, tuple(SStr([('pretty', a.t.sexpr())]) for a in args))])
        ok = isinstance(res, SStr) and res.key() == want.key()
        ctx.cover('print_instantiation returned')
        ctx.oblige('post:rendering is the format string applied to the renderings of the arguments in key order', z3.BoolVal(bool(ok)), kind='post',
                   got=repr(res))
        return res
    return unit


def inst_pretty_unit(repo, simplify_flag):
    """Instantiate.pretty(opts): with a registered notation for self.pattern the result is exactly that notation's print_instantiation(self, opts);
    with simplify_instantiations the rendering of self.simplify(); in every case the options object is left as it was (no state carried between renderings)."""
    def unit(ctx):
        from contracts.pattern_family import eq_contract, c12_contracts
        cs = c12_contracts(None)
        interp = Interp(repo, ctx, dict(cs))
        ncls = repo.cls(PM, 'Notation')
        d = ctx.input('ppat', 'definition')
        d2 = ctx.input('ppat', 'registered')
        n = Obj(ncls, {'label': 'n', 'arity': 3, 'definition': d2, 'format_str': SStr([('name', ctx.input('name', 'format_str').t)])})
        args = [ctx.input('ppat', f'arg{i}') for i in range(3)]
        applied = interp.mk_pat('Instantiate', [d, {0: args[0], 1: args[1], 2: args[2]}])
        notations = {d2: n}
        opts = Obj(repo.cls(PM, 'PrettyOptions'), {'simplify_instantiations': simplify_flag, 'notations': notations})
        before = dict(opts.attrs)
        calls, pcalls = [], []
        from vc.spec import pwf
        ctx.assume(z3.And(pwf(applied.t), pwf(d2.t)))
        ctx.check_feasible()

        class PrettyC:
            name = 'Pattern.pretty'

            def apply(self, interp, ctx, a, kwargs=None):
                if len(a) < 2 or a[1] is not opts:
                    raise Unsupported('pretty() called with other options than the ones it was given')
                pcalls.append(a[0])
                return SStr([('pretty', z3.simplify(a[0].t).sexpr())])

        class PrintC:
            name = 'Notation.print_instantiation'

            def apply(self, interp, ctx, a, kwargs=None):
                calls.append(a)
                return SStr([('print_instantiation', id(a[0]), z3.simplify(a[1].t).sexpr())])
        interp.contracts['Pattern.pretty'] = PrettyC()
        interp.contracts['Notation.print_instantiation'] = PrintC()
        f = repo.func(PM, 'Instantiate.pretty')
        res = interp.run_function(f, [applied, opts])
        ctx.cover('Instantiate.pretty returned')
        frame = set(opts.attrs) == set(before) and all(opts.attrs[k] is before[k] for k in before) and list(notations.items()) == [(d2, n)]
        ctx.oblige('frame:the options object is unchanged', z3.BoolVal(bool(frame)), kind='frame', attrs=sorted(opts.attrs))
        if simplify_flag:
            ok = len(pcalls) == 1 and isinstance(res, SStr) and res.key() == SStr([('pretty', z3.simplify(pcalls[0].t).sexpr())]).key()
            ctx.oblige('post:rendering of one pattern', z3.BoolVal(bool(ok)), kind='post', got=repr(res))
            if ok:
                ctx.oblige('post:the rendered pattern denotes the same pattern as this application', expand(pcalls[0].t) == expand(applied.t), kind='post')
        elif calls:
            ok = (len(calls) == 1 and calls[0][0] is n and z3.simplify(calls[0][1].t).eq(z3.simplify(applied.t)) and calls[0][2] is opts
                  and isinstance(res, SStr) and res.key() == SStr([('print_instantiation', id(n), z3.simplify(applied.t).sexpr())]).key())
            ctx.oblige('post:rendering is the registered notation\'s print_instantiation of this application', z3.BoolVal(bool(ok)), kind='post', got=repr(res))
            ctx.oblige('post:a notation is used only for its own definition', expand(d.t) == expand(d2.t), kind='post')
        else:
            ctx.oblige('post:a registered notation is not bypassed', expand(d.t) != expand(d2.t), kind='post')
        return res
    return unit


def call_unit(repo):
    """Notation.__call__(*args) = Instantiate(definition, {0: args[0], ...}) (keys in argument order)"""
    def unit(ctx):
        interp = Interp(repo, ctx, {})
        ncls = repo.cls(PM, 'Notation')
        d = ctx.input('ppat', 'definition')
        n = Obj(ncls, {'label': 'n', 'arity': 3, 'definition': d, 'format_str': 'x'})
        args = [ctx.input('ppat', f'arg{i}') for i in range(3)]
        f = repo.func(PM, 'Notation.__call__')
        res = interp.run_function(f, [n] + args)
        want = interp.mk_pat('Instantiate', [d, {0: args[0], 1: args[1], 2: args[2]}])
        ctx.oblige('post:arguments are stored under keys 0..arity-1 in order', res.t == want.t, kind='post')
        return res
    return unit


def serialize_unit(repo):
    """ProofExp.serialize(file_path, output_format, optimize): the chain of interpreters handed to execute_full depends on
    `optimize` only -- never on the output format (pretty and binary files are produced by the same sequence of interpreter calls)."""
    PF = 'proof_generation.proof'

    def run(ctx, fmt_name, optimize):
        from vc.pyfe import Builtin, _Enum
        interp = Interp(repo, ctx, {})
        log = []
        mod = repo.module(PF)
        pe = repo.cls(PF, 'ProofExp')
        selfo = Obj(pe, {'_claims': [], '_axioms': [], '_notations': [], '_proof_expressions': [], '_submodules': []})

        class Stub:
            def __init__(self, name, fn):
                self.name = name
                self.fn = fn

            def apply(self, interp, ctx, a, kwargs=None):
                return self.fn(a, kwargs or {})
        ser = Obj(repo.cls('proof_generation.io_interpreter', 'IOInterpreter'), {'tag': 'serializer'})
        interp.contracts['ProofExp.get_serializing_interpreter'] = Stub('gsi', lambda a, k: ser)
        interp.contracts['ProofExp.execute_full'] = Stub('ef', lambda a, k: log.append(('execute_full', _tag(a[1]))))
        ci = repo.cls('proof_generation.counting_interpreter', 'CountingInterpreter')
        mi = repo.cls('proof_generation.optimizing_interpreters', 'MemoizingInterpreter')
        interp.contracts['CountingInterpreter.__init__'] = Stub('ci', lambda a, k: a[0].attrs.update({'tag': 'counting'}))
        interp.contracts['CountingInterpreter.finalize'] = Stub('fin', lambda a, k: 'PATTERNS')
        interp.contracts['MemoizingInterpreter.__init__'] = Stub('mi', lambda a, k: a[0].attrs.update({'tag': ('memo', _tag(a[1]), a[2] if len(a) > 2 else None)}))
        ofmt = interp.global_lookup(mod, 'OutputFormat')
        fmtv = interp.getattr(ofmt, fmt_name)
        f = repo.func(PF, 'ProofExp.serialize')
        interp.run_function(f, [selfo, 'PATH', fmtv, optimize])
        return log

    def _tag(o):
        return o.attrs.get('tag') if isinstance(o, Obj) else repr(o)

    def unit(ctx):
        ok = True
        detail = {}
        for opt in (False, True):
            a = run(ctx, 'Binary', opt)
            b = run(ctx, 'Pretty', opt)
            detail[str(opt)] = (repr(a), repr(b))
            ok = ok and a == b and len(a) >= 1
        ctx.cover('serialize executed')
        ctx.oblige('post:interpreter pipeline is independent of the output format', z3.BoolVal(ok), kind='post', detail=str(detail))
        return None
    return unit
