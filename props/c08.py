"""C08 - a proof means the same under every interpreter (see contracts/refine.py for the decomposition (T) / (R) / (G))."""
import z3
from .common import *  # noqa
from .shared import *  # noqa
from vc.reflect import reflect_bool_method
from vc.speclemmas import STREAM, PUBL, MAPL
from contracts.pattern_family import c12_contracts
from contracts.interp_sim import METHODS, PHASES_OF, SIFILE, SI
from contracts.refine import (TFILE, OFILE, CFILE, BFILE, PFILE, ALL_METHODS, forward_unit, inst_optimizer_unit, refine_unit, counting_frame_unit, dsl_unit, diff_bounded, accept_unit)
from contracts.publish import pattern_unit
from .c04 import py_lib, STFILE

RULES = ['prop1', 'prop2', 'prop3', 'exists_quantifier', 'modus_ponens', 'exists_generalization', 'load_axiom', 'publish_proof']


def build(repo, tier):
    notes = []
    try:
        JE = reflect_bool_method(repo, 'evar_is_free')
    except Exception as e:
        JE = None
        notes.append(f'reflection of evar_is_free failed: {e!r}')
    cs = c12_contracts(JE)
    lib = py_lib(JE)
    lib.update(STREAM)
    lib.update(PUBL)
    lib.update({k: v for k, v in MAPL.items() if v is not None})
    pid = 'C08'
    us = []
    for m in ALL_METHODS:
        us.append(Unit(f'{pid}/py/InterpreterTransformer.{m}[MemoizingInterpreter]', forward_unit(repo, cs, m, 'MemoizingInterpreter')))
        if m not in ('instantiate', 'instantiate_pattern'):
            us.append(Unit(f'{pid}/py/InterpreterTransformer.{m}[InstantiationOptimizer]', forward_unit(repo, cs, m, 'InstantiationOptimizer')))
    for m in ('instantiate', 'instantiate_pattern'):
        us.append(Unit(f'{pid}/py/InstantiationOptimizer.{m}', inst_optimizer_unit(repo, cs, m), info={'split_depth': 1}))
    us.append(Unit(f'{pid}/py/MemoizingInterpreter.pattern', pattern_unit(repo, cs, 'Implies', True), info={'split_depth': 1}))
    us.append(Unit(f'{pid}/py/Interpreter.pattern/Instantiate', pattern_unit(repo, cs, 'Instantiate', False), info={'split_depth': 1}))
    bounded = {}
    for k in (0, 1, 2, 3):
        n = f'{pid}/py/Interpreter.pattern/Instantiate [|map| = {k}]'
        us.append(Unit(n, pattern_unit(repo, cs, 'Instantiate', False, inst_k=k), info={'split_depth': 1}))
        bounded[n] = f'Interpreter.pattern on a notation node with exactly {k} map entries (bound: |map| <= 3)'
    for m in ALL_METHODS:
        for ph in PHASES_OF.get(m, ['Proof']):
            us.append(Unit(f'{pid}/py/SerializingInterpreter.{m} refines BasicInterpreter.{m}/{ph}', refine_unit(repo, cs, m, ph, 'SerializingInterpreter', SI), info={'split_depth': 1}))
            us.append(Unit(f'{pid}/py/CountingInterpreter.{m} refines BasicInterpreter.{m}/{ph}',
                           refine_unit(repo, cs, m, ph, 'CountingInterpreter', 'proof_generation.counting_interpreter'), info={'split_depth': 1}))
    us.append(Unit(f'{pid}/py/CountingInterpreter statistics helpers/frame', counting_frame_unit(repo)))
    from contracts.pretty import pretty_method_unit, print_stack_unit, STEP_NAME
    us.append(Unit(f'{pid}/py/PrettyPrintingInterpreter.print_stack', print_stack_unit(repo, cs)))
    for m in STEP_NAME:
        for ph in PHASES_OF.get(m, ['Proof']):
            us.append(Unit(f'{pid}/py/PrettyPrintingInterpreter.{m} refines BasicInterpreter.{m}/{ph}', pretty_method_unit(repo, cs, m, ph), info={'split_depth': 1}))
    for r in RULES:
        us.append(Unit(f'{pid}/py/ProofExp.{r} keeps thunks good', dsl_unit(repo, cs, r), info={'split_depth': 1}))
    for r in ('dynamic_inst', 'instantiate'):
        us.append(Unit(f'{pid}/py/ProofExp.{r} keeps thunks good', dsl_unit(repo, cs, r), info={'split_depth': 1}))
        for k in (1, 2, 3):
            n = f'{pid}/py/ProofExp.{r} keeps thunks good [|delta| = {k}]'
            us.append(Unit(n, dsl_unit(repo, cs, r, k), info={'split_depth': 1}))
            bounded[n] = f'ProofExp.{r}: symbolic keys, plugs, premise and tracker state, but the instantiation map has exactly {k} entries (bound: |delta| <= 3)'
    for m in ('instantiate', 'instantiate_pattern'):
        for k in (0, 1, 2):
            n = f'{pid}/py/StatefulInterpreter.{m} accepts a disciplined stack [|delta| = {k}]'
            us.append(Unit(n, accept_unit(repo, cs, m, k), info={'split_depth': 1}))
            bounded[n] = f'StatefulInterpreter.{m} on an arbitrary stack below {k} plugs and the target (bound: |delta| <= 2)'
    units = lemma_units(lib) + us
    du, dt, dfn = merge(eq_units(repo, cs, pid), family_units(repo, cs, pid, 'instantiate'), family_units(repo, cs, pid, 'evar_is_free'),
                        destructuring_units(repo, cs, pid, unwrap_classes=('Implies',), meths=('unwrap', 'extract'), deconstructs=()), simplify_units(repo, cs, pid))
    spec = PropSpec(pid, units + du, lib, dt, trusted=TRUSTED_ENGINE,
                    assumptions=PY_ASSUMPTIONS + [
                        'the property is reached by induction over the proof expression from (T) transformers forward, (R) the tracking family returns BasicInterpreter\'s results, (G) every DSL rule keeps thunks good; the induction itself is not mechanised',
                        'argument thunks are good: on every interpreter they return Proved(c) with c == their advertised conclusion and push exactly that Proved on a tracker (memory untouched)',
                        'load_axiom assumes the axiom is in the tracker memory (established by the gamma phase, C03/C04); publish_proof assumes the next open claim is the proved conclusion (execute_proofs_phase order)',
                        'failures inside BasicInterpreter\'s own checks and ids above 255 (ValueError from bytes(), refused by design, C03) are not counted as disagreement',
                        'CountingInterpreter._collect_patterns / finalize: statistics only (frame checked syntactically; exception-freedom and termination not proved)',
                        'PrettyPrintingInterpreter: 21 of its 24 decorator-generated methods are executed through the real decorator and shown to return BasicInterpreter\'s results (metavar / instantiate / instantiate_pattern: bounded); whole interpreter stacks: bounded differential stand-in only'],
                    functions=[(TFILE, 'InterpreterTransformer.' + m) for m in ALL_METHODS] + [(OFILE, 'InstantiationOptimizer.instantiate'), (OFILE, 'InstantiationOptimizer.instantiate_pattern'),
                               (OFILE, 'MemoizingInterpreter.pattern')] + [(SIFILE, 'SerializingInterpreter.' + m) for m in ALL_METHODS] + [(STFILE, 'StatefulInterpreter.' + m) for m in ALL_METHODS] +
                              [(CFILE, 'CountingInterpreter.' + m) for m in ALL_METHODS if m not in ('pop', 'save', 'load', 'publish_axiom', 'publish_claim', 'publish_proof')] +
                              [(BFILE, 'BasicInterpreter.' + m) for m in ALL_METHODS] + [(PFILE, 'ProofExp.' + r) for r in RULES + ['dynamic_inst', 'instantiate']] + [(PFILE, 'ProofThunk.__call__')] + dfn,
                    notes=notes)
    spec.bounded_units = bounded

    def replayer(name, model, root):
        w, n = diff_bounded(name, root, 'thorough', 0)
        if w is not None:
            w['bounded_evaluated'] = n
            return True, w
        return False, {'note': f'no disagreement among {n} generated proof expressions x 10 interpreter stacks', 'bounded_evaluated': n}
    spec.lemma_replayers['C08/py/'] = replayer
    spec.unit_bounded = lambda unit_name, tier, seed: diff_bounded(unit_name, repo.root, tier, seed)

    def standin(tier, seed):
        w, n = diff_bounded('all', repo.root, tier, seed)
        viol = []
        if w is not None:
            viol.append({'name': 'C08/bounded/differential run over interpreter stacks', 'status': 'refuted-bounded', 'backend': 'bounded run on the real code', 'model': None,
                         'detail': w.get('failed_clause', ''), 'confirmed': True, 'replay': w})
        return [{'bounded': {'kind': 'generated proof expressions (DSL rules, Propositional lemmas, notation plugs, identity and empty instantiations) run under basic, stateful, counting, '
                                     'serializing, pretty-printing and five transformer stacks: all succeed or all fail, conclusions equal the advertised one',
                             'programs': n, 'bound': f'expression depth <= 2, seed {seed}'}, 'violations': viol}]
    spec.extra_checks.append(standin)
    return spec
