"""C13 - matching is sound and complete."""
import copy
from .common import *  # noqa
from .shared import *  # noqa
from vc.speclemmas import LIB
from contracts.pattern_family import c12_contracts
from contracts.matching import match_single_contract, MatchLoop, match_contract


def build(repo, tier):
    cs = c12_contracts(None)
    cms = match_single_contract()
    cs['match_single'] = cms
    units = lemma_units(LIB)
    targets = {}
    f = repo.func(PM, 'match_single')
    for variant, kind in (('seed=None', ('const', None)), ('seed=map', 'pmap')):
        c = copy.copy(cms)
        c.params = [('pattern', 'ppat'), ('instance', 'ppat'), ('extend', kind)]
        for cn in PCTORS:
            name = f'C13/py/match_single[{variant}]/pattern={cn}'
            units.append(Unit(name, verify_unit(repo, cs, f, c, arm=cn, arm_param='pattern')))
            targets[name] = FnTarget(PM, 'match_single', c, arm=cn,
                                     call=lambda ax: f"_ms2({ax['pattern']}, {ax['instance']}, {ax['extend']})", prelude=MS_PRELUDE,
                                     enum=_ms_enum(cn, kind))
    loop = MatchLoop()
    fm = repo.func(PM, 'match')
    cm = match_contract(loop)
    units.append(Unit('C13/py/match', verify_unit(repo, cs, fm, cm, opts={'loops': {('match', 0): loop}})))
    for ar in (0, 1, 2, 3):
        n = f'C13/py/Notation.matches [arity = {ar}]'
        units.append(Unit(n, matches_unit(repo, cs, ar)))
        BOUNDED_MATCHES[n] = f'Notation.matches / assert_matches on a symbolic definition and pattern; the arity is fixed to {ar} (bound: arity <= 3)'
    du, dt, dfn = merge(destructuring_units(repo, cs, 'C13', unwrap_classes=('Implies', 'App'), meths=('unwrap',)),
                        simplify_units(repo, cs, 'C13'), eq_units(repo, cs, 'C13'),
                        family_units(repo, cs, 'C13', 'instantiate'))
    units += du
    targets.update(dt)
    spec = PropSpec('C13', units, LIB, targets, trusted=TRUSTED_ENGINE,
                    assumptions=PY_ASSUMPTIONS + [
                        'match_single mutates the dict passed as `extend`; the caller-visible mutation is not modelled (its callers rebind or discard the argument)',
                        'completeness is decided for solutions rho that are total on the metavariables of the (substitution-free) pattern',
                        'dict insertion order of the returned substitution is not part of the contract'],
                    functions=[(PFILE, 'match_single'), (PFILE, 'match'), (PFILE, 'Notation.matches'), (PFILE, 'Notation.assert_matches')] + dfn)
    spec.bounded_units = dict(BOUNDED_MATCHES)
    return spec


BOUNDED_MATCHES = {}


def matches_unit(repo, cs, arity):
    """Notation.matches(pattern): None exactly when match_single(definition, pattern) finds no match; otherwise the tuple whose i-th entry is the
    binding of metavariable i, or MetaVar(i) when the definition does not mention i.  assert_matches returns the same tuple or raises."""
    def unit(ctx):
        from vc.pyfe import Interp, Obj
        from vc.engine import SymRaise
        from vc.spec import pwf, expand, expandmap, mhas, mget
        import z3
        d = ctx.input('ppat', 'definition')
        pat = ctx.input('ppat', 'pattern')
        ctx.assume(z3.And(pwf(d.t), pwf(pat.t)))
        ctx.check_feasible()
        calls = []
        real = cs['match_single']

        class Rec:
            name = 'match_single'

            def apply(self, interp, c, args, kwargs=None):
                r = real.apply(interp, c, args, kwargs)
                calls.append((args, r))
                return r
        contracts = dict(cs)
        contracts['match_single'] = Rec()
        interp = Interp(repo, ctx, contracts, opts={'skip_post_init': True})
        n = Obj(repo.cls(PM, 'Notation'), {'label': 'n', 'arity': arity, 'definition': d, 'format_str': 'x'})
        which = ctx.choose(2, 'matches / assert_matches')
        ctx.cover('call')
        f = repo.func(PM, 'Notation.matches' if which == 0 else 'Notation.assert_matches')
        try:
            r = interp.run_function(f, [n, pat])
        except SymRaise as e:
            ok = which == 1 and e.cls == 'AssertionError' and len(calls) == 1 and calls[0][1] is None
            ctx.oblige('post:raises only from assert_matches, and only when there is no match', z3.BoolVal(bool(ok)), kind='post', got=repr(e.cls))
            raise
        ok_call = len(calls) == 1 and calls[0][0][0] is d and calls[0][0][1] is pat and (len(calls[0][0]) < 3 or calls[0][0][2] is None)
        ctx.oblige('post:the definition is matched against the pattern, once, without a seed', z3.BoolVal(bool(ok_call)), kind='post')
        if not ok_call:
            return r
        m = calls[0][1]
        if m is None:
            ctx.oblige('post:no match -> None', z3.BoolVal(r is None), kind='post')
            return r
        ok_shape = isinstance(r, tuple) and len(r) == arity
        ctx.oblige('post:one entry per argument of the notation', z3.BoolVal(bool(ok_shape)), kind='post', got=repr(r)[:200])
        if ok_shape:
            M = expandmap(m.t)
            for i in range(arity):
                want = z3.If(mhas(M, z3.IntVal(i)), mget(M, z3.IntVal(i)), expand(interp.mk_pat('MetaVar', [i, (), (), (), (), ()]).t))
                ctx.oblige(f'post:entry {i} is the binding of metavariable {i}, or the metavariable itself', expand(r[i].t) == want, kind='post')
        return r
    return unit


MS_PRELUDE = '''
def _ms2(p, i, ext):
    # also with the notation definition OBJECT shared between pattern and instance (as Notation.__call__ produces it): identity shortcuts must not change the answer
    r1 = match_single(p, i, dict(ext) if ext is not None else None)
    if type(p).__name__ == 'Instantiate' and type(i).__name__ == 'Instantiate' and repr(p.pattern) == repr(i.pattern):
        r2 = match_single(p, type(i)(p.pattern, i.inst), dict(ext) if ext is not None else None)
        if (r2 is None) != (r1 is None) or (r1 is not None and dict(r1) != dict(r2)):
            return r2
    return r1
'''


def _ms_enum(arm, kind):
    def gen(tier, rng):
        pats = [p for p in rp.small_patterns(2 if tier == 'quick' else 3, rng=rng, cap=40) if p[0] == 'P' + arm]
        insts = rp.small_patterns(2, rng=rng, cap=40)
        insts = rng.sample(insts, min(len(insts), 25))
        exts = [None] if kind != 'pmap' else rp.small_maps()[:8]
        for p in pats[:60]:
            for i in insts:
                for e in exts:
                    yield {'pattern': p, 'instance': i, 'extend': e}
        if arm == 'Instantiate':
            # both sides applications of the SAME notation, differing in an argument the definition ignores / in a used one
            nil = ('inil',)
            mv = lambda k: ('PMetaVar', k, nil, nil, nil, nil, nil)
            defs = [('PImplies', mv(0), mv(0)), ('PApp', mv(1), ('PSymbol', 0)), ('PMu', 0, ('PSVar', 0))]
            vals = [mv(0), mv(1), ('PEVar', 0), ('PSymbol', 0), ('PSymbol', 1)]
            mk = lambda a, b: ('pcons', 0, a, ('pcons', 1, b, ('pnil',)))
            for d in defs:
                for a in vals[:3]:
                    for b in vals:
                        for a2 in vals[2:]:
                            for b2 in vals[2:]:
                                for e in exts[:3]:
                                    yield {'pattern': ('PInstantiate', d, mk(a, b)), 'instance': ('PInstantiate', d, mk(a2, b2)), 'extend': e}
    return gen
