"""C13 - matching is sound and complete."""
import copy
from .common import *  # noqa
from .shared import *  # noqa
from vc.speclemmas import LIB
from contracts.pattern_family import c12_contracts
from contracts.matching import match_single_contract, MatchLoop, match_contract


def build(repo, tier):
    cs = c12_contracts(None)
    cms = match_single_contract()
    cs['match_single'] = cms
    units = lemma_units(LIB)
    targets = {}
    f = repo.func(PM, 'match_single')
    for variant, kind in (('seed=None', ('const', None)), ('seed=map', 'pmap')):
        c = copy.copy(cms)
        c.params = [('pattern', 'ppat'), ('instance', 'ppat'), ('extend', kind)]
        for cn in PCTORS:
            name = f'C13/py/match_single[{variant}]/pattern={cn}'
            units.append(Unit(name, verify_unit(repo, cs, f, c, arm=cn, arm_param='pattern')))
            targets[name] = FnTarget(PM, 'match_single', c, arm=cn,
                                     call=lambda ax: f"_ms2({ax['pattern']}, {ax['instance']}, {ax['extend']})", prelude=MS_PRELUDE,
                                     enum=_ms_enum(cn, kind))
    loop = MatchLoop()
    fm = repo.func(PM, 'match')
    cm = match_contract(loop)
    units.append(Unit('C13/py/match', verify_unit(repo, cs, fm, cm, opts={'loops': {('match', 0): loop}})))
    du, dt, dfn = merge(destructuring_units(repo, cs, 'C13', unwrap_classes=('Implies', 'App'), meths=('unwrap',)),
                        simplify_units(repo, cs, 'C13'), eq_units(repo, cs, 'C13'),
                        family_units(repo, cs, 'C13', 'instantiate'))
    units += du
    targets.update(dt)
    return PropSpec('C13', units, LIB, targets, trusted=TRUSTED_ENGINE,
                    assumptions=PY_ASSUMPTIONS + [
                        'match_single mutates the dict passed as `extend`; the caller-visible mutation is not modelled (its callers rebind or discard the argument)',
                        'completeness is decided for solutions rho that are total on the metavariables of the (substitution-free) pattern',
                        'dict insertion order of the returned substitution is not part of the contract'],
                    functions=[(PFILE, 'match_single'), (PFILE, 'match')] + dfn)


MS_PRELUDE = '''
def _ms2(p, i, ext):
    # also with the notation definition OBJECT shared between pattern and instance (as Notation.__call__ produces it): identity shortcuts must not change the answer
    r1 = match_single(p, i, dict(ext) if ext is not None else None)
    if type(p).__name__ == 'Instantiate' and type(i).__name__ == 'Instantiate' and repr(p.pattern) == repr(i.pattern):
        r2 = match_single(p, type(i)(p.pattern, i.inst), dict(ext) if ext is not None else None)
        if (r2 is None) != (r1 is None) or (r1 is not None and dict(r1) != dict(r2)):
            return r2
    return r1
'''


def _ms_enum(arm, kind):
    def gen(tier, rng):
        pats = [p for p in rp.small_patterns(2 if tier == 'quick' else 3, rng=rng, cap=40) if p[0] == 'P' + arm]
        insts = rp.small_patterns(2, rng=rng, cap=40)
        insts = rng.sample(insts, min(len(insts), 25))
        exts = [None] if kind != 'pmap' else rp.small_maps()[:8]
        for p in pats[:60]:
            for i in insts:
                for e in exts:
                    yield {'pattern': p, 'instance': i, 'extend': e}
        if arm == 'Instantiate':
            # both sides applications of the SAME notation, differing in an argument the definition ignores / in a used one
            nil = ('inil',)
            mv = lambda k: ('PMetaVar', k, nil, nil, nil, nil, nil)
            defs = [('PImplies', mv(0), mv(0)), ('PApp', mv(1), ('PSymbol', 0)), ('PMu', 0, ('PSVar', 0))]
            vals = [mv(0), mv(1), ('PEVar', 0), ('PSymbol', 0), ('PSymbol', 1)]
            mk = lambda a, b: ('pcons', 0, a, ('pcons', 1, b, ('pnil',)))
            for d in defs:
                for a in vals[:3]:
                    for b in vals:
                        for a2 in vals[2:]:
                            for b2 in vals[2:]:
                                for e in exts[:3]:
                                    yield {'pattern': ('PInstantiate', d, mk(a, b)), 'instance': ('PInstantiate', d, mk(a2, b2)), 'extend': e}
    return gen
