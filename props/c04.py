"""C04 - the generator-side verifier state is a faithful simulation of the documented machine (per interpreter call, from an
arbitrary tracker state: the inductive step of 'after every call, the emitted stream runs on the spec machine and leaves Sim')."""
import z3
from .common import *  # noqa
from .shared import *  # noqa
from vc.speclemmas import LIB
from vc.reflect import reflect_bool_method
from vc.lemmas import Lemma
from vc import sm
from contracts.pattern_family import c12_contracts
from contracts.interp_sim import sim_unit, phase_switch_unit, symbol_unit, METHODS, PHASES_OF, SIFILE, sim_bounded

STFILE = 'generation/src/proof_generation/stateful_interpreter.py'


def py_lib(JE):
    lib = dict(LIB)
    if JE is not None:
        phi, X = z3.Const('phi', MPat), z3.Int('X')
        lib['py_efresh_is_doc'] = Lemma('py_efresh_is_doc', [phi, X], JE(phi, X) == sm.doc_e_fresh(phi, X), ind=phi, triggers=[JE(phi, X)], rewrite=True)
    return lib


def sim_units(repo, cs, pid):
    units = []
    for m in METHODS:
        for ph in PHASES_OF.get(m, ['Proof']):
            units.append(Unit(f'{pid}/py/SerializingInterpreter.{m}/{ph}', sim_unit(repo, cs, m, ph), info={'split_depth': 1}))
    for m in ('pop', 'save', 'load'):
        units.append(Unit(f'{pid}/py/SerializingInterpreter.{m}[Proved term]/Proof', sim_unit(repo, cs, m, 'Proof', load_proved=True), info={'split_depth': 1}))
    for m in ('into_claim_phase', 'into_proof_phase'):
        units.append(Unit(f'{pid}/py/SerializingInterpreter.{m}', phase_switch_unit(repo, cs, m)))
    units.append(Unit(f'{pid}/py/SerializingInterpreter.symbol', symbol_unit(repo, cs)))
    return units


def build(repo, tier):
    notes = []
    try:
        JE = reflect_bool_method(repo, 'evar_is_free')
    except Exception as e:
        JE = None
        notes.append(f'reflection of evar_is_free failed: {e!r}')
    cs = c12_contracts(JE)
    lib = py_lib(JE)
    units = lemma_units(lib) + sim_units(repo, cs, 'C04')
    du, dt, dfn = merge(eq_units(repo, cs, 'C04'), family_units(repo, cs, 'C04', 'instantiate'), family_units(repo, cs, 'C04', 'evar_is_free'),
                        destructuring_units(repo, cs, 'C04', unwrap_classes=('Implies',), meths=('unwrap', 'extract'), deconstructs=()),
                        simplify_units(repo, cs, 'C04'))
    spec = PropSpec('C04', units + du, lib, dt, trusted=TRUSTED_ENGINE + ['spec machine /verif/vc/sm.py (docs/proof-language.md, spec decisions in C05 evidence)'],
                    assumptions=PY_ASSUMPTIONS + [
                        'python lists are finite sequences; list == list compares element-wise with ==; self.out is a write-only sink (the chunks written are recorded)',
                        'symbol numbering: for every call except symbol() the renaming name -> id is taken to be the identity (symbol() itself is verified against an injective table)',
                        'arguments annotated MetaVar | ESubst | SSubst are such nodes (Interpreter.pattern asserts it before calling esubst / ssubst)',
                        'REGIONS excluded from the step obligations, each an OPEN KNOWN FINDING with a witness replayed on every run: machine side conditions the python side never evaluates (mu positivity, esubst/ssubst well-formedness, metavar app_ctx_holes/e_fresh disjointness, instantiate constraint lists and capture) and the fresh-skip divergence of python vs checker instantiation; publish_* keep the published term on the tracker stack'],
                    functions=[(SIFILE, 'SerializingInterpreter.' + m) for m in list(METHODS) + ['symbol', 'into_claim_phase', 'into_proof_phase']] +
                              [(STFILE, 'StatefulInterpreter.' + m) for m in METHODS] + dfn, notes=notes)
    spec.unit_bounded = lambda unit_name, tier, seed: _bounded(unit_name, repo.root, tier, seed)
    spec.lemma_replayers['C04/py/SerializingInterpreter.'] = lambda name, model, root: _replay(name, root)
    return spec


def _bounded(unit_name, root, tier, seed):
    parts = unit_name.split('/')
    if len(parts) < 4 or not parts[2].startswith('SerializingInterpreter.'):
        return None, 0
    meth = parts[2].split('.')[1].split('[')[0]
    return sim_bounded(meth, parts[3], root, tier, seed)


def _replay(name, root):
    """a refuted step obligation: look for a concrete witness on the real interpreter (bounded, seeded) and report it"""
    w, n = _bounded(name, root, 'thorough', 0)
    if w is not None:
        w['bounded_evaluated'] = n
        return True, w
    return False, {'note': f'no failing input among {n} small concrete states', 'bounded_evaluated': n}
