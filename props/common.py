"""Shared pieces of the per-property specifications."""
import os
from vc.pyfe import Repo
from vc.run import Unit, lemma_units
from vc.contract import verify_unit
from vc.prop import PropSpec, FnTarget
from vc import replay as rp
from vc.sorts import *  # noqa

PM = 'proof_generation.pattern'
PFILE = 'generation/src/proof_generation/pattern.py'

PY_ASSUMPTIONS = [
    'python int is mathematical; ids are arbitrary integers (the 0..255 range matters only for the serializer, C03)',
    '@dataclass(frozen=True) semantics: constructor = field tuple, generated __eq__ compares field tuples of the same class, reflected __eq__ tried next (DESIGN 2.3.2)',
    'frozendict iterates in insertion order and has unique keys; association-list encoding with first-match lookup',
    'assert statements are executed (no -O); messages of assert/raise are not evaluated',
    'input patterns are shape-well-formed (pwf): ESubst/SSubst bodies are MetaVar/ESubst/SSubst nodes and a pending substitution on a MetaVar is never over a variable in its freshness list (what Interpreter.pattern asserts / what apply_esubst produces)',
    'symbol names are uninterpreted (modelled as integers with equality)',
    'termination is not verified (partial correctness); all recursion is structural',
]

TRUSTED_ENGINE = [
    'VC generator: /verif/vc (pyfe.py symbolic executor over python ast, norm.py unfolding of spec functions, lemmas.py trigger instantiation)',
    'z3 5.1.0 (python API), cvc5 1.0.3 for z3 unknowns / cross-check in thorough tier',
    'spec functions in /verif/vc/spec.py (textbook definitions, written independently of the code)',
]


def arm_enum(arm, others, depth_quick=2, depth_thorough=3):
    """Bounded stand-in inputs: self ranges over small patterns with the given top constructor."""
    def gen(tier, rng):
        pats = rp.small_patterns(depth_quick if tier == 'quick' else depth_thorough, rng=rng, cap=60)
        pats = [p for p in pats if p[0] == 'P' + arm]
        import itertools
        pools = []
        names = []
        for n, k in others:
            names.append(n)
            if k == 'int':
                pools.append([0, 1, 2])
            elif k == 'ppat':
                pools.append(rp.small_patterns(1)[:9] + [('PImplies', ('PEVar', 0), ('PSVar', 1))])
            elif k == 'pmap':
                pools.append(rp.small_maps())
            else:
                pools.append([None])
        for p in pats:
            for combo in itertools.product(*pools):
                d = {'self': p}
                d.update(dict(zip(names, combo)))
                yield d
    return gen
