"""C18 - output is a deterministic function of the input.

Contract (per function of the serialisation / translation code, re-derived from the current source on every run):
  (D1) order-independence: a value that can reach the output never depends on the iteration order of a hash-ordered container.  Every
       place where a set-typed expression is ITERATED (for / comprehension generator / list() tuple() enumerate() zip() join() next(iter())
       .pop() star-unpacking / sorted(..., key=...)) is one obligation; it is discharged when the iteration is order-insensitive by
       construction: it only builds another set / frozenset / dict-free aggregate (set comprehension, set(), frozenset(), any, all, sum, len,
       min, max, membership), or goes through sorted() without a key.
  (D2) no state survives a serialisation: no mutable container is bound at class or module level in the modules under contract and then
       mutated (such a table would make the bytes depend on what was serialised before in the same process).
  (D3) no source of non-determinism is consulted: hash(), id(), random, time, datetime, uuid, os.environ, directory listings.
Set-typedness is inferred from displays, constructors, set operators / methods, annotations of names, attributes, parameters and return
types (flow-insensitive within a function).  The rules are syntactic frame conditions, not SMT obligations; a site the rules cannot
discharge is reported as a violation of its obligation, with a witness when the bounded differential run below finds one.

Bounded stand-in: shipped and generated modules and the sample Metamath databases are serialised / translated in fresh processes under
several PYTHONHASHSEED values, and in both orders within one process; all outputs must be byte-identical."""
import ast
import os
import z3

MODULES = ['proof_generation/proof.py', 'proof_generation/pattern.py', 'proof_generation/basic_interpreter.py', 'proof_generation/stateful_interpreter.py',
           'proof_generation/io_interpreter.py', 'proof_generation/serializing_interpreter.py', 'proof_generation/pretty_printing_interpreter.py',
           'proof_generation/counting_interpreter.py', 'proof_generation/optimizing_interpreters.py', 'proof_generation/interpreter_transformer.py',
           'proof_generation/interpreter.py', 'proof_generation/instruction.py', 'proof_generation/claim.py', 'proof_generation/proved.py',
           'proof_generation/metamath/translate.py', 'proof_generation/metamath/converter/converter.py', 'proof_generation/metamath/converter/scope.py',
           'proof_generation/metamath/converter/representation.py', 'proof_generation/metamath/converter/vars.py', 'proof_generation/metamath/ast.py',
           'proof_generation/metamath/parser.py', 'proof_generation/proofs/propositional.py', 'proof_generation/tautology.py']
SET_CTORS = {'set', 'frozenset'}
SET_METHODS = {'union', 'intersection', 'difference', 'symmetric_difference', 'copy'}
ORDER_FREE_CALLS = {'set', 'frozenset', 'any', 'all', 'sum', 'len', 'min', 'max', 'bool'}
ITERATING_CALLS = {'list', 'tuple', 'enumerate', 'zip', 'iter', 'next', 'reversed', 'dict', 'map', 'filter'}
NONDET_NAMES = {'hash', 'id'}
NONDET_MODULES = {'random', 'time', 'datetime', 'uuid', 'secrets', 'glob'}


def ann_is_set(a):
    if a is None:
        return False
    s = ast.unparse(a)
    s = s.strip('"\'')
    return s.startswith(('set[', 'frozenset[', 'Set[', 'FrozenSet[', 'AbstractSet[')) or s in ('set', 'frozenset')


class ModuleFacts:
    def __init__(self, path, tree):
        self.path = path
        self.tree = tree
        self.ret_set = set()        # function / method names whose declared return type is a set
        self.attr_set = set()       # attribute names annotated as sets (self.x: set[...] / class body)
        for n in ast.walk(tree):
            if isinstance(n, ast.FunctionDef) and ann_is_set(n.returns):
                self.ret_set.add(n.name)
            if isinstance(n, ast.AnnAssign) and ann_is_set(n.annotation):
                t = n.target
                if isinstance(t, ast.Attribute):
                    self.attr_set.add(t.attr)
                elif isinstance(t, ast.Name):
                    self.attr_set.add(t.id)


class FnScan:
    def __init__(self, facts, allfacts, fn, qual):
        self.f, self.all, self.fn, self.qual = facts, allfacts, fn, qual
        self.setvars = set()
        for a in fn.args.args + fn.args.kwonlyargs:
            if ann_is_set(a.annotation):
                self.setvars.add(a.arg)
        changed = True
        while changed:                      # flow-insensitive fixpoint over the assignments of this function
            changed = False
            for n in ast.walk(fn):
                tgt, val = None, None
                if isinstance(n, ast.Assign) and len(n.targets) == 1 and isinstance(n.targets[0], ast.Name):
                    tgt, val = n.targets[0].id, n.value
                elif isinstance(n, ast.AnnAssign) and isinstance(n.target, ast.Name):
                    tgt, val = n.target.id, n.value
                    if ann_is_set(n.annotation) and tgt not in self.setvars:
                        self.setvars.add(tgt)
                        changed = True
                elif isinstance(n, ast.NamedExpr):
                    tgt, val = n.target.id, n.value
                if tgt and val is not None and tgt not in self.setvars and self.is_set(val):
                    self.setvars.add(tgt)
                    changed = True

    def is_set(self, e):
        if isinstance(e, (ast.Set, ast.SetComp)):
            return True
        if isinstance(e, ast.Name):
            return e.id in self.setvars
        if isinstance(e, ast.Attribute):
            return any(e.attr in f.attr_set for f in self.all)
        if isinstance(e, ast.Call):
            f = e.func
            if isinstance(f, ast.Name):
                return f.id in SET_CTORS or any(f.id in x.ret_set for x in self.all)
            if isinstance(f, ast.Attribute):
                if f.attr in SET_METHODS and self.is_set(f.value):
                    return True
                return any(f.attr in x.ret_set for x in self.all)
        if isinstance(e, ast.BinOp) and isinstance(e.op, (ast.BitOr, ast.BitAnd, ast.Sub, ast.BitXor)):
            return self.is_set(e.left) or self.is_set(e.right)
        if isinstance(e, ast.IfExp):
            return self.is_set(e.body) or self.is_set(e.orelse)
        return False

    def sites(self):
        """-> [(line, what, discharged: bool, why)]"""
        out = []
        parents = {}
        for n in ast.walk(self.fn):
            for c in ast.iter_child_nodes(n):
                parents[c] = n
        for n in ast.walk(self.fn):
            if isinstance(n, ast.For) and self.is_set(n.iter):
                ok, why = self.loop_is_order_free(n)
                out.append((n.lineno, f'for-loop over the set `{ast.unparse(n.iter)[:60]}`', ok, why))
            if isinstance(n, (ast.ListComp, ast.GeneratorExp, ast.DictComp, ast.SetComp)):
                for g in n.generators:
                    if self.is_set(g.iter):
                        if isinstance(n, ast.SetComp):
                            out.append((n.lineno, f'set comprehension over the set `{ast.unparse(g.iter)[:60]}`', True, 'builds a set'))
                            continue
                        p = parents.get(n)
                        if isinstance(n, ast.GeneratorExp) and isinstance(p, ast.Call) and isinstance(p.func, ast.Name) and (p.func.id in ORDER_FREE_CALLS or (p.func.id == 'sorted' and not p.keywords)):
                            out.append((n.lineno, f'generator over the set `{ast.unparse(g.iter)[:60]}` consumed by {p.func.id}()', True, 'order-insensitive consumer'))
                            continue
                        if isinstance(n, ast.ListComp) and isinstance(p, ast.Call) and isinstance(p.func, ast.Name) and (p.func.id in ORDER_FREE_CALLS or (p.func.id == 'sorted' and not p.keywords)):
                            out.append((n.lineno, f'list comprehension over the set `{ast.unparse(g.iter)[:60]}` consumed by {p.func.id}()', True, 'order-insensitive consumer'))
                            continue
                        out.append((n.lineno, f'{type(n).__name__} over the set `{ast.unparse(g.iter)[:60]}`', False, 'the result is ordered by hash order'))
            if isinstance(n, ast.Call):
                f = n.func
                if isinstance(f, ast.Name) and f.id in ITERATING_CALLS and n.args and any(self.is_set(a) for a in n.args):
                    p = parents.get(n)
                    if isinstance(p, ast.Call) and isinstance(p.func, ast.Name) and (p.func.id in ORDER_FREE_CALLS or (p.func.id == 'sorted' and not p.keywords)):
                        out.append((n.lineno, f'{f.id}() of a set inside {p.func.id}()', True, 'order-insensitive consumer'))
                    else:
                        out.append((n.lineno, f'{f.id}() of the set `{ast.unparse(n.args[0])[:60]}`', False, 'materialises hash order'))
                if isinstance(f, ast.Name) and f.id == 'sorted' and n.args and self.is_set(n.args[0]) and any(k.arg == 'key' for k in n.keywords):
                    out.append((n.lineno, f'sorted(<set>, key=...) `{ast.unparse(n)[:70]}`', False, 'ties between equal keys are broken by hash order'))
                if isinstance(f, ast.Name) and f.id == 'sorted' and n.args and self.is_set(n.args[0]) and not n.keywords:
                    out.append((n.lineno, f'sorted() of the set `{ast.unparse(n.args[0])[:60]}`', True, 'canonical order'))
                if isinstance(f, ast.Attribute) and f.attr == 'pop' and not n.args and self.is_set(f.value):
                    out.append((n.lineno, f'`{ast.unparse(n)[:60]}` takes an arbitrary element of a set', False, 'element chosen by hash order'))
                if isinstance(f, ast.Attribute) and f.attr == 'join' and n.args and self.is_set(n.args[0]):
                    out.append((n.lineno, f'str.join over the set `{ast.unparse(n.args[0])[:60]}`', False, 'text ordered by hash order'))
                if isinstance(f, ast.Name) and f.id in NONDET_NAMES:
                    out.append((n.lineno, f'call of {f.id}()', False, 'process-dependent value'))
                if isinstance(f, ast.Attribute) and isinstance(f.value, ast.Name) and f.value.id in NONDET_MODULES:
                    out.append((n.lineno, f'call of {f.value.id}.{f.attr}()', False, 'non-deterministic source'))
            if isinstance(n, ast.Starred) and self.is_set(n.value):
                out.append((n.lineno, f'star-unpacking of the set `{ast.unparse(n.value)[:60]}`', False, 'hash order'))
            if isinstance(n, ast.Assign) and isinstance(n.targets[0], (ast.Tuple, ast.List)) and self.is_set(n.value):
                ok = len(n.targets[0].elts) == 1
                out.append((n.lineno, f'unpacking of the set `{ast.unparse(n.value)[:60]}`', ok, 'single element' if ok else 'hash order'))
        return out

    def loop_is_order_free(self, loop):
        """a for-loop over a set is order-free when its body only adds to sets / dict-free aggregates, or raises / asserts / returns a constant"""
        for st in ast.walk(ast.Module(body=loop.body, type_ignores=[])):
            if isinstance(st, (ast.Return, ast.Yield, ast.YieldFrom, ast.Break)):
                if isinstance(st, ast.Return) and (st.value is None or isinstance(st.value, ast.Constant)):
                    continue
                return False, 'the loop leaves early with a value that depends on the element reached first'
            if isinstance(st, ast.Call) and isinstance(st.func, ast.Attribute):
                m = st.func.attr
                if m in ('append', 'extend', 'insert', 'write', 'setdefault', 'pop', 'popitem', 'appendleft'):
                    return False, f'.{m}() inside the loop records the visiting order'
                if m in ('add', 'update', 'discard', 'remove') and not self.is_set(st.func.value) and not isinstance(st.func.value, ast.Attribute):
                    return False, f'.{m}() on something not known to be a set'
            if isinstance(st, (ast.Assign, ast.AugAssign)):
                tg = st.targets[0] if isinstance(st, ast.Assign) else st.target
                if isinstance(tg, ast.Subscript):
                    return False, 'a dict / list entry is written inside the loop (insertion order = visiting order)'
            if isinstance(st, ast.Call) and isinstance(st.func, ast.Name) and st.func.id == 'print':
                return False, 'prints in visiting order'
        return True, 'the body only accumulates into sets / scalars'


# sites the syntactic rules cannot discharge but whose order-independence follows from how the value is consumed (reviewed by hand on the pinned
# tree; each is reported in the evidence as an ASSUMED, justified site - a change at such a site is only seen by the bounded stand-in)
JUSTIFIED = [
    ('proof_generation/counting_interpreter.py', 'finalize', 'for-loop over the set `dependencies`',
     'each iteration rewrites only the entry of its own, already present key of _pattern_usage (no insertion: dict order untouched) from values fixed before the loop'),
    ('proof_generation/interpreter.py', 'interpreting_warnings', 'list() of the set `self._interpreting_warnings`',
     'diagnostic text printed on stdout by check_interpreting; never written to the theory / claim / proof files'),
    ('proof_generation/metamath/converter/converter.py', '_import_axiom', 'tuple() of the set `metavar_names`',
     'the stored tuple is consumed only through set(...) (get_metavars) and len() (translate.py)'),
    ('proof_generation/metamath/converter/converter.py', '_import_lemma', 'tuple() of the set `metavar_names`',
     'the stored tuple is consumed only through set(...) (get_metavars) and len() (translate.py)'),
    ('proof_generation/tautology.py', 'is_trivial_clause', 'list() of the set `cl`',
     'existential search for a complementary pair: the boolean result does not depend on the order'),
]


def justified(path, func, detail):
    for p, f, frag, why in JUSTIFIED:
        if p == path and f == func and frag in detail:
            return why
    return None


def scan(root):
    """-> (obligations [(name, ok, detail)], functions scanned)"""
    base = os.path.join(root, 'generation', 'src')
    facts = []
    for m in MODULES:
        p = os.path.join(base, m)
        if os.path.exists(p):
            facts.append(ModuleFacts(m, ast.parse(open(p).read())))
    obs, nfun = [], 0
    for f in facts:
        # (D2) mutable state at class / module level
        for node in f.tree.body:
            tops = [node] if not isinstance(node, ast.ClassDef) else node.body
            owner = node.name + '.' if isinstance(node, ast.ClassDef) else ''
            for st in tops:
                val, name = None, None
                if isinstance(st, ast.Assign) and len(st.targets) == 1 and isinstance(st.targets[0], ast.Name):
                    name, val = st.targets[0].id, st.value
                elif isinstance(st, ast.AnnAssign) and isinstance(st.target, ast.Name) and st.value is not None:
                    name, val = st.target.id, st.value
                if val is None:
                    continue
                mutable = isinstance(val, (ast.Dict, ast.List, ast.Set, ast.ListComp, ast.DictComp, ast.SetComp)) or \
                    (isinstance(val, ast.Call) and isinstance(val.func, ast.Name) and val.func.id in ('dict', 'list', 'set', 'defaultdict', 'OrderedDict', 'Counter'))
                if not mutable:
                    # an INSTANCE of a class of these modules whose methods write to self: an object with state, shared by every run in the process
                    cn = val.func.id if isinstance(val, ast.Call) and isinstance(val.func, ast.Name) else None
                    why = stateful_class(facts, cn) if cn else None
                    if why:
                        obs.append((f'{f.path}:{owner}{name}:line {st.lineno}:state', False,
                                    f'instance of {cn} bound at {"class" if owner else "module"} level, and {cn} keeps state between calls ({why}): it outlives one serialisation / translation'))
                    continue
                written = mutated_somewhere(facts, name, owner != '')
                obs.append((f'{f.path}:{owner}{name}:line {st.lineno}:state', not written,
                            f'mutable container bound at {"class" if owner else "module"} level' + (' and mutated: it outlives one serialisation' if written else ' (never mutated)')))
        for node in ast.walk(f.tree):
            if isinstance(node, ast.FunctionDef):
                nfun += 1
                sc = FnScan(f, facts, node, node.name)
                for line, what, ok, why in sc.sites():
                    if not ok and node.name == '__hash__' and 'hash()' in what:
                        ok, why = True, 'hash() inside __hash__: only observable through iteration order, which (D1) covers'
                    j = None if ok else justified(f.path, node.name, what)
                    if j is not None:
                        obs.append((f'{f.path}:{node.name}:order', True, f'ASSUMED (justified by hand): {what}: {j}'))
                    else:
                        obs.append((f'{f.path}:{node.name}:line {line}:order', ok, f'{what}: {why}'))
    return obs, nfun


MUTATORS = ('append', 'add', 'update', 'extend', 'setdefault', 'pop', 'clear', 'insert', 'remove', 'discard', 'popitem', 'appendleft')


def stateful_class(facts, cname, seen=()):
    """-> description of a method (other than the initialisers) of class `cname` (or of a base class defined in these modules) that writes to self, else None"""
    if cname in seen:
        return None
    for f in facts:
        for c in ast.walk(f.tree):
            if not (isinstance(c, ast.ClassDef) and c.name == cname):
                continue
            for m in c.body:
                if not isinstance(m, ast.FunctionDef) or m.name in ('__init__', '__post_init__', '__new__') or not m.args.args:
                    continue
                me = m.args.args[0].arg

                def on_self(t):
                    return isinstance(t, ast.Attribute) and isinstance(t.value, ast.Name) and t.value.id == me
                for n in ast.walk(m):
                    tg = []
                    if isinstance(n, ast.Assign):
                        tg = n.targets
                    elif isinstance(n, (ast.AugAssign, ast.AnnAssign)):
                        tg = [n.target]
                    for t in tg:
                        if on_self(t) or (isinstance(t, ast.Subscript) and on_self(t.value)):
                            return f'{cname}.{m.name} line {n.lineno} assigns {ast.unparse(t)}'
                    if isinstance(n, ast.Call) and isinstance(n.func, ast.Attribute) and n.func.attr in MUTATORS and on_self(n.func.value):
                        return f'{cname}.{m.name} line {n.lineno} calls {ast.unparse(n.func)}()'
            for b in c.bases:
                if isinstance(b, ast.Name):
                    r = stateful_class(facts, b.id, seen + (cname,))
                    if r:
                        return r
    return None


def mutated_somewhere(facts, name, is_attr):
    for f in facts:
        for n in ast.walk(f.tree):
            tgt = None
            if isinstance(n, ast.Call) and isinstance(n.func, ast.Attribute) and n.func.attr in ('append', 'add', 'update', 'extend', 'setdefault', 'pop', 'clear', 'insert', 'remove', 'discard'):
                tgt = n.func.value
            elif isinstance(n, (ast.Assign, ast.AugAssign)):
                t = n.targets[0] if isinstance(n, ast.Assign) else n.target
                if isinstance(t, ast.Subscript):
                    tgt = t.value
            elif isinstance(n, ast.Delete):
                for t in n.targets:
                    if isinstance(t, ast.Subscript):
                        tgt = t.value
            if tgt is None:
                continue
            if is_attr and isinstance(tgt, ast.Attribute) and tgt.attr == name:
                # an instance attribute of the same name assigned in __init__ shadows the class-level one
                if not assigned_in_init(facts, name):
                    return True
            if not is_attr and isinstance(tgt, ast.Name) and tgt.id == name:
                return True
    return False


def assigned_in_init(facts, name):
    for f in facts:
        for n in ast.walk(f.tree):
            if isinstance(n, ast.FunctionDef) and n.name == '__init__':
                for s in ast.walk(n):
                    t = None
                    if isinstance(s, ast.Assign):
                        t = s.targets[0]
                    elif isinstance(s, ast.AnnAssign):
                        t = s.target
                    if isinstance(t, ast.Attribute) and t.attr == name and isinstance(t.value, ast.Name) and t.value.id == 'self':
                        return True
    return False


def scan_unit(root, results):
    def unit(ctx):
        obs, nfun = scan(root)
        ctx.cover('scan')
        ctx.oblige(f'frame:the modules under contract were found and scanned ({nfun} functions)', z3.BoolVal(nfun > 50), kind='post')
        for name, ok, detail in obs:
            ctx.oblige(f'{name}: {detail}', z3.BoolVal(ok), kind='post')
        return None
    return unit


# ---- bounded differential stand-in -----------------------------------------------------------------------------------------------------------
DIFF = r"""
import io, sys, json, hashlib, os, random
from pathlib import Path
from proof_generation.proof import ProofExp, OutputFormat
from proof_generation.interpreter import ExecutionPhase
from proof_generation.pattern import *
from proof_generation.proofs.propositional import Propositional
from proof_generation.proofs.small_theory import SmallTheory
from proof_generation.proofs.substitution import Substitution
from proof_generation.tautology import Tautology

def _pat(rng, d=2):
    k = rng.randint(0, 6 if d > 0 else 2)
    if k == 0: return EVar(rng.randint(0, 2))
    if k == 1: return Symbol('sym_%d' % rng.randint(0, 5))
    if k == 2: return MetaVar(rng.randint(0, 3))
    if k in (3, 4): return Implies(_pat(rng, d - 1), _pat(rng, d - 1))
    if k == 5: return App(_pat(rng, d - 1), _pat(rng, d - 1))
    return Exists(rng.randint(0, 2), _pat(rng, d - 1))

def _gen(seed):
    rng = random.Random(seed)
    prop = Propositional()
    es = []
    for _ in range(rng.randint(2, 4)):
        a, b = _pat(rng), _pat(rng)
        es.append(prop.modus_ponens(prop.dynamic_inst(prop.prop1(), {1: b, 0: Implies(a, a)}), prop.imp_refl(a)))
        es.append(prop.imp_refl(Implies(a, b)))
    ax = [_pat(rng) for _ in range(rng.randint(1, 3))]
    # many sub-patterns of EQUAL size that are each used more than once and mention symbols: candidates for memoisation that tie in score
    ties = [App(Symbol('sym_%d' % i), Symbol('sym_%d' % (i + 1))) for i in range(6)]
    for i in range(0, 6, 2):
        ax.append(Implies(ties[i], Implies(ties[i + 1], ties[i])))
        ax.append(Implies(ties[i + 1], App(ties[i], ties[i + 1])))
    return ProofExp(axioms=ax, claims=[e.conc for e in es], proof_expressions=es)

def _tie():
    # two memoisation candidates C = (f . zero) and P = (C -> C) reach the SAME score (3 uses * 7 nodes == 7 uses * 3 nodes); which one is taken first
    # decides whether C is memoised at all, so a tie broken by hash order changes the Save/Load instructions
    f, zero = Symbol('f'), Symbol('zero')
    c = App(f, zero)
    p = Implies(c, c)
    axioms = [Implies(p, EVar(i)) for i in range(3)] + [Implies(c, EVar(10 + i)) for i in range(5)]
    m = ProofExp(axioms=axioms, claims=[axioms[3], axioms[0]])
    m._proof_expressions = [m.load_axiom(axioms[3]), m.load_axiom(axioms[0])]
    return m

def _digest(mod, tmp, tag):
    out = {}
    for fmt in (OutputFormat.Binary, OutputFormat.Pretty):
        for opt in (False, True):
            p = Path(tmp) / ('%s_%s_%s' % (tag, fmt.value, opt))
            mod.serialize(p, fmt, opt)
    import gc; gc.collect()
    for f in sorted(os.listdir(tmp)):
        if f.startswith(tag + '_'):
            out[f] = hashlib.sha1(open(os.path.join(tmp, f), 'rb').read()).hexdigest()
    return out

def main(tmp, order, mm_files):
    mods = {'Propositional': Propositional, 'SmallTheory': SmallTheory, 'Substitution': Substitution,
            'gen1': lambda: _gen(1), 'gen2': lambda: _gen(2), 'gen3': lambda: _gen(3), 'tie': _tie}
    names = list(mods)
    if order == 'rev': names.reverse()
    res = {}
    for n in names:
        res[n] = _digest(mods[n](), tmp, n)
    if mm_files:
        from proof_generation.metamath.parser import load_database
        from proof_generation.metamath.converter.converter import MetamathConverter
        from proof_generation.metamath.translate import convert_to_implication, exec_proof
        from proof_generation.stateful_interpreter import StatefulInterpreter
        if order == 'rev':
            mm_files = list(reversed(mm_files))
        for f in mm_files:
            if order == 'rev':
                # an unrelated database loaded EARLIER in the same process, declaring every math token of f as a variable: nothing of it may survive
                toks = sorted({t for t in open(f).read().split() if not t.startswith('$') and t not in ('(', ')')})
                pz = os.path.join(tmp, 'earlier.mm')
                open(pz, 'w').write('$c #Pattern |- $.\n$v ' + ' '.join(toks) + ' $.\n')
                try:
                    load_database(pz, include_proof=True)
                except BaseException:
                    pass
            try:
                db = load_database(f, include_proof=True)
                conv = MetamathConverter(db)
                h = hashlib.sha1()
                for k in sorted(conv._axioms): h.update(repr([(a.name, str(a.pattern), a.args) for a in conv._axioms[k]]).encode())
                for k in sorted(conv._lemmas): h.update(repr([(a.name, str(a.pattern), a.args) for a in conv._lemmas[k]]).encode())
                for k in sorted(conv._lemmas):
                    lm = conv._lemmas[k][0]
                    if getattr(lm, 'proof', None) is not None:
                        h.update(repr((sorted(lm.proof.labels.items()), lm.proof.applied_lemmas)).encode())
                res['mm:' + os.path.basename(f)] = {'converter': h.hexdigest()}
            except BaseException as e:
                res['mm:' + os.path.basename(f)] = {'error': type(e).__name__ + ': ' + str(e)[:100]}
    print(json.dumps(res, sort_keys=True))

main(sys.argv[1], sys.argv[2], sys.argv[3:])
"""


def determinism_bounded(root, tier, seed):
    import json
    import subprocess
    import tempfile
    import shutil
    import glob
    seeds = ['0', '1', '2', '3', '7'] if tier == 'quick' else [str(i) for i in range(12)] + ['13', '42']
    mm = sorted(glob.glob(os.path.join(root, 'generation', 'mm-benchmarks', '*.mm')))[:3] + sorted(glob.glob(os.path.join(root, 'proofs', 'metamath', '*.mm')))[:3]
    mm = [f for f in mm if os.path.getsize(f) < 400000]
    mm += [os.path.join(os.path.dirname(os.path.dirname(os.path.abspath(__file__))), 'replay_data', 'two_vars.mm')]
    runs = []
    for hs in seeds:
        for order in (('fwd', 'rev') if hs == seeds[0] else ('fwd',)):
            d = tempfile.mkdtemp(prefix='pi2_c18_')
            try:
                env = dict(os.environ, PYTHONHASHSEED=hs, PYTHONPATH=os.path.join(root, 'generation', 'src'))
                p = subprocess.run(['/venv/bin/python', '-c', DIFF, d, order] + mm, capture_output=True, text=True, env=env, timeout=1500, cwd=os.path.join(root, 'generation'))
                if p.returncode != 0:
                    return {'failed_clause': 'driver failed under PYTHONHASHSEED=' + hs + ': ' + p.stderr[-400:], 'expr': 'serialise / translate'}, 0
                runs.append(((hs, order), json.loads(p.stdout.strip().split('\n')[-1])))
            finally:
                shutil.rmtree(d, ignore_errors=True)
    ref_key, ref = runs[0]
    n = sum(len(v) for v in ref.values())
    for key, r in runs[1:]:
        for k in ref:
            if r.get(k) != ref[k]:
                diff = [f for f in ref[k] if r.get(k, {}).get(f) != ref[k][f]]
                return {'failed_clause': f'output of {k} differs between PYTHONHASHSEED={ref_key[0]}/{ref_key[1]} and PYTHONHASHSEED={key[0]}/{key[1]}: {diff[:4]}', 'expr': k,
                        'runs': [list(ref_key), list(key)]}, n * len(runs)
    return None, n * len(runs)
