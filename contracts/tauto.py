"""C09 - the tautology prover.

Deductive part (all inputs): the GLUE of prove_tautology - given stage functions and the resolution driver that keep their advertised
interfaces (each stage returns (term, proof of in -> out, proof of out -> in); to_conj_form returns a proof of the pattern / of its negation
when the form collapses to top / bottom; the driver returns a proof of the clause conjunction or of its negation), the value returned is
(True, proof whose advertised conclusion is literally the pattern) or (False, ... its negation) and no construction-time assertion fails.
Library rules used by the glue go through their docstring contracts (C10).

NOT deductive (stated in DESIGN.md): that each stage returns an equivalent formula of the advertised shape, and that saturation is complete
(Robinson).  Those are decided by the bounded stand-in below only: exhaustive over all propositional patterns up to a size bound, random
beyond it, against a truth-table oracle, with every returned proof replayed on the real interpreter."""
import z3
from vc.sorts import *  # noqa
from vc.spec import *  # noqa
from vc.engine import SV, SymRaise, Unsupported
from vc.pyfe import Interp, Obj
from contracts.interp_sim import _p
from contracts.refine import good_thunk
from contracts.lemlib import library, LemmaContract, MatchCall, AXIOMS_OF, BOT_M, m_neg, TAUT_MOD, TAUT_FILE

TM = 'proof_generation.tautology'


def imp(a, b):
    return M.mk('Implies', a, b)


def _thunk(repo, ctx, m_conc, tag):
    c = ctx.fresh('ppat', tag + '_conc')
    ctx.assume(z3.And(expand(c.t) == m_conc, pwf(c.t)))
    return good_thunk(repo, ctx, c, tag)


class Stage:
    """a normal-form stage under its advertised interface: (term, proof of X_in -> X_out, proof of X_out -> X_in)"""
    def __init__(self, repo, name, st):
        self.repo, self.name, self.st = repo, name, st

    def apply(self, interp, ctx, args, kwargs):
        st = self.st
        x_in = st['cur']
        if self.name == 'to_conj_form':
            p = args[1]
            x_in = expand(p.t)
            k = ctx.choose(3, 'to_conj_form: top / bottom / proper form')
            if k < 2:
                cls = self.repo.cls(TM, 'CFBot')
                term = Obj(cls, {'negated': k == 0})
                # NOTE of the docstring: only the first proof, a proof of `pat` (top) or `neg(pat)` (bottom)
                return (term, _thunk(self.repo, ctx, x_in if k == 0 else m_neg(x_in), 'conj1'), None)
        x_out = ctx.fresh('mpat', self.name + '_out').t
        st['cur'] = x_out
        term = Obj(self.repo.cls(TM, 'CFOr'), {'negated': False, 'left': None, 'right': None}) if self.name != 'to_clauses' else [['opaque clause list']]
        return (term, _thunk(self.repo, ctx, imp(x_in, x_out), self.name + '1'), _thunk(self.repo, ctx, imp(x_out, x_in), self.name + '2'))


class Driver:
    """start_resolution_algorithm under its advertised interface: None | (True, proof of the clauses) | (False, proof of their negation)"""
    def __init__(self, repo, st):
        self.repo, self.st = repo, st

    def apply(self, interp, ctx, args, kwargs):
        k = ctx.choose(3, 'resolution: inconclusive / clauses proved / clauses refuted')
        x = self.st['cur']
        if k == 0:
            return None
        if k == 1:
            return (True, _thunk(self.repo, ctx, x, 'clauses_proved'))
        return (False, _thunk(self.repo, ctx, m_neg(x), 'clauses_refuted'))


def glue_unit(repo, cs):
    def unit(ctx):
        infos, _ = library(repo)
        st = {'cur': None}
        contracts = dict(cs)
        contracts['match_single'] = MatchCall()
        for q2, i2 in infos.items():
            contracts[q2] = LemmaContract(repo, i2)
        for n in ('to_conj_form', 'propag_neg', 'to_cnf', 'to_clauses'):
            contracts['Tautology.' + n] = Stage(repo, n, st)
        contracts['Tautology.start_resolution_algorithm'] = Driver(repo, st)
        interp = Interp(repo, ctx, contracts, opts={'skip_post_init': ['Notation']})
        cls = repo.cls(TM, 'Tautology')
        me = Obj(cls, {'_axioms': AXIOMS_OF(interp, cls), '_claims': [], '_submodules': [], '_proof_expressions': [], '_notations': []})
        pat = _p(ctx, 'pat')
        ctx.cover('call')
        try:
            r = interp.run_function(cls.find_method('prove_tautology'), [me, pat])
        except SymRaise as e:
            ctx.oblige(f'noraise:the glue must compose the stage proofs without a failing assertion ({e.cls} at {e.where})', z3.BoolVal(False), kind='noraise')
            return None
        if r is None:
            return None
        ok = isinstance(r, tuple) and len(r) == 2 and isinstance(r[0], bool) and isinstance(r[1], Obj) and 'conc' in r[1].attrs
        if not ok:
            ctx.oblige('post:returns None or (bool, ProofThunk)', z3.BoolVal(False), kind='post')
            return None
        want = expand(pat.t) if r[0] else m_neg(expand(pat.t))
        ctx.oblige('post:the conclusion of the returned proof is literally the pattern (True) / its negation (False)', expand(r[1].attrs['conc'].t) == want, kind='post')
        return None
    return unit


# ---- bounded stand-in: the prover against a truth-table oracle ------------------------------------------------------------------------------
TAUTO_PRELUDE = r"""
import itertools, random
from proof_generation.tautology import Tautology, conj_to_pattern, clause_conjunctionto_pattern, CFAnd, CFOr, CFVar, CFBot
from proof_generation.stateful_interpreter import StatefulInterpreter
from proof_generation.interpreter import ExecutionPhase
from proof_generation.pattern import *
from proof_generation.pattern import _and, _or

NV = 4
def ev(p, v):
    if isinstance(p, MetaVar): return v[p.name]
    if isinstance(p, Implies): return (not ev(p.left, v)) or ev(p.right, v)
    if isinstance(p, Instantiate): return ev(p.simplify(), v)
    if isinstance(p, Mu): return False
    raise Exception('not propositional: %r' % (p,))
def table(p): return tuple(ev(p, dict(enumerate(bits))) for bits in itertools.product([False, True], repeat=NV))

def enum(size):
    # all patterns with exactly `size` connective/atom nodes over phi0..phi2, bot, top, ->, ~, \/, /\
    if size == 1:
        return [MetaVar(i) for i in range(3)] + [bot(), top()]
    out = [neg(a) for a in enum(size - 1)]
    for k in range(1, size - 1):
        for a in enum(k):
            for b in enum(size - 1 - k):
                out += [Implies(a, b), _or(a, b), _and(a, b)]
    return out

def rnd(rng, d):
    k = rng.randint(0, 7 if d > 0 else 1)
    if k <= 1: return MetaVar(rng.randint(0, NV - 1))
    if k == 2: return neg(rnd(rng, d - 1))
    if k == 3: return Implies(rnd(rng, d - 1), rnd(rng, d - 1))
    if k in (4, 5): return _or(rnd(rng, d - 1), rnd(rng, d - 1))
    if k == 6: return _and(rnd(rng, d - 1), rnd(rng, d - 1))
    return rng.choice([bot(), top()])

def cnf(rng):
    # conjunctions of clauses (the shapes that drive the resolution loop hardest), literals may repeat
    def lit():
        v = MetaVar(rng.randint(0, NV - 1))
        return neg(v) if rng.random() < 0.5 else v
    def clause():
        ls = [lit() for _ in range(rng.randint(1, 3))]
        c = ls[-1]
        for x in reversed(ls[:-1]): c = _or(x, c) if rng.random() < 0.7 else _or(c, x)
        return c
    cs = [clause() for _ in range(rng.randint(2, 4))]
    c = cs[-1]
    for x in reversed(cs[:-1]): c = _and(x, c) if rng.random() < 0.7 else _and(c, x)
    return neg(c) if rng.random() < 0.3 else c

def replay(t, thunk):
    it = StatefulInterpreter(ExecutionPhase.Gamma)
    for ax in t._axioms:
        it.publish_axiom(it.pattern(ax)); it.pop(it.stack[-1])
    it.into_claim_phase(); it.into_proof_phase()
    return thunk(it).conclusion

def shape_ok(term, stage):
    # to_conj_form: and/or/var with negation flags; propag_neg: negation only on variables; to_cnf: no /\ under \/
    def walk(x, under_or):
        if isinstance(x, CFVar): return True
        if isinstance(x, CFBot): return False
        if stage >= 2 and x.negated: return False
        if isinstance(x, CFAnd):
            if stage >= 3 and under_or: return False
            return walk(x.left, under_or) and walk(x.right, under_or)
        if isinstance(x, CFOr): return walk(x.left, True) and walk(x.right, True)
        return False
    return walk(term, False)

STATS = {'seen': set(), 'nontrivial': 0, 'samples': []}

def note(p, want):
    k = str(p)
    if k in STATS['seen']:
        return
    STATS['seen'].add(k)
    if not isinstance(p, MetaVar) and p != bot() and p != top():
        STATS['nontrivial'] += 1
        if len(STATS['samples']) < 6 and len(k) < 160:
            STATS['samples'].append([k, {True: 'tautology', False: 'unsatisfiable', None: 'contingent'}[want]])

def check_one(t, p, stages):
    tb = table(p)
    want = True if all(tb) else (False if not any(tb) else None)
    note(p, want)
    try:
        r = t.prove_tautology(p)
    except RecursionError:
        return None              # interpreter resource limit on a large formula: not a verdict of the prover
    except BaseException as e:
        return 'prove_tautology raises %s: %s' % (type(e).__name__, str(e)[:80])
    got = None if r is None else r[0]
    if got != want:
        return 'classified %s, truth table says %s' % (got, want)
    if r is not None:
        goal = p if r[0] else neg(p)
        if r[1].conc != goal: return 'advertised conclusion %s is not the %s' % (r[1].conc, 'pattern' if r[0] else 'negated pattern')
        try:
            c = replay(t, r[1])
        except BaseException as e:
            return 'returned proof does not replay: %s: %s' % (type(e).__name__, str(e)[:100])
        if c != goal: return 'returned proof replays to %s' % (c,)
    if stages:
        try:
            t1, a1, b1 = t.to_conj_form(p)
            if isinstance(t1, CFBot): return None
            cur, curp = t1, conj_to_pattern(t1)
            for st, (f, nm) in enumerate(((None, 'to_conj_form'), (t.propag_neg, 'propag_neg'), (t.to_cnf, 'to_cnf')), 1):
                if f is not None:
                    prevp = curp
                    cur, a1, b1 = f(cur)
                    curp = conj_to_pattern(cur)
                else:
                    prevp = p
                if table(curp) != table(prevp): return '%s returns a formula that is not equivalent to its input' % nm
                if not shape_ok(cur, st): return '%s returns a formula that is not in the advertised shape' % nm
                if a1.conc != Implies(prevp, curp) or b1.conc != Implies(curp, prevp): return '%s: the two proofs are not input -> output and output -> input' % nm
            cl, a1, b1 = t.to_clauses(cur)
            clp = clause_conjunctionto_pattern(cl)
            if table(clp) != table(curp): return 'to_clauses returns a clause list that is not equivalent to its input'
            if a1.conc != Implies(curp, clp) or b1.conc != Implies(clp, curp): return 'to_clauses: the two proofs are not input -> output and output -> input'
        except RecursionError:
            return None
        except BaseException as e:
            return 'a normal-form stage raises %s: %s' % (type(e).__name__, str(e)[:100])
    return None

def _c09_res(t, seed, n):
    # the saturation loop alone, on clause sets (no proof construction): True exactly for unsatisfiable sets of non-trivial clauses
    rng = random.Random(seed)
    fixed = [[[-1, 3], [3, -2], [-1], [1]], [[1], [-1]], [[1, 2], [-1, 2], [-2]], [[1, 2], [-1], [-2, 3], [-3]], [[1, 2, 3], [-1], [-2], [-3]]]
    for case in range(n):
        if case < len(fixed):
            cls = fixed[case]
        else:
            cls = []
            for _ in range(rng.randint(2, 6)):
                vs = rng.sample(range(1, 5), rng.randint(1, 3))
                cls.append([v if rng.random() < 0.5 else -v for v in vs])
        sets = []
        for c in cls:
            fs = frozenset(c)
            if fs not in sets: sets.append(fs)
        hint = {fs: i for i, fs in enumerate(sets)}
        try:
            got = t.resolution_algorithm(hint, list(hint.keys()))
        except BaseException as e:
            return 'resolution_algorithm raises %s on %r' % (type(e).__name__, cls)
        sat = any(all(any((l > 0) == bits[abs(l) - 1] for l in c) for c in sets) for bits in itertools.product([False, True], repeat=4))
        if got != (not sat):
            return 'resolution_algorithm returns %s on the %s clause set %r' % (got, 'satisfiable' if sat else 'unsatisfiable', cls)
    return None

def _c09(seed, max_size, n_random, depth):
    t = Tautology()
    done = 0
    r = _c09_res(t, seed, 40 * n_random // 10)
    if r: return ('fail', r, 'clause sets', 0)
    for size in range(1, max_size + 1):
        for p in enum(size):
            r = check_one(t, p, size <= 3)
            if r: return ('fail', r, str(p), done)
            done += 1
    # conjunctions of k clauses that are ALL trivially true (the branch of start_resolution_algorithm that folds per-clause proofs), in non-palindromic order
    lem = lambda v: _or(v, neg(v))
    triv = [lem(MetaVar(0)), lem(MetaVar(1)), lem(MetaVar(2)), _or(neg(MetaVar(0)), MetaVar(0)), _or(MetaVar(3), _or(neg(MetaVar(3)), MetaVar(1))), lem(MetaVar(3))]
    for k in range(1, 6):
        c = triv[k - 1]
        for x in reversed(triv[:k - 1]): c = _and(x, c)
        for p in ((c, neg(c)) if k <= 2 else (neg(c),)):          # the clauses of ~~c are the k trivial clauses: prove_tautology(~c) takes the all-trivial branch
            r = check_one(t, p, False)
            if r: return ('fail', r, str(p), done)
            done += 1
    rng = random.Random(seed)
    for i in range(n_random):
        p = rnd(rng, depth) if i % 3 else cnf(rng)
        r = check_one(t, p, i % 4 == 0)
        if r: return ('fail', r, str(p), done)
        done += 1
    return ('ok', done, STATS['nontrivial'], STATS['samples'])
"""


def tauto_bounded(root, tier, seed):
    from vc import replay as rp
    ms, nr, dp = (3, 60, 3) if tier == 'quick' else (4, 1000, 4)
    jobs = [{'expr': f'_c09({seed}, {ms}, {nr}, {dp})'}]
    real = rp.run_real(jobs, prelude=TAUTO_PRELUDE, root=root, timeout=5000)[0]
    rp.check_driver(real)
    if not real['ok']:
        return {'expr': jobs[0]['expr'], 'real': real, 'failed_clause': 'bounded driver raised: ' + str(real.get('exc'))}, 0, (ms, nr, dp)
    d = rp.repr_to_data(real['repr'])
    if d[0] == 'tuple' and d[1] == 'ok':
        LAST.update({'evaluations': d[2], 'distinct_nontrivial': d[3], 'samples': _plain(d[4])})
        return None, d[2], (ms, nr, dp)
    return {'expr': jobs[0]['expr'], 'real': real, 'failed_clause': str(d[2]), 'pattern': str(d[3])}, d[4], (ms, nr, dp)


LAST = {}


def _plain(x):
    if isinstance(x, tuple) and x and x[0] in ('list', 'tuple'):
        return [_plain(y) for y in x[1:]]
    if isinstance(x, tuple) and x and x[0] == 'dict':
        return {str(_plain(k)): _plain(v) for k, v in x[1:]}
    return x
