"""C05: every opcode arm of the real `execute_instructions` loop refines the spec machine step (both directions: returns
normally with the SM successor state, panics only where SM rejects); read_u8_vec and the Instantiate operand loop are under
loop contracts; `verify` is checked against three SM runs."""
import z3
from vc.sorts import *  # noqa
from vc.spec import *  # noqa
from vc import sm
from vc.engine import SV, SymRaise, PathEnd, Infeasible, Unsupported
from vc.rsfe import RsInterp, REnv, RIter, Ref, EnumVal, UVec, _Ret
from vc.rscontract import RsContract


class StepDone(PathEnd):
    pass


_RS_MUTATORS = ('push', 'pop', 'clear', 'reserve', 'remove', 'insert', 'extend', 'truncate', 'append', 'drain', 'retain', 'swap', 'sort', 'reverse', 'resize', 'push_str',
                'extend_from_slice', 'shrink_to_fit', 'take', 'next', 'replace', 'get_mut', 'iter_mut', 'last_mut', 'first_mut', 'as_mut', 'borrow_mut', 'set', 'entry')


def _written_names(n, out=None):
    """names a block of Rust writes through: assigned, borrowed mutably, or receiver of a mutating method"""
    out = set() if out is None else out
    if isinstance(n, dict):
        k = n.get('k')
        def base(x):
            while isinstance(x, dict) and x.get('k') in ('field', 'index', 'unary', 'mcall') and x.get('k') != 'path':
                x = x.get('e') or x.get('recv') or x.get('base') or x.get('o')
            if isinstance(x, dict) and x.get('k') == 'path' and len(x.get('segs', [])) == 1:
                return x['segs'][0]
            return None
        if k == 'assign':
            b = base(n['l'])
            if b:
                out.add(b)
        elif k == 'mcall' and n.get('m') in _RS_MUTATORS:
            b = base(n['recv'])
            if b:
                out.add(b)
        elif k == 'unary' and str(n.get('op', '')).replace(' ', '') in ('&mut',):
            b = base(n.get('e'))
            if b:
                out.add(b)
        for v in n.values():
            _written_names(v, out)
    elif isinstance(n, (list, tuple)):
        for v in n:
            _written_names(v, out)
    return out


def _option_kind(interp, name):
    """payload kind of `let mut name: Option<..> = None` in execute_instructions, from its type annotation"""
    fn = interp.prog.fns['execute_instructions']
    def find(n):
        if isinstance(n, dict):
            if n.get('k') == 'let' and isinstance(n.get('pat'), dict) and name in repr(n['pat']) and n.get('ty') is not None:
                return repr(n['ty'])
            for v in n.values():
                r = find(v)
                if r:
                    return r
        elif isinstance(n, (list, tuple)):
            for v in n:
                r = find(v)
                if r:
                    return r
        return None
    ty = find(fn) or ''
    if 'Pattern' in ty:
        return 'mpat'
    if any(t in ty for t in ("'u8'", "'Id'", "'usize'", "'u32'")):
        return 'int'
    if "'bool'" in ty:
        return 'bool'
    return None


def _pushes(n, out=None):
    """[(receiver name, names of the functions called in the pushed expression)] for every `x.push(e)` in a block"""
    out = [] if out is None else out
    if isinstance(n, dict):
        if n.get('k') == 'mcall' and n.get('m') == 'push' and isinstance(n.get('recv'), dict) and n['recv'].get('k') == 'path' and len(n['recv'].get('segs', [])) == 1:
            out.append((n['recv']['segs'][0], _called(n.get('args'))))
        for v in n.values():
            _pushes(v, out)
    elif isinstance(n, (list, tuple)):
        for v in n:
            _pushes(v, out)
    return out


def _called(n, out=None):
    out = set() if out is None else out
    if isinstance(n, dict):
        if n.get('k') == 'call' and isinstance(n.get('f'), dict) and n['f'].get('k') == 'path':
            out.add(n['f']['segs'][-1])
        for v in n.values():
            _called(v, out)
    elif isinstance(n, (list, tuple)):
        for v in n:
            _called(v, out)
    return out


class MainLoop:
    """Loop contract of `while let Some(instr) = iterator.next()`: the step from an ARBITRARY state on opcode `op`."""

    def __init__(self, op, phase, code=None, quantifier=None):
        self.op = op
        self.phase = phase
        self.code = sm.OPC.get(op) if code is None else code
        self.quantifier = quantifier or sm.QUANTIFIER_IMPL

    def run(self, interp, e, env):
        ctx = interp.ctx
        S = ctx.input('stack', 'stack')
        Mm = ctx.input('mem', 'memory')
        C = ctx.input('claims', 'claims')
        rest1 = ctx.input('idl', 'operands')
        code = self.code if isinstance(self.code, int) else ctx.input('int', 'opcode').t
        if not isinstance(self.code, int):
            # an opcode outside the table
            ctx.assume(z3.And(code >= 0, code <= 255, *[code != c for c in sm.OPC.values()]))
        for name, v in (('stack', S), ('memory', Mm), ('claims', C)):
            r = env.get(name)
            if not isinstance(r, Ref):
                raise Unsupported(f'{name} is not a &mut parameter')
            r.set(v)
        it = interp.deref(env.get('iterator'))
        if not isinstance(it, RIter):
            raise Unsupported('iterator is not a slice iterator')
        # loop-carried locals: a variable declared BEFORE the loop and written inside it holds an arbitrary value at the head of an arbitrary iteration
        # (the machine state and the iterator are covered by the invariant above; anything else is havocked)
        for name in sorted(_written_names(e['body'])):
            if name in ('stack', 'memory', 'claims', 'iterator') or env.lookup(name) is None:
                continue
            cur = interp.deref(env.get(name))
            if isinstance(cur, SV) and cur.kind in ('idl', 'mlist', 'int', 'bool'):
                env.set_existing(name, ctx.fresh(cur.kind, f'carried_{name}'))
            elif isinstance(cur, (bool, int)):
                env.set_existing(name, ctx.fresh('bool' if isinstance(cur, bool) else 'int', f'carried_{name}'))
            elif cur is None or (isinstance(cur, tuple) and cur and cur[0] == 'Some' and isinstance(cur[1], SV) and cur[1].kind in ('mpat', 'int', 'bool')):
                # an Option (declared None, or Some(x)): after an arbitrary history it is None or Some(arbitrary)
                kind = cur[1].kind if cur is not None else _option_kind(interp, name)
                if kind is None:
                    raise Unsupported(f'local `{name}` (an Option of unknown payload) is declared before the instruction loop and written inside it')
                env.set_existing(name, None if ctx.choose(2, f'carried {name}: None / Some') == 0 else ('Some', ctx.fresh(kind, f'carried_{name}')))
            else:
                raise Unsupported(f'local `{name}` is declared before the instruction loop and written inside it (loop-carried state of a kind the contract cannot havoc: {cur!r})')
        it.rest = SV(IDL.mk('icons', code if not isinstance(code, int) else z3.IntVal(code), rest1.t), 'idl')
        ok, S2, M2, C2, r2 = (sm.step(self.op, self.phase, S.t, Mm.t, C.t, rest1.t, self.quantifier) if self.op else
                              (z3.BoolVal(False), S.t, Mm.t, C.t, rest1.t))
        self.expected = (ok, S2, M2, C2, r2)
        # machine invariant: every pattern held by the machine is shape-well-formed (established by the construction opcodes)
        ctx.assume(z3.And(tl_all_wf(S.t), tl_all_wf(Mm.t), ml_all_wf(C.t)))
        v = interp.ev(e['e'], env)
        e2 = REnv(env)
        if not interp.bind(e['pat'], v, e2):
            raise Infeasible()
        ctx.cover('opcode arm entered')
        interp.block(e['body'], e2)
        # normal completion of the arm
        ctx.oblige('post:spec machine accepts this step', ok, kind='post')
        ctx.oblige('post:stack', interp.deref(env.get('stack')).t == S2, kind='post')
        ctx.oblige('post:memory', interp.deref(env.get('memory')).t == M2, kind='post')
        ctx.oblige('post:claims', interp.deref(env.get('claims')).t == C2, kind='post')
        ctx.oblige('post:operands consumed', it.rest.t == r2, kind='post')
        ctx.oblige('post:well-formedness invariant', z3.And(tl_all_wf(interp.deref(env.get('stack')).t),
                                                             tl_all_wf(interp.deref(env.get('memory')).t),
                                                             ml_all_wf(interp.deref(env.get('claims')).t)), kind='post')
        run = sm.RUN[self.phase]
        ctx.oblige('post:run invariant', run(IDL.mk('icons', z3.IntVal(self.code), rest1.t), S.t, Mm.t, C.t) == run(r2, S2, M2, C2), kind='post') \
            if isinstance(self.code, int) and self.op not in sm.UNDOCUMENTED and self.op else None
        raise StepDone()


def step_unit(prog, contracts, op, phase, opts=None, code=None):
    def unit(ctx):
        lc = MainLoop(op, phase, code)
        o = dict(opts or {})
        o['loops'] = dict(o.get('loops', {}))
        o['loops'][('execute_instructions', 'while-let')] = lc
        o['iter_objects'] = True
        interp = RsInterp(prog, ctx, contracts, opts=o)
        fn = prog.fns['execute_instructions']
        cells = {n: [UVec()] for n in ('stack', 'memory', 'claims')}
        refs = {n: Ref((lambda c=c: c[0]), (lambda v, c=c: c.__setitem__(0, v))) for n, c in cells.items()}
        buf = ctx.fresh('idl', 'buffer')
        try:
            interp.run_fn(fn, [buf, refs['stack'], refs['memory'], refs['claims'], EnumVal('ExecutionPhase', phase)])
        except SymRaise as ex:
            ok = lc.expected[0] if hasattr(lc, 'expected') else z3.BoolVal(False)
            ctx.oblige(f'nopanic[{ex.where}]:panics only where the spec machine rejects', z3.Not(ok), kind='nopanic', where=ex.where)
            raise
        raise Unsupported('loop contract did not end the path')
    return unit


# ---- the checker's judgements and derived predicates coincide with the document's --------------------------------------------------
def equivalence_lemmas(rsf, rs_preds):
    """rsf: reflected RS_* judgement functions; rs_preds: (ok, alls, mce, mcs) built over them (contracts/rust_subst.py)."""
    from vc.lemmas import Lemma
    from contracts.rust_judgements import _ih_other_vars
    phi, psi = z3.Const('phi', MPat), z3.Const('psi', MPat)
    X, Y = z3.Int('X'), z3.Int('Y')
    il = z3.Const('il_', IdL)
    vs, ps = z3.Const('vs__', IdL), z3.Const('ps__', ML)
    ok, alls, mce, mcs = rs_preds
    out = []
    le = Lemma('rs_e_fresh_is_doc', [phi, X], rsf['e_fresh'](phi, X) == sm.doc_e_fresh(phi, X), ind=phi, rewrite=True,
               triggers=[rsf['e_fresh'](phi, X)])
    ls = Lemma('rs_s_fresh_is_doc', [phi, X], rsf['s_fresh'](phi, X) == sm.doc_s_fresh(phi, X), ind=phi, rewrite=True,
               triggers=[rsf['s_fresh'](phi, X)])
    lp = Lemma('rs_positive_is_doc', [phi, X], rsf['positive'](phi, X) == sm.doc_positive(phi, X), ind=phi, rewrite=True,
               triggers=[rsf['positive'](phi, X)], uses=['rs_s_fresh_is_doc'], ih_extra=_ih_other_vars)
    ln = Lemma('rs_negative_is_doc', [phi, X], rsf['negative'](phi, X) == sm.doc_negative(phi, X), ind=phi, rewrite=True,
               triggers=[rsf['negative'](phi, X)], uses=['rs_s_fresh_is_doc'], ih_extra=_ih_other_vars)
    lp.companions = [ln]
    out += [le, ls, lp, ln]
    judg = ['rs_e_fresh_is_doc', 'rs_s_fresh_is_doc', 'rs_positive_is_doc', 'rs_negative_is_doc']
    out.append(Lemma('rs_mcap_e_is_doc', [phi, Y, psi], mce(phi, Y, psi) == sm.doc_mcap_e(phi, Y, psi), ind=phi, rewrite=True,
                     triggers=[mce(phi, Y, psi)], uses=judg))
    out.append(Lemma('rs_mcap_s_is_doc', [phi, Y, psi], mcs(phi, Y, psi) == sm.doc_mcap_s(phi, Y, psi), ind=phi, rewrite=True,
                     triggers=[mcs(phi, Y, psi)], uses=judg))
    for k in ('e_fresh', 's_fresh', 'positive', 'negative'):
        out.append(Lemma(f'rs_all_{k}_is_doc', [il, psi], alls[k](il, psi) == sm.DOC_ALLS[k](il, psi), ind=il, rewrite=True,
                         triggers=[alls[k](il, psi)], uses=judg))
    out.append(Lemma('rs_inst_ok_is_doc', [phi, vs, ps], ok(phi, vs, ps) == sm.doc_inst_ok(phi, vs, ps), ind=phi, rewrite=True,
                     triggers=[ok(phi, vs, ps)],
                     uses=['rs_mcap_e_is_doc', 'rs_mcap_s_is_doc'] + [f'rs_all_{k}_is_doc' for k in ('e_fresh', 's_fresh', 'positive', 'negative')]))
    return out


# ---- read_u8_vec: length-prefixed operand list -----------------------------------------------------------------------------------------
class ReadVecContract:
    """Caller side of read_u8_vec(iterator): the document's length-prefixed list; panics iff the input is shorter."""
    name = 'read_u8_vec'

    def apply_rs(self, interp, ctx, args):
        it = interp.deref(args[0])
        if not isinstance(it, RIter):
            raise Unsupported('read_u8_vec on a non-iterator')
        ok, lst, rest2 = sm.read_list(it.rest.t)
        if not ctx.branch(ok, 'read_u8_vec: enough input'):
            raise SymRaise('panic', '', 'callee read_u8_vec')
        it.rest = SV(rest2, 'idl')
        return SV(lst, 'idl')


class ReadLoop:
    """`for _ in 0..len { vec.push(*iterator.next().expect(..)) }` : invariant read_n(len, r0, []) == read_n(len-k, rest, vec)."""

    def run(self, interp, e, rng, env):
        ctx = interp.ctx
        # the variables are found by role: the one iterator in scope, the one vector being filled, the range's upper bound
        its = env.names_where(lambda v: isinstance(interp.deref(v), RIter))
        vecs = env.names_where(lambda v: isinstance(interp.deref(v), UVec) or (isinstance(interp.deref(v), SV) and interp.deref(v).kind == 'idl'))
        if len(its) != 1 or len(vecs) != 1:
            raise Unsupported(f'read loop: expected one iterator and one vector in scope, found {its} / {vecs}')
        vname = vecs[0]
        it = interp.deref(env.get(its[0]))
        ln = interp.zint(rng[2])
        r0 = it.rest.t
        v0 = interp.as_idl(env.get(vname))
        whole = sm.read_n(ln, r0, v0)
        self.whole = whole
        lo, hi = interp.zint(rng[1]), interp.zint(rng[2])
        ctx.oblige('loop-entry:range starts at 0', lo == 0, kind='loop')
        which = ctx.choose(2, 'for: arbitrary iteration / exit')
        k = ctx.fresh('int', 'k').t
        vec = ctx.fresh('idl', 'vec')
        rest = ctx.fresh('idl', 'rest')
        env.set_existing(vname, vec)
        it.rest = rest
        if which == 0:
            ctx.assume(z3.And(k >= 0, k < ln, whole == sm.read_n(ln - k, rest.t, vec.t)))
            ctx.check_feasible()
            e2 = REnv(env)
            interp.bind(e['pat'], SV(k, 'int'), e2)
            try:
                interp.block(e['body'], e2)
            except SymRaise:
                ctx.oblige('loop-step:panics only if the input is too short', RDR.is_('rfail', whole), kind='loop')
                raise
            ctx.oblige('loop-step:invariant', whole == sm.read_n(ln - (k + 1), it.rest.t, interp.as_idl(env.get(vname))), kind='loop')
            raise StepDone()
        ctx.assume(z3.And(k >= 0, z3.Or(k == ln, z3.And(ln < 0, k == 0)), whole == sm.read_n(ln - k, rest.t, vec.t)))
        ctx.check_feasible()
        return ()


def read_vec_unit(prog, contracts):
    def unit(ctx):
        lc = ReadLoop()
        interp = RsInterp(prog, ctx, contracts, opts={'loops': {('read_u8_vec', 'for'): lc}, 'iter_objects': True, 'inline': ['read_u8_vec']})
        r0 = ctx.input('idl', 'input')
        it = RIter(r0)
        ok, lst, rest2 = sm.read_list(r0.t)
        try:
            res = interp.run_fn(prog.fns['read_u8_vec'], [it])
        except SymRaise as ex:
            ctx.oblige('nopanic:panics only if the input is too short', z3.Not(ok), kind='nopanic')
            raise
        ctx.oblige('post:enough input', ok, kind='post')
        ctx.oblige('post:list', interp.as_idl(res) == lst, kind='post')
        ctx.oblige('post:rest', it.rest.t == rest2, kind='post')
        return res
    return unit


# ---- Instantiate: iterator.take(n).for_each(|arg| { ids.push(..); plugs.push(pop_stack_pattern(stack)) }) -------------------------------
class TakeLoop:
    def run(self, interp, pl, n, clo, env):
        ctx = interp.ctx
        it = interp.deref(pl.get())
        if not isinstance(it, RIter):
            raise Unsupported('take on a non-iterator')
        nn = interp.zint(n)
        cenv = clo.env
        # the two vectors are found by role: the one that receives what pop_stack_pattern returns (plugs) and the other one pushed to (ids)
        pushes = _pushes(clo.node['body'])
        pl_names = [r for r, calls in pushes if 'pop_stack_pattern' in calls]
        id_names = [r for r, calls in pushes if 'pop_stack_pattern' not in calls]
        if len(pl_names) != 1 or len(id_names) != 1 or cenv.lookup('stack') is None:
            raise Unsupported(f'operand loop: expected one vector of ids and one of plugs, found {id_names} / {pl_names}')
        N_IDS, N_PLUGS = id_names[0], pl_names[0]
        names = (N_IDS, N_PLUGS, 'stack')
        cur = {x: interp.deref(cenv.get(x)) for x in names}
        cur = {'ids': cur[N_IDS], 'plugs': cur[N_PLUGS], 'stack': cur['stack']}
        real = {'ids': N_IDS, 'plugs': N_PLUGS, 'stack': 'stack'}
        r0, S0 = it.rest.t, cur['stack'].t
        ids0, pl0 = interp.as_idl(cur['ids']), (cur['plugs'].t if isinstance(cur['plugs'], SV) else MLs.mk('lnil'))
        ctx.oblige('loop-entry:ids and plugs start empty', z3.And(ids0 == IDL.mk('inil'), pl0 == MLs.mk('lnil')), kind='loop')
        ctx.assume(z3.And(ids0 == IDL.mk('inil'), pl0 == MLs.mk('lnil')))       # asserted just above: what follows may rely on it
        whole = sm.take_acc(nn, r0, S0, ids0, pl0)
        k = ctx.fresh('int', 'k').t
        fresh = {'ids': ctx.fresh('idl', 'ids'), 'plugs': ctx.fresh('mlist', 'plugs'), 'stack': ctx.fresh('stack', 'stack')}
        rest = ctx.fresh('idl', 'rest')

        def setv(name, v):
            c = cenv.get(name)
            if isinstance(c, Ref):
                c.set(v)
            else:
                cenv.set_existing(name, v)
        for x in ('ids', 'plugs', 'stack'):
            setv(real[x], fresh[x])
        it.rest = rest
        ctx.oblige('loop-entry:stack well-formed', tl_all_wf(S0), kind='loop')
        inv = z3.And(k >= 0, k <= nn, il_len(fresh['ids'].t) == k, ml_all_wf(fresh['plugs'].t), tl_all_wf(fresh['stack'].t),
                     whole == sm.take_acc(nn - k, rest.t, fresh['stack'].t, fresh['ids'].t, fresh['plugs'].t))
        which = ctx.choose(2, 'take.for_each: arbitrary iteration / exit')
        if which == 0:
            ctx.assume(inv)
            ctx.assume(k < nn)
            ctx.assume(z3.Not(IDL.is_('inil', rest.t)))     # take(n) yields another element
            ctx.check_feasible()
            nxt = interp.iter_next(it)
            interp.call_closure(clo, [nxt[1]])
            st = interp.deref(cenv.get('stack'))
            ctx.oblige('loop-step:invariant', z3.And(il_len(interp.as_idl(cenv.get(N_IDS))) == k + 1,
                                                      ml_all_wf(interp.deref(cenv.get(N_PLUGS)).t), tl_all_wf(st.t),
                                                      whole == sm.take_acc(nn - (k + 1), it.rest.t, st.t, interp.as_idl(cenv.get(N_IDS)),
                                                                           interp.deref(cenv.get(N_PLUGS)).t)), kind='loop')
            raise StepDone()
        ctx.assume(inv)
        ctx.assume(z3.Or(k == nn, IDL.is_('inil', rest.t), nn < 0))
        ctx.check_feasible()
        return ()


# ---- execute_instructions as a callee (used by `verify`) -----------------------------------------------------------------------------------
class ExecContract:
    """execute_instructions(buffer, &mut stack, &mut memory, &mut claims, phase): the final state is the spec machine's run
    of the whole buffer from the current state; panics iff that run rejects.  (Justified by the per-opcode step obligations +
    the run-invariant obligation of every arm: the loop invariant RUN(rest0, s0) == RUN(rest, s).)"""
    name = 'execute_instructions'

    def apply_rs(self, interp, ctx, args):
        buf = interp.deref(args[0])
        refs = args[1:4]
        phase = interp.deref(args[4])
        vals = []
        for r, ty in zip(refs, ('Stack', 'Memory', 'Claims')):
            v = interp.deref(r)
            if isinstance(v, UVec):
                v = interp.new_vec(ty)
            vals.append(v)
        run = sm.RUN[phase.variant](interp.as_idl(buf), vals[0].t, vals[1].t, vals[2].t)
        if not ctx.branch(SMS.is_('st', run), 'phase accepted'):
            raise SymRaise('panic', '', 'callee execute_instructions')
        refs[0].set(SV(SMS.get('st', 'stack', run), 'stack'))
        refs[1].set(SV(SMS.get('st', 'mem', run), 'mem'))
        refs[2].set(SV(SMS.get('st', 'claims', run), 'claims'))
        return ()


def sm_accepts(g, c, p):
    nilT, nilM = TLs.mk('tnil'), MLs.mk('lnil')
    r1 = sm.RUN['Gamma'](g, nilT, nilT, nilM)
    r2 = sm.RUN['Claim'](c, nilT, SMS.get('st', 'mem', r1), SMS.get('st', 'claims', r1))
    r3 = sm.RUN['Proof'](p, nilT, SMS.get('st', 'mem', r2), SMS.get('st', 'claims', r2))
    return z3.And(SMS.is_('st', r1), SMS.is_('st', r2), SMS.is_('st', r3), SMS.get('st', 'claims', r3) == nilM)


def verify_unit(prog, contracts):
    def unit(ctx):
        cs = dict(contracts)
        cs['execute_instructions'] = ExecContract()
        interp = RsInterp(prog, ctx, cs)
        g, c, p = ctx.input('idl', 'gamma'), ctx.input('idl', 'claims'), ctx.input('idl', 'proof')
        acc = sm_accepts(g.t, c.t, p.t)
        try:
            interp.run_fn(prog.fns['verify'], [g, c, p])
        except SymRaise as ex:
            ctx.oblige(f'nopanic[{ex.where}]:rejects only what the spec machine rejects', z3.Not(acc), kind='nopanic')
            raise
        ctx.oblige('post:accepts only what the spec machine accepts', acc, kind='post')
        return ()
    return unit


def exit_unit(prog, contracts, phase):
    """empty remaining input: the loop ends and nothing changes"""
    def unit(ctx):
        interp = RsInterp(prog, ctx, contracts, opts={'iter_objects': True})
        S, Mm, C = ctx.input('stack', 'stack'), ctx.input('mem', 'memory'), ctx.input('claims', 'claims')
        cells = {'stack': [S], 'memory': [Mm], 'claims': [C]}
        refs = {n: Ref((lambda c=c: c[0]), (lambda v, c=c: c.__setitem__(0, v))) for n, c in cells.items()}
        interp.run_fn(prog.fns['execute_instructions'], [SV(IDL.mk('inil'), 'idl'), refs['stack'], refs['memory'], refs['claims'],
                                                        EnumVal('ExecutionPhase', phase)])
        ctx.oblige('post:state unchanged', z3.And(cells['stack'][0].t == S.t, cells['memory'][0].t == Mm.t, cells['claims'][0].t == C.t), kind='post')
        return ()
    return unit
