"""Family contracts on generation/src/proof_generation/pattern.py (virtual methods of Pattern, verified once per
overriding class = one arm of the structural induction; callers only ever see these contracts)."""
import z3
from vc.sorts import *  # noqa
from vc.spec import *  # noqa
from vc.contract import Contract, zb, zi, zp, zm
from vc.engine import SV

PM = 'proof_generation.pattern'


def E(v):
    return expand(zp(v))


def _pwf_self(a):
    return [('wf(self)', pwf(zp(a['self'])))]


# ---- C06: evar_is_free ------------------------------------------------------------------------------------------------
# (S) soundness for every admissible instance; (T) the answer is a function JE of the notation-free expansion.
# JE is not a hand-written spec: it is reflected from the non-Instantiate arms of the real code (vc/reflect.py).
def evar_is_free_contract(JE=None):
    def ens(a, r):
        e = E(a['self'])
        n = zi(a['name'])
        out = [('sound', z3.Implies(z3.And(zb(r), adm(e)), z3.Not(fve(inst_g(e), n))))]
        if JE is not None:
            out.append(('notation-independent', zb(r) == JE(e, n)))
        return out
    return Contract('Pattern.evar_is_free', [('self', 'ppat'), ('name', 'int')], 'bool', requires=_pwf_self, ensures=ens)


# ---- C11: substitution / instantiation ------------------------------------------------------------------------------------
def apply_esubst_contract():
    return Contract('Pattern.apply_esubst', [('self', 'ppat'), ('evar_id', 'int'), ('plug', 'ppat')], 'ppat',
                    requires=lambda a: _pwf_self(a) + [('wf(plug)', pwf(zp(a['plug'])))],
                    ensures=lambda a, r: [('spec', E(r) == msubst_e_py(E(a['self']), zi(a['evar_id']), E(a['plug']))),
                                          ('wf', pwf(zp(r)))])


def apply_ssubst_contract():
    return Contract('Pattern.apply_ssubst', [('self', 'ppat'), ('svar_id', 'int'), ('plug', 'ppat')], 'ppat',
                    requires=lambda a: _pwf_self(a) + [('wf(plug)', pwf(zp(a['plug'])))],
                    ensures=lambda a, r: [('spec', E(r) == msubst_s_py(E(a['self']), zi(a['svar_id']), E(a['plug']))),
                                          ('wf', pwf(zp(r)))])


def instantiate_contract():
    return Contract('Pattern.instantiate', [('self', 'ppat'), ('delta', 'pmap')], 'ppat',
                    requires=lambda a: _pwf_self(a) + [('wf(delta)', pmwf(zm(a['delta'])))],
                    ensures=lambda a, r: [('spec', E(r) == minst_py(E(a['self']), expandmap(zm(a['delta'])))),
                                          ('wf', pwf(zp(r)))])


def simplify_contract():
    return Contract('Instantiate.simplify', [('self', 'ppat')], 'ppat',
                    requires=lambda a: _pwf_self(a) + [('is Instantiate', P.is_('Instantiate', zp(a['self'])))],
                    ensures=lambda a, r: [('same expansion', E(r) == E(a['self'])), ('wf', pwf(zp(r)))])


# ---- C12: equality ----------------------------------------------------------------------------------------------------------
def eq_contract():
    def ens(a, r):
        o = a['o']
        if not (isinstance(o, SV) and o.kind == 'ppat'):
            return [('non-pattern', zb(r) == False)]  # noqa: E712
        return [('iff equal expansions', zb(r) == (E(a['self']) == E(o)))]
    return Contract('Pattern.__eq__', [('self', 'ppat'), ('o', 'ppat')], 'bool',
                    requires=lambda a: [], ensures=ens)


def base_contracts(JE=None):
    cs = [evar_is_free_contract(JE), apply_esubst_contract(), apply_ssubst_contract(), instantiate_contract(),
          simplify_contract(), eq_contract()]
    return {c.name: c for c in cs}
