"""Family contracts on generation/src/proof_generation/pattern.py (virtual methods of Pattern, verified once per
overriding class = one arm of the structural induction; callers only ever see these contracts)."""
import z3
from vc.sorts import *  # noqa
from vc.spec import *  # noqa
from vc.contract import Contract, zb, zi, zp, zm
from vc.engine import SV

PM = 'proof_generation.pattern'


def E(v):
    return expand(zp(v))


def _pwf_self(a):
    return [('wf(self)', pwf(zp(a['self'])))]


# ---- C06: evar_is_free ------------------------------------------------------------------------------------------------
# (S) soundness for every admissible instance; (T) the answer is a function JE of the notation-free expansion.
# JE is not a hand-written spec: it is reflected from the non-Instantiate arms of the real code (vc/reflect.py).
def evar_is_free_contract(JE=None):
    def ens(a, r):
        e = E(a['self'])
        n = zi(a['name'])
        out = [('sound', z3.Implies(z3.And(zb(r), adm(e)), z3.Not(fve(inst_g(e), n))))]
        if JE is not None:
            out.append(('notation-independent', zb(r) == JE(e, n)))
        return out
    return Contract('Pattern.evar_is_free', [('self', 'ppat'), ('name', 'int')], 'bool', requires=_pwf_self, ensures=ens)


# ---- C11: substitution / instantiation ------------------------------------------------------------------------------------
def apply_esubst_contract():
    return Contract('Pattern.apply_esubst', [('self', 'ppat'), ('evar_id', 'int'), ('plug', 'ppat')], 'ppat',
                    requires=lambda a: _pwf_self(a) + [('wf(plug)', pwf(zp(a['plug'])))],
                    ensures=lambda a, r: [('spec', E(r) == msubst_e_py(E(a['self']), zi(a['evar_id']), E(a['plug']))),
                                          ('wf', pwf(zp(r)))])


def apply_ssubst_contract():
    return Contract('Pattern.apply_ssubst', [('self', 'ppat'), ('svar_id', 'int'), ('plug', 'ppat')], 'ppat',
                    requires=lambda a: _pwf_self(a) + [('wf(plug)', pwf(zp(a['plug'])))],
                    ensures=lambda a, r: [('spec', E(r) == msubst_s_py(E(a['self']), zi(a['svar_id']), E(a['plug']))),
                                          ('wf', pwf(zp(r)))])


def instantiate_contract():
    return Contract('Pattern.instantiate', [('self', 'ppat'), ('delta', 'pmap')], 'ppat',
                    requires=lambda a: _pwf_self(a) + [('wf(delta)', pmwf(zm(a['delta'])))],
                    ensures=lambda a, r: [('spec', E(r) == minst_py(E(a['self']), expandmap(zm(a['delta'])))),
                                          ('wf', pwf(zp(r)))])


def simplify_contract():
    return Contract('Instantiate.simplify', [('self', 'ppat')], 'ppat',
                    requires=lambda a: _pwf_self(a) + [('is Instantiate', P.is_('Instantiate', zp(a['self'])))],
                    ensures=lambda a, r: [('same expansion', E(r) == E(a['self'])), ('wf', pwf(zp(r)))])


# ---- C12: equality ----------------------------------------------------------------------------------------------------------
def eq_contract():
    def ens(a, r):
        o = a['o']
        if not (isinstance(o, SV) and o.kind == 'ppat'):
            return [('non-pattern', zb(r) == False)]  # noqa: E712
        return [('iff equal expansions', zb(r) == (E(a['self']) == E(o)))]
    return Contract('Pattern.__eq__', [('self', 'ppat'), ('o', 'ppat')], 'bool',
                    requires=lambda a: [], ensures=ens)


def base_contracts(JE=None):
    cs = [evar_is_free_contract(JE), apply_esubst_contract(), apply_ssubst_contract(), instantiate_contract(),
          simplify_contract(), eq_contract()]
    return {c.name: c for c in cs}


# ---- C12: metavars, destructuring ---------------------------------------------------------------------------------------------
def metavars_contract():
    return Contract('Pattern.metavars', [('self', 'ppat')], 'intset', requires=_pwf_self,
                    ensures=lambda a, r: [('= metavariables of the expansion', _zset(r) == mvset(E(a['self'])))])


def _zset(v):
    from vc.contract import ShapeMismatch
    if isinstance(v, SV) and v.kind == 'intset':
        return v.t
    if isinstance(v, (set, frozenset)) and not v:
        return z3.EmptySet(Int)
    raise ShapeMismatch(f'expected set[int], got {v!r}')


_UNWRAP_FIELDS = {'Implies': ['left', 'right'], 'App': ['left', 'right'], 'Exists': ['subpattern'], 'Mu': ['subpattern'],
                  'ESubst': ['pattern', 'plug', 'var'], 'SSubst': ['pattern', 'plug', 'var'],
                  'EVar': [], 'SVar': [], 'Symbol': [], 'MetaVar': []}


def _cls_name(c):
    return c.name if hasattr(c, 'name') else str(c)


def unwrap_contract(name='Pattern.unwrap', total=False):
    """cls.unwrap(pattern): the children (in sorted field-name order) of the EXPANSION's top node if it is a `cls`
    node, else None.  extract: same, but raises instead of returning None."""
    def fields(a):
        cn = _cls_name(a['cls'])
        return cn, [f for f in _UNWRAP_FIELDS[cn] if FKIND[f] == 'pat']

    def result(a):
        cn, fs = fields(a)
        tup = ('tuple',) + tuple('ppat' for _ in fs)
        if total:
            return tup
        return ('opt', tup, lambda a: M.is_(cn, E(a['pattern'])))

    def ens(a, r):
        cn, fs = fields(a)
        e = E(a['pattern'])
        if r is None:
            if total:
                return [('never None', z3.BoolVal(False))]
            return [('None only if the expansion is not a %s' % cn, z3.Not(M.is_(cn, e)))]
        if not isinstance(r, tuple) or len(r) != len(fs):
            return [('arity of result', z3.BoolVal(False))]
        out = [('expansion is a %s' % cn, M.is_(cn, e))]
        for f, x in zip(fs, r):
            out.append((f'child {f}', E(x) == M.get(cn, f, e)))
            out.append((f'wf child {f}', pwf(zp(x))))
        return out
    return Contract(name, [('cls', ('const', None)), ('pattern', 'ppat')], result,
                    requires=lambda a: [('wf(pattern)', pwf(zp(a['pattern'])))], ensures=ens,
                    may_raise=total, noraise_if=(lambda a: M.is_(_cls_name(a['cls']), E(a['pattern']))) if total else None)


def deconstruct_contract(cn):
    """EVar/SVar/Symbol.deconstruct -> name | None ; Exists/Mu.deconstruct -> (var, subpattern) | None, seen through notation."""
    binder = cn in ('Exists', 'Mu')

    def result(a):
        inner = ('tuple', 'int', 'ppat') if binder else ('name' if cn == 'Symbol' else 'int')
        return ('opt', inner, lambda a: M.is_(cn, E(a['pat'])))

    def ens(a, r):
        e = E(a['pat'])
        if r is None:
            return [('None only if the expansion is not a %s' % cn, z3.Not(M.is_(cn, e)))]
        out = [('expansion is a %s' % cn, M.is_(cn, e))]
        if binder:
            if not isinstance(r, tuple) or len(r) != 2:
                return [('arity of result', z3.BoolVal(False))]
            out += [('var', zi(r[0]) == M.get(cn, 'var', e)), ('subpattern', E(r[1]) == M.get(cn, 'subpattern', e)),
                    ('wf subpattern', pwf(zp(r[1])))]
        else:
            out.append(('name', zi(r) == M.get(cn, 'name', e)))
        return out
    return Contract(f'{cn}.deconstruct', [('pat', 'ppat')], result,
                    requires=lambda a: [('wf(pat)', pwf(zp(a['pat'])))], ensures=ens)


def c12_contracts(JE=None):
    cs = base_contracts(JE)
    for c in [metavars_contract(), unwrap_contract('Pattern.unwrap'), unwrap_contract('Pattern.extract', total=True)] + \
            [deconstruct_contract(cn) for cn in ('EVar', 'SVar', 'Symbol', 'Exists', 'Mu')]:
        cs[c.name] = c
    return cs
