"""C15 contracts: convert_to_number (loop contract against the Appendix-B codec) and the token loop of _import_proof."""
import ast
import z3
from vc.sorts import *  # noqa
from vc.spec import il_len, il_snoc, _rec, _def
from vc import mmnum
from vc.mmnum import hd, tl, nil, is_lsd, is_msd, msds, val_rev, rev_acc, il_app, number, A, U
from vc.engine import SV, SymRaise, Unsupported
from vc.pyfe import Interp, Env, Closure, LoopContract, Obj, _LazyEnum
from vc.lemmas import Lemma

CONV = 'proof_generation.metamath.converter.converter'
CFILE = 'generation/src/proof_generation/metamath/converter/converter.py'
IMPORT_PROOF = 'MetamathConverter._import_proof'


def nested_env(repo, interp):
    """Mechanical extraction of the closures defined inside _import_proof: the prefix of the enclosing function's body that
    consists of constant assignments (the two digit tables) and nested function definitions is executed; nothing else."""
    f = repo.func(CONV, IMPORT_PROOF)
    env = Env()
    for st in f.node.body:
        const_assign = isinstance(st, ast.Assign) and isinstance(st.value, (ast.Dict, ast.Constant)) and \
            all(isinstance(x, ast.Constant) for x in ast.walk(st.value) if isinstance(x, ast.expr) and not isinstance(x, ast.Dict))
        if const_assign or isinstance(st, ast.FunctionDef) or (isinstance(st, ast.Expr) and isinstance(st.value, ast.Constant)):
            interp.exec(st, env, f.module, f)
        else:
            break
    return env, f


# ---- spec helpers on snoc-built strings -------------------------------------------------------------------------------------------
s_ = z3.Const('s_', IdL)
d_ = z3.Int('d_')
il_last = _rec('il_last', IdL, z3.IntSort())
_def(il_last, [s_], z3.If(IDL.is_('inil', s_), z3.IntVal(-1), z3.If(IDL.is_('inil', tl(s_)), hd(s_), il_last(tl(s_)))))
il_init = _rec('il_init', IdL, IdL)
_def(il_init, [s_], z3.If(IDL.is_('inil', s_), nil, z3.If(IDL.is_('inil', tl(s_)), nil, IDL.mk('icons', hd(s_), il_init(tl(s_))))))
LEMS = dict(mmnum.LIB)
for nm, stmt, trig in (('il_last_snoc', il_last(il_snoc(s_, d_)) == d_, il_last(il_snoc(s_, d_))),
                       ('il_init_snoc', il_init(il_snoc(s_, d_)) == s_, il_init(il_snoc(s_, d_))),
                       ('il_snoc_nonempty', z3.Not(IDL.is_('inil', il_snoc(s_, d_))), il_snoc(s_, d_))):
    LEMS[nm] = Lemma(nm, [s_, d_], stmt, ind=s_, triggers=[trig], rewrite=(nm != 'il_snoc_nonempty'), split_depth=1)
l_ = z3.Const('l', IdL)
t_ = z3.Const('t_', IdL)
# reverse of a non-empty word: its head is the last letter, its tail the reversal of the rest
LEMS['rev_last'] = Lemma('rev_last', [l_, t_], z3.Implies(z3.Not(IDL.is_('inil', l_)),
                                                          rev_acc(l_, t_) == IDL.mk('icons', il_last(l_), rev_acc(il_init(l_), t_))),
                         ind=l_, triggers=[rev_acc(l_, t_)], split_depth=1,
                         ih_extra=lambda f, val, vars: [[(vars[1], IDL.mk('icons', val.arg(0), vars[1]))]])
LEMS['mm_rev_horner0'] = Lemma('mm_rev_horner0', [l_], val_rev(rev_acc(l_, nil)) == mmnum.hval(z3.IntVal(0), l_), nonind=True,
                               triggers=[rev_acc(l_, nil)], hints=[('mm_rev_horner', [l_, nil, z3.IntVal(0)])])
LEMS['rev_nil'] = Lemma('rev_nil', [l_, t_], IDL.is_('inil', rev_acc(l_, t_)) == z3.And(IDL.is_('inil', l_), IDL.is_('inil', t_)), ind=l_,
                        triggers=[rev_acc(l_, t_)], ih_extra=lambda f, val, vars: [[(vars[1], IDL.mk('icons', val.arg(0), vars[1]))]])
LEMS['msds_snoc'] = Lemma('msds_snoc', [s_, d_], msds(il_snoc(s_, d_)) == z3.And(msds(s_), is_msd(d_)), ind=s_, triggers=[msds(il_snoc(s_, d_))], rewrite=True)
LEMS['msds_app'] = Lemma('msds_app', [l_, t_], msds(il_app(l_, t_)) == z3.And(msds(l_), msds(t_)), ind=l_, triggers=[msds(il_app(l_, t_))])
LEMS['msds_rev'] = Lemma('msds_rev', [l_, t_], msds(rev_acc(l_, t_)) == z3.And(msds(l_), msds(t_)), ind=l_, triggers=[msds(rev_acc(l_, t_)), rev_acc(l_, t_)],
                         ih_extra=lambda f, val, vars: [[(vars[1], IDL.mk('icons', val.arg(0), vars[1]))]])


class ConvLoop(LoopContract):
    """for letter in encoding:  n += msdigit[letter] * pow(5, exp) * 20; exp += 1
    invariant: prefix ++ rest == encoding0,  exp == len(prefix),  msds(prefix),  n == n0 + 20 * val_rev(prefix)"""

    def entry(self, interp, ctx, env, it):
        # the position counter is either the local `exp` (incremented by the body) or the index of enumerate(encoding)
        self.enum = isinstance(it, _LazyEnum)
        seq = it.seq if self.enum else it
        if not (isinstance(seq, SV) and seq.kind == 'str'):
            raise Unsupported('conversion loop: iterable is neither the encoding string nor enumerate(encoding)')
        self.enc0 = seq.t
        self.n0 = interp.as_int(env.get('n'))
        if not self.enum:
            ctx.oblige('loop-entry:exp starts at 0', interp.as_int(env.get('exp')) == 0, kind='loop')

    def _inv(self, prefix, rest, n, exp):
        return z3.And(il_app(prefix, rest) == self.enc0, exp == il_len(prefix), msds(prefix), n == self.n0 + 20 * val_rev(prefix))

    def _havoc(self, ctx, env, prefix, rest):
        n = ctx.fresh('int', 'n')
        env.set('n', n)
        if self.enum:
            exp = il_len(prefix)
        else:
            e = ctx.fresh('int', 'exp')
            env.set('exp', e)
            exp = e.t
        ctx.assume(self._inv(prefix, rest, n.t, exp))

    def arbitrary_iteration(self, interp, ctx, env, it):
        self.prefix = ctx.fresh('str', 'prefix').t
        rest = ctx.fresh('str', 'rest').t
        self._havoc(ctx, env, self.prefix, rest)
        ctx.assume(z3.Not(IDL.is_('inil', rest)))
        self.c = hd(rest)
        self.rest2 = tl(rest)
        if self.enum:
            return (SV(il_len(self.prefix), 'int'), SV(self.c, 'char'))
        return SV(self.c, 'char')

    def after_iteration(self, interp, ctx, env, it, elem):
        p2 = il_snoc(self.prefix, self.c)
        exp = il_len(p2) if self.enum else interp.as_int(env.get('exp'))
        ctx.oblige('loop-step:invariant', self._inv(p2, self.rest2, interp.as_int(env.get('n')), exp), kind='loop')

    def exit(self, interp, ctx, env, it):
        prefix = ctx.fresh('str', 'prefix').t
        self._havoc(ctx, env, prefix, nil)


def convert_unit(repo):
    """convert_to_number(word): returns normally only for word = u_1..u_k l (u_i in U..Y, l in A..T), with the Appendix-B value."""
    def unit(ctx):
        loop = ConvLoop()
        interp = Interp(repo, ctx, {}, opts={'loops': {(IMPORT_PROOF + '.<locals>.convert_to_number', 0): loop}})
        env, f = nested_env(repo, interp)
        clo = env.get('convert_to_number')
        word = ctx.input('str', 'word')
        ctx.cover('requires')
        res = interp.run_function(clo, [word])
        w = word.t
        ctx.oblige('post:word is non-empty', z3.Not(IDL.is_('inil', w)), kind='post')
        ctx.oblige('post:last letter is A..T', is_lsd(il_last(w)), kind='post')
        ctx.oblige('post:other letters are U..Y', msds(il_init(w)), kind='post')
        ctx.oblige('post:value is the Appendix-B number', interp.as_int(res) == number(il_init(w), il_last(w)), kind='post')
        return res
    return unit


# ---- the token loop ----------------------------------------------------------------------------------------------------------------------
buf_ = z3.Const('buf_', IdL)
out_ = z3.Const('out_', IdL)
cs_ = z3.Const('cs_', IdL)
# dec_acc(chars, buf, out): Appendix B: letters accumulate; A..T closes a number; Z marks the previous step (recorded as 0)
dec_acc = _rec('mm_dec_acc', IdL, IdL, IdL, IdL)
_c = hd(cs_)
_def(dec_acc, [cs_, buf_, out_], z3.If(IDL.is_('inil', cs_), out_,
                                     z3.If(_c == ord('Z'), dec_acc(tl(cs_), buf_, il_snoc(out_, z3.IntVal(0))),
                                           z3.If(is_lsd(_c), dec_acc(tl(cs_), nil, il_snoc(out_, number(buf_, _c))),
                                                 dec_acc(tl(cs_), il_snoc(buf_, _c), out_)))))


class ConvContract:
    """caller side of convert_to_number"""
    name = 'convert_to_number'

    def apply(self, interp, ctx, args, kwargs=None):
        w = interp.as_str_term(args[0])
        ok = z3.And(z3.Not(IDL.is_('inil', w)), is_lsd(il_last(w)), msds(il_init(w)))
        if not ctx.branch(ok, 'convert_to_number: well-formed word'):
            raise SymRaise('KeyError', '', 'callee convert_to_number')
        return SV(number(il_init(w), il_last(w)), 'int')


class TokenLoop(LoopContract):
    """for letter in applied_lemmas: invariant  dec_acc(all, '', []) == dec_acc(rest, buffer, out)  (and buffer is U..Y only when a number closes)"""

    def __init__(self, result_name='result'):
        self.rn = result_name

    def entry(self, interp, ctx, env, it):
        self.all = it.t
        res = env.get(self.rn)
        out0 = res.attrs['applied_lemmas']
        ctx.oblige('loop-entry:no steps yet, empty buffer',
                   z3.And(interp.as_str_term(env.get('buffer')) == nil, (out0.t if isinstance(out0, SV) else nil) == nil), kind='loop')
        self.whole = dec_acc(self.all, nil, nil)

    def arbitrary_iteration(self, interp, ctx, env, it):
        rest = ctx.fresh('str', 'rest').t
        buf = ctx.fresh('str', 'buffer')
        out = ctx.fresh('intlist', 'out')
        env.set('buffer', buf)
        env.get(self.rn).attrs['applied_lemmas'] = out
        ctx.assume(self.whole == dec_acc(rest, buf.t, out.t))
        ctx.assume(z3.Not(IDL.is_('inil', rest)))
        self.c, self.rest2 = hd(rest), tl(rest)
        return SV(self.c, 'char')

    def after_iteration(self, interp, ctx, env, it, elem):
        out = env.get(self.rn).attrs['applied_lemmas']
        ctx.oblige('loop-step:invariant', self.whole == dec_acc(self.rest2, interp.as_str_term(env.get('buffer')), out.t), kind='loop')

    def exit(self, interp, ctx, env, it):
        buf = ctx.fresh('str', 'buffer')
        out = ctx.fresh('intlist', 'out')
        env.set('buffer', buf)
        env.get(self.rn).attrs['applied_lemmas'] = out
        ctx.assume(self.whole == dec_acc(nil, buf.t, out.t))


def import_proof_unit(repo):
    def unit(ctx):
        loop = TokenLoop()
        labels = {'opaque': 'labels'}
        applied = ctx.input('str', 'applied_lemmas')

        class SplitC:
            name = 'split_proof'

            def apply(self, interp, ctx, args, kwargs=None):
                return (labels, applied)
        q = IMPORT_PROOF + '.<locals>.'
        interp = Interp(repo, ctx, {q + 'split_proof': SplitC(), q + 'convert_to_number': ConvContract()},
                        opts={'loops': {(IMPORT_PROOF, 0): loop}})
        f = repo.func(CONV, IMPORT_PROOF)
        cls = repo.cls(CONV, 'MetamathConverter')
        selfo = Obj(cls, {})
        stmt = Obj(repo.cls('proof_generation.metamath.ast', 'ProvableStatement'), {'proof': 'PROOF'})
        # Proof(labels, []) : the step list starts empty and is modelled as a symbolic list from the first append on
        res = interp.run_function(f, [selfo, stmt])
        ctx.cover('import_proof returned')
        out = res.attrs['applied_lemmas']
        ctx.oblige('post:steps are the Appendix-B tokenisation', (out.t if isinstance(out, SV) else nil) == dec_acc(applied.t, nil, nil), kind='post')
        ctx.oblige('post:labels come from split_proof', z3.BoolVal(res.attrs['labels'] is labels), kind='post')
        return res
    return unit
