"""C06 (rust side): the four judgements of `impl Pattern` are reflected from the real source into logical functions
RS_e_fresh / RS_s_fresh / RS_positive / RS_negative; their soundness for every admissible instance is proved by
structural induction over the reflected definitions (one VC per constructor = per match arm of the real code)."""
import z3
from vc.sorts import *  # noqa
from vc.spec import *  # noqa
from vc.lemmas import Lemma

phi = z3.Const('phi', MPat)
X = z3.Int('X')


def _ih_other_vars(f, val, vars):
    """extra induction hypotheses: the statement for sub-pattern f at the variable stored in the node (SSubst/ESubst/Mu/Exists var)."""
    out = []
    if z3.is_app(val):
        for c in val.children():
            if c.sort() == Int:
                out.append([(vars[1], c)])
    return out


def judgement_lemmas(fns):
    ef, sf, po, ne = fns['e_fresh'], fns['s_fresh'], fns['positive'], fns['negative']
    L1 = Lemma('rs_e_fresh_sound', [phi, X], z3.Implies(z3.And(ef(phi, X), adm(phi)), z3.Not(fve(inst_g(phi), X))), ind=phi,
               triggers=[ef(phi, X)], uses=['fve_subst_e', 'fve_subst_s', 'all_efresh_mem'])
    L2 = Lemma('rs_s_fresh_sound', [phi, X], z3.Implies(z3.And(sf(phi, X), adm(phi)), z3.Not(fvs(inst_g(phi), X))), ind=phi,
               triggers=[sf(phi, X)], uses=['fvs_subst_e', 'fvs_subst_s', 'all_sfresh_mem'])
    uses = ['pos_subst_e', 'neg_subst_e', 'pos_subst_s', 'neg_subst_s', 'all_pos_mem', 'all_neg_mem', 'rs_s_fresh_sound',
            'notfree_pos', 'notfree_neg']
    L3 = Lemma('rs_positive_sound', [phi, X], z3.Implies(z3.And(po(phi, X), adm(phi)), pos(inst_g(phi), X)), ind=phi,
               triggers=[po(phi, X)], uses=uses, ih_extra=_ih_other_vars)
    L4 = Lemma('rs_negative_sound', [phi, X], z3.Implies(z3.And(ne(phi, X), adm(phi)), neg(inst_g(phi), X)), ind=phi,
               triggers=[ne(phi, X)], uses=uses, ih_extra=_ih_other_vars)
    L3.companions = [L4]
    return [L1, L2, L3, L4]


# ---- replay of a refuted soundness arm on the real checker ---------------------------------------------------------------------
def _rename_ids(d, table):
    if isinstance(d, bool):
        return d
    if isinstance(d, int):
        if d not in table:
            table[d] = len(table)
        return table[d]
    if isinstance(d, tuple):
        return (d[0],) + tuple(_rename_ids(x, table) for x in d[1:])
    return d


def judgement_replayer(name, model, root):
    """model: {'phi': data, 'X': int, '$sigma:i': data}.  Runs the real Rust judgement in the harness and evaluates the
    ground semantics of the instance with the model's sigma."""
    from vc.rsreal import RustReal, data_to_tokens
    from vc import replay as rp
    which = name.split('/')[0].split(':')[1]   # rs_e_fresh_sound ...
    cmd = {'rs_e_fresh_sound': 'efresh', 'rs_s_fresh_sound': 'sfresh', 'rs_positive_sound': 'positive',
           'rs_negative_sound': 'negative'}[which]
    table = {}
    phi_d = _rename_ids(model['phi'], table)
    x = _rename_ids(model['X'], table)
    sigma = {}
    for k, v in model.items():
        if k.startswith('$sigma:'):
            i = int(k[7:])
            if i in table:
                sigma[table[i]] = _rename_ids(v, table)
    if len(table) > 250:
        return False, {'note': 'too many distinct ids for u8'}
    rr = RustReal(root)
    try:
        out = rr.run([f'{cmd} {data_to_tokens(phi_d)} {x}'])[0]
    finally:
        rr.close()
    rec = {'command': f'{cmd} {data_to_tokens(phi_d)} {x}', 'real': out, 'phi': repr(phi_d), 'X': x,
           'sigma': {str(k): repr(v) for k, v in sigma.items()}}
    if out[0] != 'OK' or out[1] != 'true':
        rec['note'] = 'the real judgement does not hold on the model input'
        return False, rec
    pt = rp.data_to_term(phi_d, 'mpat')
    it = rp.Interp0(sigma)
    admv = rp.ceval_with(adm(pt), it)
    sem = {'efresh': z3.Not(fve(inst_g(pt), x)), 'sfresh': z3.Not(fvs(inst_g(pt), x)), 'positive': pos(inst_g(pt), x),
           'negative': neg(inst_g(pt), x)}[cmd]
    semv = rp.ceval_with(sem, it)
    rec['admissible'] = str(admv)
    rec['semantic_property_of_instance'] = str(semv)
    rec['instance'] = str(rp.ceval_with(inst_g(pt), it))
    if z3.is_true(admv) and z3.is_false(semv):
        rec['failed_clause'] = f'{cmd} judged true, instance violates it'
        return True, rec
    w, n = judgement_bounded(name, root)
    if w is not None:
        w['note'] = 'solver model was spurious (stuck spec terms); witness found by bounded search on the real checker'
        w['bounded_evaluated'] = n
        return True, w
    rec['bounded_evaluated'] = n
    return False, rec


def _strip_p(d):
    if isinstance(d, tuple):
        h = d[0]
        if isinstance(h, str) and h.startswith('P') and h[1:] in CTORS:
            h = h[1:]
        return (h,) + tuple(_strip_p(x) for x in d[1:])
    return d


def judgement_bounded(name, root, seed=0, depth=3, budget=3000, time_limit=90):
    """Bounded stand-in / witness search: the real judgement on small patterns against the ground semantics of instances."""
    import random
    from vc.rsreal import RustReal, data_to_tokens
    from vc import replay as rp
    which = name.split('/')[0].split(':')[1]
    cmd = {'rs_e_fresh_sound': 'efresh', 'rs_s_fresh_sound': 'sfresh', 'rs_positive_sound': 'positive',
           'rs_negative_sound': 'negative'}[which]
    rng = random.Random(seed)
    pats = [_strip_p(p) for p in rp.small_patterns(depth, with_notation=False, rng=rng, cap=80)]
    cases = [(p, x) for p in pats for x in (0, 1)]
    if len(cases) > budget:
        cases = rng.sample(cases, budget)
    rr = RustReal(root)
    try:
        outs = rr.run([f'{cmd} {data_to_tokens(p)} {x}' for p, x in cases])
    finally:
        rr.close()
    grounds = rp.ground_patterns()
    n = 0
    import time as _t
    t0 = _t.time()
    for (p, x), out in zip(cases, outs):
        if out != ('OK', 'true'):
            continue
        if _t.time() - t0 > time_limit:
            break
        pt = rp.data_to_term(p, 'mpat')
        for s0 in grounds:
            for s1 in grounds[:3]:
                n += 1
                it = rp.Interp0({0: s0, 1: s1})
                if not z3.is_true(rp.ceval_with(adm(pt), it)):
                    continue
                sem = {'efresh': z3.Not(fve(inst_g(pt), x)), 'sfresh': z3.Not(fvs(inst_g(pt), x)), 'positive': pos(inst_g(pt), x),
                       'negative': neg(inst_g(pt), x)}[cmd]
                if z3.is_false(rp.ceval_with(sem, it)):
                    return {'command': f'{cmd} {data_to_tokens(p)} {x}', 'real': list(out), 'phi': repr(p), 'X': x,
                            'sigma': {'0': repr(s0), '1': repr(s1)}, 'instance': str(rp.ceval_with(inst_g(pt), it)),
                            'failed_clause': f'{cmd} judged true, but the admissible instance violates it'}, n
    return None, n
