"""C03 - what a serialised module publishes is exactly what it declares.

 (A) ProofExp.execute_gamma_phase / execute_claims_phase (real loops, loop contracts; recursion into submodules by induction on the import
     graph: a submodule's call is used through this very contract): the journal of publish_axiom / publish_claim calls is
         gamma :  J0 ++ AX(sub_1) ++ ... ++ AX(sub_k) ++ own axioms (in order)         where AX(m) is what module m publishes
         claims:  J0 ++ reversed(claims)
     and every published argument is `interpreter.pattern(declared)`.
 (B) Interpreter.pattern(p) (one unit per constructor, recursive calls by induction hypothesis), on the serialising interpreter and on the
     memoising wrapper around it: returns a pattern equal to p (same constructor), leaves exactly that pattern on top of the tracker stack.
     Together with C04 (publish_* emit Publish, the machine publishes the top of its stack; every call simulates the machine) the
     published machine terms are the declared patterns - with or without the memoising wrapper (optimisation-independence).
 (C) symbol table (abstract: ANY table injective onto range(n)): known names keep their number, a new name gets n, the table stays
     injective onto range(n'), the emitted operand is the table's number itself and the call is REFUSED (ValueError) unless it is <= 255;
     phase switches keep the table (one numbering for the three files).
 (D) every accepted call of every serialiser method writes only bytes in 0..255 (ids above 255 are refused, not truncated)."""
import z3
from vc.sorts import *  # noqa
from vc.spec import *  # noqa
from vc.speclemmas import LIB as _LIB0, STREAM, PUBL, MAPL, AX, flat_ax, pushall
from vc import sm
from vc.engine import SV, SymRaise, Unsupported, PathEnd
from vc.pyfe import Interp, Obj, OutLog, LoopContract, SymDict, PATTERN_MODULE, _MapView
from contracts.interp_sim import METHODS, PHASE_NO, PHASES_OF, SI, _proved

LIB = dict(_LIB0)
LIB.update(STREAM)
LIB.update(PUBL)
LIB.update({k: v for k, v in MAPL.items() if v is not None})
PFILE = 'generation/src/proof_generation/proof.py'
PMOD = 'proof_generation.proof'
IFILE = 'generation/src/proof_generation/interpreter.py'
OFILE = 'generation/src/proof_generation/optimizing_interpreters.py'
TNIL = TLs.mk('tnil')


def pat_term(p):
    return TRM.mk('Pat', expand(p))


class Journal:
    def __init__(self, t):
        self.t = t


# ---- (A) phases ---------------------------------------------------------------------------------------------------------------------------
class PatternCall:
    """interpreter.pattern(p), caller side (verified in (B)): a pattern equal to p comes back"""
    def apply(self, interp, ctx, args, kwargs):
        p = args[1]
        if not interp.is_pat(p):
            raise Unsupported(f'pattern() of {p!r}')
        r = ctx.fresh('ppat', 'built')
        ctx.assume(z3.And(expand(r.t) == expand(p.t), pwf(r.t)))
        return r


class PublishCall:
    def __init__(self, journal, phase_needed):
        self.j = journal
        self.phase_needed = phase_needed

    def apply(self, interp, ctx, args, kwargs):
        selfo, p = args[0], args[1]
        ctx.oblige(f'callpre:publish in phase {self.phase_needed}', z3.BoolVal(selfo.attrs['phase'] == PHASE_NO[self.phase_needed]), kind='callpre')
        self.j.t = tl_snoc(self.j.t, pat_term(p.t))
        return None


class PhaseSwitch:
    def __init__(self, frm):
        self.frm = frm

    def apply(self, interp, ctx, args, kwargs):
        selfo = args[0]
        ctx.oblige('callpre:phase switch from the right phase', z3.BoolVal(selfo.attrs['phase'] == self.frm), kind='callpre')
        selfo.attrs['phase'] = self.frm + 1
        return None


class SubmoduleGamma:
    """induction hypothesis for an imported module: it appends AX(its id) to the journal, and does not leave the gamma phase when asked not to"""
    def __init__(self, journal):
        self.j = journal

    def apply(self, interp, ctx, args, kwargs):
        sub, it = args[0], args[1]
        move = args[2] if len(args) > 2 else kwargs.get('move_into_claim', True)
        ctx.oblige('callpre:submodule is asked not to leave the gamma phase', z3.BoolVal(move is False), kind='callpre')
        ctx.oblige('callpre:gamma phase', z3.BoolVal(it.attrs['phase'] == 0), kind='callpre')
        self.j.t = tl_cat(self.j.t, AX(sub.attrs['id'].t))
        return None


class SubLoop(LoopContract):
    def __init__(self, j, subs, cls):
        self.j, self.subs, self.cls = j, subs, cls

    def entry(self, interp, ctx, env, it):
        if not (isinstance(it, SV) and it.kind == 'idl' and it.t.eq(self.subs)):
            raise Unsupported('the loop does not run over self._submodules: the loop contract does not apply')
        self.J1 = self.j.t

    def arbitrary_iteration(self, interp, ctx, env, it):
        i = ctx.fresh('int', 'i').t
        ctx.assume(z3.And(i >= 0, i < il_len(self.subs)))
        self.i = i
        self.j.t = tl_cat(self.J1, flat_ax(il_take(i, self.subs)))
        return Obj(self.cls, {'id': SV(il_nth(self.subs, i), 'int')})

    def after_iteration(self, interp, ctx, env, it, elem):
        tk = il_take(self.i, self.subs)
        for ln, args in (('il_take_step_nth', [self.i, self.subs]), ('flat_ax_snoc', [tk, il_nth(self.subs, self.i)]),
                         ('tl_cat_assoc', [self.J1, flat_ax(tk), AX(il_nth(self.subs, self.i))])):
            ctx.lemma_fact(ln, LIB[ln].inst(*args))
        ctx.oblige('loop-inv:journal = entry journal ++ AX of the submodules visited so far', self.j.t == tl_cat(self.J1, flat_ax(il_take(self.i + 1, self.subs))), kind='inv')

    def exit(self, interp, ctx, env, it):
        n = il_len(self.subs)
        ctx.lemma_fact('il_take_all', LIB['il_take_all'].inst(n, self.subs))
        self.j.t = tl_cat(self.J1, flat_ax(il_take(n, self.subs)))


class ListLoop(LoopContract):
    """for x in <list of declared patterns> (front to back), or for x in reversed(<list>): journal = entry journal ++ the prefix visited"""
    def __init__(self, j, lst, rev):
        self.j, self.lst, self.rev = j, lst, rev
        self.view = ex_stack(lst) if rev else ex_mem(lst)

    def entry(self, interp, ctx, env, it):
        if not (isinstance(it, SV) and it.kind == ('plist_rev' if self.rev else 'plist') and it.t.eq(self.lst)):
            raise Unsupported('the loop does not run over the declared list in the declared direction: the loop contract does not apply')
        self.J1 = self.j.t

    def arbitrary_iteration(self, interp, ctx, env, it):
        i = ctx.fresh('int', 'i').t
        ctx.assume(z3.And(i >= 0, i < ptl_len(self.lst)))
        self.i = i
        self.j.t = tl_cat(self.J1, tl_taken(self.view, i))
        e = (ptl_nth_back if self.rev else ptl_nth_front)(self.lst, i)
        ctx.assume(PTR.is_('PyPat', e))          # declared axioms / claims are Patterns (type annotation list[Pattern])
        for ln, args in ((('ex_stack_nth', [self.lst, i]), ('ex_stack_len', [self.lst])) if self.rev else (('ex_mem_nth', [self.lst, i]), ('ex_mem_len', [self.lst]))):
            ctx.lemma_fact(ln, LIB[ln].inst(*args))
        ctx.lemma_fact('tl_taken_step', LIB['tl_taken_step'].inst(self.view, i))
        return SV(PTR.get('PyPat', 'pypat', e), 'ppat')

    def after_iteration(self, interp, ctx, env, it, elem):
        ctx.lemma_fact('tl_cat_snoc', LIB['tl_cat_snoc'].inst(self.J1, tl_taken(self.view, self.i), tl_nth(self.view, self.i)))
        ctx.oblige('loop-inv:journal = entry journal ++ the declared items visited so far', self.j.t == tl_cat(self.J1, tl_taken(self.view, self.i + 1)), kind='inv')

    def exit(self, interp, ctx, env, it):
        n = ptl_len(self.lst)
        ln = 'ex_stack_len' if self.rev else 'ex_mem_len'
        ctx.lemma_fact(ln, LIB[ln].inst(self.lst))
        ctx.lemma_fact('tl_taken_all', LIB['tl_taken_all'].inst(self.view, n))
        self.j.t = tl_cat(self.J1, tl_taken(self.view, n))


def _interp_obj(repo, phase):
    cls = repo.cls(SI, 'SerializingInterpreter')
    return Obj(cls, {'phase': phase, '_interpreting_warnings': set(), 'stack': SV(PTLs.mk('ptnil'), 'plist'), 'memory': SV(PTLs.mk('ptnil'), 'plist'),
                     'claims': SV(PCLs.mk('pcnil'), 'pclaims'), 'out': OutLog(), 'claim_out': OutLog('claim'), 'proof_out': OutLog('proof'),
                     '_symbol_identifiers': {}})


def _qual(cls, name):
    return cls.find_method(name).qualname


def phase_unit(repo, cs, which, move):
    def unit(ctx):
        pcls = repo.cls(PMOD, 'ProofExp')
        J0 = ctx.input('tlist', 'journal0')
        j = Journal(J0.t)
        A, C, SUBS = ctx.input('plist', 'axioms'), ctx.input('plist', 'claims'), ctx.input('idl', 'submodules')
        me = Obj(pcls, {'_axioms': A, '_claims': C, '_submodules': SV(SUBS.t, 'idl', 'module'), '_proof_expressions': [], '_notations': [], 'id': ctx.input('int', 'self_id')})
        io = _interp_obj(repo, 0 if which == 'gamma' else 1)
        icls = io.cls
        contracts = dict(cs)
        contracts[_qual(icls, 'pattern')] = PatternCall()
        contracts[_qual(icls, 'publish_axiom')] = PublishCall(j, 'Gamma')
        contracts[_qual(icls, 'publish_claim')] = PublishCall(j, 'Claim')
        contracts[_qual(icls, 'into_claim_phase')] = PhaseSwitch(0)
        contracts[_qual(icls, 'into_proof_phase')] = PhaseSwitch(1)
        contracts['ProofExp.execute_gamma_phase'] = SubmoduleGamma(j)
        fname = 'execute_gamma_phase' if which == 'gamma' else 'execute_claims_phase'
        loops = {('ProofExp.execute_gamma_phase', 0): SubLoop(j, SUBS.t, pcls), ('ProofExp.execute_gamma_phase', 1): ListLoop(j, A.t, False),
                 ('ProofExp.execute_claims_phase', 0): ListLoop(j, C.t, True)}
        interp = Interp(repo, ctx, contracts, opts={'loops': loops})
        ctx.cover('call')
        interp.run_function(pcls.find_method(fname), [me, io, move])
        if which == 'gamma':
            ctx.oblige('post:journal = entry journal ++ what each imported module publishes (in import order) ++ the own axioms (in declaration order)',
                       j.t == tl_cat(J0.t, tl_cat(flat_ax(SUBS.t), ex_mem(A.t))), kind='post')
            ctx.oblige('post:phase', z3.BoolVal(io.attrs['phase'] == (1 if move else 0)), kind='post')
        else:
            ctx.oblige('post:journal = entry journal ++ the declared claims, last declared first (the machine pops them in declaration order)',
                       j.t == tl_cat(J0.t, ex_stack(C.t)), kind='post')
            ctx.oblige('post:phase', z3.BoolVal(io.attrs['phase'] == (2 if move else 1)), kind='post')
        return None
    return unit


def full_unit(repo, cs):
    """execute_full = the three phases in order on the same interpreter; serialize() drives execute_full through the serialiser directly or
    through the memoising wrapper (both branches call execute_full exactly once on an interpreter that forwards publish_* unchanged)."""
    def unit(ctx):
        pcls = repo.cls(PMOD, 'ProofExp')
        log = []

        class Phase:
            def __init__(self, n):
                self.n = n

            def apply(self, interp, c, args, kwargs):
                log.append((self.n, args[1], tuple(args[2:]), dict(kwargs)))
                return None
        contracts = dict(cs)
        for n in ('execute_gamma_phase', 'execute_claims_phase', 'execute_proofs_phase'):
            contracts['ProofExp.' + n] = Phase(n)
        me = Obj(pcls, {})
        io = _interp_obj(repo, 0)
        interp = Interp(repo, ctx, contracts)
        ctx.cover('call')
        interp.run_function(pcls.find_method('execute_full'), [me, io])
        ok = [x[0] for x in log] == ['execute_gamma_phase', 'execute_claims_phase', 'execute_proofs_phase'] and all(x[1] is io for x in log) \
            and all(not x[2] and not x[3] for x in log)
        ctx.oblige('post:gamma, claims, proofs phases run once each, in this order, on the same interpreter, moving on to the next phase', z3.BoolVal(ok), kind='post')
        return None
    return unit


def import_unit(repo, cs, own_axioms):
    """import_module(module): the module is appended to the list the gamma phase walks -- whatever the module itself declares (own_axioms:
    the imported module has / has no axioms of its own) --, the importing module's axioms and claims stay as they are, the module is returned."""
    def unit(ctx):
        pcls = repo.cls(PMOD, 'ProofExp')
        contracts = dict(cs)

        class Quiet:
            def apply(self, interp, c, args, kwargs):
                return None

        class Notations:
            def apply(self, interp, c, args, kwargs):
                return []
        contracts['ProofExp.add_notations'] = Quiet()
        contracts['ProofExp.add_notation'] = Quiet()
        contracts['ProofExp.get_notations'] = Notations()
        earlier = Obj(pcls, {})
        ax = [ctx.input('ppat', 'axiom0')] if own_axioms else []
        sub = Obj(pcls, {'_axioms': ax, '_claims': [], '_submodules': [], '_notations': [], '_proof_expressions': []})
        mine_ax, mine_cl, subs = [ctx.input('ppat', 'own axiom')], [ctx.input('ppat', 'own claim')], [earlier]
        me = Obj(pcls, {'_axioms': mine_ax, '_claims': mine_cl, '_submodules': subs, '_notations': [], '_proof_expressions': []})
        interp = Interp(repo, ctx, contracts)
        ctx.cover('call')
        r = interp.run_function(pcls.find_method('import_module'), [me, sub])
        now = me.attrs['_submodules']
        ok = isinstance(now, list) and len(now) == 2 and now[0] is earlier and now[1] is sub
        ctx.oblige('post:the imported module is appended to the submodules, after the earlier ones', z3.BoolVal(bool(ok)), kind='post', got=repr(now))
        same = me.attrs['_axioms'] is mine_ax and len(mine_ax) == 1 and me.attrs['_claims'] is mine_cl and len(mine_cl) == 1 and sub.attrs['_axioms'] is ax \
            and len(ax) == (1 if own_axioms else 0) and sub.attrs['_submodules'] == []
        ctx.oblige('frame:axioms and claims of both modules are untouched', z3.BoolVal(bool(same)), kind='frame')
        ctx.oblige('post:returns the imported module', z3.BoolVal(r is sub), kind='post')
        return None
    return unit


# ---- (B) Interpreter.pattern ---------------------------------------------------------------------------------------------------------------
def tracker_of(o):
    return o.attrs['sub_interpreter'] if 'sub_interpreter' in o.attrs else o


class PatternIH:
    """recursive call of pattern(): by induction hypothesis"""
    def apply(self, interp, ctx, args, kwargs):
        selfo, p = args[0], args[1]
        t = tracker_of(selfo)
        # (an inner call that raises ends the run: nothing to show on such paths)
        r = ctx.fresh('ppat', 'built')
        ctx.assume(z3.And(expand(r.t) == expand(p.t), pwf(r.t), *[P.is_(c, r.t) == P.is_(c, p.t) for c in PCTORS]))
        t.attrs['stack'] = SV(PTLs.mk('ptcons', PTR.mk('PyPat', r.t), interp.plist_of(t.attrs['stack'])), 'plist')
        if 'sub_interpreter' in selfo.attrs:
            # the memoising wrapper may have saved patterns: the memory afterwards is some well-formed list
            m2 = ctx.fresh('plist', 'memory_after')
            ctx.assume(ptl_wf(m2.t))
            t.attrs['memory'] = m2
        tab = t.attrs['_symbol_identifiers']
        if isinstance(tab, SymDict):
            n2 = ctx.fresh('int', 'table_size').t
            ctx.assume(n2 >= tab.n)
            tab.n = n2
            tab.absent = []
        return r


class ValuesLoop(LoopContract):
    """for inst in subst.values(): self.pattern(inst)   - invariant in 'remaining work' form, which needs no prefix function:
           pushall(expand*(remaining map), ex_stack(stack now))  ==  pushall(expand*(whole map), ex_stack(stack at entry))
    i.e. whatever is still to be pushed, pushed on what is there now, is the final stack.  One iteration preserves it by unfolding pushall once;
    at exit (nothing remaining) the stack IS the final stack.  pushall_views then relates the final stack to the plugs the tracker expects."""
    def __init__(self, tr, m):
        self.tr, self.m = tr, m

    def entry(self, interp, ctx, env, it):
        if not (isinstance(it, _MapView) and it.which == 'values' and it.m.t.eq(self.m)):
            raise Unsupported('the loop is not `for .. in <the notation map>.values()`: the loop contract does not apply')
        self.X0 = ex_stack(interp.plist_of(self.tr.attrs['stack']))
        self.G = pushall(expandmap(self.m), self.X0)
        self.mem0 = ex_mem(interp.plist_of(self.tr.attrs['memory']))

    def arbitrary_iteration(self, interp, ctx, env, it):
        r = ctx.fresh('pmap', 'remaining')
        st = ctx.fresh('plist', 'stack_now')
        ctx.assume(z3.And(PMp.is_('pcons', r.t), pmwf(r.t), ptl_wf(st.t), pushall(expandmap(r.t), ex_stack(st.t)) == self.G))
        self.tr.attrs['stack'] = st
        self.r = r
        return SV(PMp.get('pcons', 'pval', r.t), 'ppat')

    def after_iteration(self, interp, ctx, env, it, elem):
        now = ex_stack(interp.plist_of(self.tr.attrs['stack']))
        ctx.oblige('loop-inv:what remains to be pushed, pushed on the stack as it is now, is the final stack', pushall(expandmap(PMp.get('pcons', 'ptl', self.r.t)), now) == self.G, kind='inv')
        if 'memory_after' not in str(self.tr.attrs['memory'].t):
            ctx.oblige('loop-inv:memory untouched', ex_mem(interp.plist_of(self.tr.attrs['memory'])) == self.mem0, kind='inv')
        ctx.oblige('loop-inv:stack stays well-formed', ptl_wf(interp.plist_of(self.tr.attrs['stack'])), kind='inv')

    def exit(self, interp, ctx, env, it):
        st = ctx.fresh('plist', 'stack_after_plugs')
        ctx.assume(z3.And(ptl_wf(st.t), ex_stack(st.t) == self.G))
        self.tr.attrs['stack'] = st
        M_ = expandmap(self.m)
        top = tl_taken(self.G, mlen(M_))
        for ln, args in (('pushall_views', [M_, self.X0]), ('tl_allpat_eq', [top, ex_stack(pm_values(self.m))]), ('pm_values_pats', [self.m]), ('pm_values_allpat', [self.m]),
                         ('mlen_nonneg', [M_]), ('mlen_zero', [M_])):
            ctx.lemma_fact(ln, LIB[ln].inst(*args))


def pattern_unit(repo, cs, ctor, wrapper, inst_k=None):
    """inst_k: for ctor == 'Instantiate', the number of entries of the notation's map (symbolic keys and plugs; a bound in that dimension)"""
    def unit(ctx):
        icls = repo.cls(SI, 'SerializingInterpreter')
        S, Mm, C = ctx.input('plist', 'stack'), ctx.input('plist', 'memory'), ctx.input('pclaims', 'claims')
        ctx.assume(ptl_wf(S.t))
        ctx.assume(ptl_wf(Mm.t))
        n0 = ctx.input('int', 'table_size')
        ctx.assume(n0.t >= 0)
        tab = SymDict(ctx, n0.t)
        tr = Obj(icls, {'phase': 2, '_interpreting_warnings': set(), 'stack': S, 'memory': Mm, 'claims': C, 'out': OutLog(), 'claim_out': OutLog('claim'),
                        'proof_out': OutLog('proof'), '_symbol_identifiers': tab})
        if wrapper:
            mcls = repo.cls('proof_generation.optimizing_interpreters', 'MemoizingInterpreter')
            selfo = Obj(mcls, {'phase': 2, '_interpreting_warnings': set(), 'sub_interpreter': tr, '_patterns_for_memoization': SV(None, 'patset')})
        else:
            selfo = tr
        if ctor == 'Instantiate' and inst_k is not None:
            m = PMp.mk('pnil')
            keys = []
            for i in reversed(range(inst_k)):
                kk = ctx.input('int', f'key{i}')
                ctx.assume(z3.And(*[kk.t != o.t for o in keys]))
                keys.append(kk)
                m = PMp.mk('pcons', kk.t, ctx.input('ppat', f'plug{i}').t, m)
            p = SV(P.mk('Instantiate', ctx.input('ppat', 'definition').t, m), 'ppat')
        else:
            p = ctx.input('ppat', 'p')
        ctx.assume(pwf(p.t))
        if wrapper is not True:
            ctx.assume(P.is_(ctor, p.t))
        contracts = dict(cs)
        contracts['Interpreter.pattern'] = PatternIH()
        loops = {}
        if ctor == 'Instantiate' and inst_k is None:
            loops[('Interpreter.pattern', 0)] = ValuesLoop(tr, P.get('Instantiate', 'inst', p.t))
        interp = Interp(repo, ctx, contracts, opts={'loops': loops})
        f = (repo.cls('proof_generation.optimizing_interpreters', 'MemoizingInterpreter') if wrapper is True else repo.cls('proof_generation.interpreter', 'Interpreter')).find_method('pattern')
        if wrapper is True:
            ctx.assume(z3.BoolVal(True))
        ctx.check_feasible()
        ctx.cover('call')
        try:
            r = interp.run_function(f, [selfo, p])     # a failing BasicInterpreter check / refused byte is a SymRaise: nothing is published then
        except SymRaise as e:
            if (e.where or '').startswith('StatefulInterpreter.'):
                ctx.oblige(f'noraise:building a declared pattern must not trip the tracker ({e.cls} at {e.where})', z3.BoolVal(False), kind='noraise')
                return None
            raise
        if not interp.is_pat(r):
            ctx.oblige('post:returns a pattern', z3.BoolVal(False), kind='post')
            return None
        ctx.oblige('post:the result equals the declared pattern (python ==, i.e. up to notation)', expand(r.t) == expand(p.t), kind='post')
        ctx.oblige('post:the result has the constructor of the declared pattern', z3.And(*[P.is_(c, r.t) == P.is_(c, p.t) for c in PCTORS]), kind='post')
        ctx.oblige('post:exactly that pattern is pushed on the tracker stack',
                   ex_stack(interp.plist_of(tr.attrs['stack'])) == TLs.mk('tcons', pat_term(p.t), ex_stack(S.t)), kind='post')
        M2 = ex_mem(interp.plist_of(tr.attrs['memory']))
        if not wrapper:
            ctx.oblige('post:memory unchanged', M2 == ex_mem(Mm.t), kind='post')
        else:
            ctx.oblige('post:memory stays well-formed', ptl_wf(interp.plist_of(tr.attrs['memory'])), kind='post')
        ctx.oblige('post:claims unchanged', tr.attrs['claims'].t == C.t, kind='post')
        ctx.oblige('post:the symbol table only grows', tab.n >= n0.t, kind='post')
        return None
    return unit


def forward_unit(repo, cs, meth):
    """InterpreterTransformer / MemoizingInterpreter forward publish_* and the phase switches to the wrapped interpreter, same argument, once"""
    def unit(ctx):
        mcls = repo.cls('proof_generation.optimizing_interpreters', 'MemoizingInterpreter')
        icls = repo.cls(SI, 'SerializingInterpreter')
        log = []

        class Rec:
            def apply(self, interp, c, args, kwargs):
                log.append(args)
                return None
        inner = _interp_obj(repo, {'publish_axiom': 0, 'publish_claim': 1, 'publish_proof': 2, 'into_claim_phase': 0, 'into_proof_phase': 1}[meth])
        selfo = Obj(mcls, {'phase': inner.attrs['phase'], '_interpreting_warnings': set(), 'sub_interpreter': inner, '_patterns_for_memoization': SV(None, 'patset')})
        contracts = dict(cs)
        contracts[_qual(icls, meth)] = Rec()
        interp = Interp(repo, ctx, contracts)
        if meth == 'publish_proof':
            args = [_proved(interp, ctx, 'proved')]
        elif meth.startswith('publish'):
            a = ctx.input('ppat', 'pattern')
            args = [a]
        else:
            args = []
        ctx.cover('call')
        interp.run_function(mcls.find_method(meth), [selfo] + args)
        ok = len(log) == 1 and log[0][0] is inner and len(log[0]) == 1 + len(args) and all(x is y for x, y in zip(log[0][1:], args))
        ctx.oblige(f'post:{meth} is forwarded to the wrapped interpreter exactly once with the same argument', z3.BoolVal(ok), kind='post')
        if not meth.startswith('publish'):
            ctx.oblige('post:the wrapper follows the phase', z3.BoolVal(selfo.attrs['phase'] == {'into_claim_phase': 1, 'into_proof_phase': 2}[meth]), kind='post')
        return None
    return unit


# ---- (C) symbol table ----------------------------------------------------------------------------------------------------------------------
def symbol_table_unit(repo, cs):
    def unit(ctx):
        icls = repo.cls(SI, 'SerializingInterpreter')
        S, Mm, C = ctx.input('plist', 'stack'), ctx.input('plist', 'memory'), ctx.input('pclaims', 'claims')
        n0 = ctx.input('int', 'table_size')
        ctx.assume(n0.t >= 0)
        tab = SymDict(ctx, n0.t)
        # a second, unrelated entry of the table (to observe that other entries are left alone)
        other, oid = ctx.input('name', 'other_name'), ctx.input('int', 'other_id')
        ctx.assume(z3.And(oid.t >= 0, oid.t < n0.t))
        tab.known.append((other.t, oid.t))
        out = OutLog()
        tr = Obj(icls, {'phase': 2, '_interpreting_warnings': set(), 'stack': S, 'memory': Mm, 'claims': C, 'out': out, 'claim_out': OutLog('claim'),
                        'proof_out': OutLog('proof'), '_symbol_identifiers': tab})
        q = ctx.input('name', 'name')
        interp = Interp(repo, ctx, cs)
        ctx.check_feasible()
        ctx.cover('call')
        known0 = list(tab.known)
        interp.run_function(icls.find_method('symbol'), [tr, q])          # refused (ValueError from bytes()) = SymRaise: see the refusal unit
        if len(out.chunks) != 1:
            ctx.oblige('post:one instruction is written', z3.BoolVal(False), kind='post')
            return None
        em = out.chunks[0].t
        ent = [(k, i) for k, i in tab.known if z3.is_true(z3.simplify(k == q.t)) or k.eq(q.t)]
        qid = None
        for k, i in tab.known:
            if ctx.branch(k == q.t, 'entry of the queried name'):
                qid = i
                break
        if qid is None:
            ctx.oblige('post:the queried name is in the table afterwards', z3.BoolVal(False), kind='post')
            return None
        was_known = [i for k, i in known0 if ctx.branch(k == q.t, 'queried name was a known entry')]
        ctx.oblige('post:emits Symbol <number of the name in the table> (the number itself, not a truncation of it)', em == idl(sm.OPC['Symbol'], qid), kind='post')
        ctx.oblige('post:the emitted number fits a byte', z3.And(qid >= 0, qid <= 255), kind='post')
        if tab.writes == 0:
            ctx.oblige('post:a known name keeps its number and the table is unchanged', z3.And(tab.n == n0.t, qid >= 0, qid < n0.t), kind='post')
        else:
            ctx.oblige('post:only a name that was absent is added, with the next free number; the table stays injective onto range(n+1)',
                       z3.And(z3.BoolVal(tab.writes == 1 and not was_known), qid == n0.t, tab.n == n0.t + 1), kind='post')
        keep = [i for k, i in tab.known if k.eq(other.t)]
        ctx.oblige('post:other entries keep their numbers', z3.Or(other.t == q.t, z3.And(z3.BoolVal(len(keep) == 1), keep[0] == oid.t if keep else False)), kind='post')
        ctx.oblige('post:tracker pushes Symbol(name)', interp.plist_of(tr.attrs['stack']) == PTLs.mk('ptcons', PTR.mk('PyPat', P.mk('Symbol', q.t)), S.t), kind='post')
        return None
    return unit


def symbol_refusal_unit(repo, cs):
    """a name whose number would not fit a byte is refused: symbol() raises and writes nothing"""
    def unit(ctx):
        icls = repo.cls(SI, 'SerializingInterpreter')
        n0 = ctx.input('int', 'table_size')
        ctx.assume(n0.t >= 256)
        tab = SymDict(ctx, n0.t)
        out = OutLog()
        tr = Obj(icls, {'phase': 2, '_interpreting_warnings': set(), 'stack': ctx.input('plist', 'stack'), 'memory': ctx.input('plist', 'memory'),
                        'claims': ctx.input('pclaims', 'claims'), 'out': out, 'claim_out': OutLog('claim'), 'proof_out': OutLog('proof'), '_symbol_identifiers': tab})
        q = ctx.input('name', 'name')
        interp = Interp(repo, ctx, cs)
        ctx.cover('call')
        try:
            interp.run_function(icls.find_method('symbol'), [tr, q])
        except SymRaise as e:
            ctx.oblige('post:nothing is written when the call is refused', z3.BoolVal(not out.chunks), kind='post')
            return None
        qid = [i for k, i in tab.known if k.eq(q.t) or z3.is_true(z3.simplify(k == q.t))]
        ctx.oblige('post:accepted only when the number of the name is below 256 (the 257th symbol is refused)',
                   z3.And(z3.BoolVal(len(qid) == 1), qid[0] <= 255 if qid else False, out.chunks[0].t == idl(sm.OPC['Symbol'], qid[0]) if qid and out.chunks else False), kind='post')
        return None
    return unit


def table_kept_unit(repo, cs, meth):
    def unit(ctx):
        icls = repo.cls(SI, 'SerializingInterpreter')
        tab = {}
        src = {'into_claim_phase': 0, 'into_proof_phase': 1}[meth]
        cout, pout = OutLog('claim'), OutLog('proof')
        tr = Obj(icls, {'phase': src, '_interpreting_warnings': set(), 'stack': ctx.input('plist', 'stack'), 'memory': ctx.input('plist', 'memory'),
                        'claims': ctx.input('pclaims', 'claims'), 'out': OutLog() if src == 0 else cout, 'claim_out': cout, 'proof_out': pout, '_symbol_identifiers': tab})
        interp = Interp(repo, ctx, cs)
        ctx.cover('call')
        interp.run_function(icls.find_method(meth), [tr])
        ctx.oblige('post:the symbol table object is kept across the phase switch (one numbering for gamma, claim and proof files)',
                   z3.BoolVal(tr.attrs['_symbol_identifiers'] is tab and tab == {}), kind='post')
        return None
    return unit


# ---- (D) bytes ------------------------------------------------------------------------------------------------------------------------------
def bytes_unit(repo, cs, meth, phase):
    def unit(ctx):
        interp = Interp(repo, ctx, cs)
        icls = repo.cls(SI, 'SerializingInterpreter')
        S, Mm, C = ctx.input('plist', 'stack'), ctx.input('plist', 'memory'), ctx.input('pclaims', 'claims')
        out = OutLog()
        tr = Obj(icls, {'phase': PHASE_NO[phase], '_interpreting_warnings': set(), 'stack': S, 'memory': Mm, 'claims': C, 'out': out, 'claim_out': OutLog('claim'),
                        'proof_out': OutLog('proof'), '_symbol_identifiers': {}})
        args = METHODS[meth](interp, ctx)
        ctx.check_feasible()
        ctx.cover('call')
        interp.run_function(icls.find_method(meth), [tr] + args)
        for k, c in enumerate(out.chunks):
            if not (isinstance(c, SV) and c.kind == 'bytes'):
                ctx.oblige(f'post:chunk {k} written is a bytes object', z3.BoolVal(False), kind='post')
            else:
                ctx.oblige(f'post:chunk {k}: every id written fits a byte (larger ids are refused by bytes(), never truncated)', il_allbytes(c.t), kind='post')
        return None
    return unit


# ---- bounded stand-in / witness search on the real code ----------------------------------------------------------------------------------
PUB_PRELUDE = r"""
import io, random
from proof_generation.serializing_interpreter import SerializingInterpreter
from proof_generation.counting_interpreter import CountingInterpreter
from proof_generation.optimizing_interpreters import MemoizingInterpreter
from proof_generation.interpreter import ExecutionPhase
from proof_generation.proof import ProofExp
from proof_generation.claim import Claim
from proof_generation.pattern import *

class _Rec(SerializingInterpreter):
    def __init__(self, *a, **k):
        super().__init__(*a, **k); self.journal = []
    def publish_axiom(self, p):
        self.journal.append(('axiom', p)); return super().publish_axiom(p)
    def publish_claim(self, p):
        self.journal.append(('claim', p)); return super().publish_claim(p)

def _pat(rng, d=2):
    k = rng.randint(0, 6 if d > 0 else 2)
    if k == 0: return EVar(rng.randint(0, 2))
    if k == 1: return Symbol('s%d' % rng.randint(0, 3))
    if k == 2: return MetaVar(rng.randint(0, 2))
    if k in (3, 4): return Implies(_pat(rng, d - 1), _pat(rng, d - 1))
    if k == 5: return App(_pat(rng, d - 1), _pat(rng, d - 1))
    return Exists(rng.randint(0, 2), _pat(rng, d - 1))

class _Buf(io.BytesIO):
    def close(self):
        pass                                     # the interpreter closes a stream when it leaves its phase; the bytes are read afterwards

def _rep(rng):
    # a pattern with a large sub-term used several times: a candidate for Save / Load under optimisation
    t = App(App(Symbol('s%d' % rng.randint(0, 3)), _pat(rng, 1)), _pat(rng, 1))
    return rng.choice([Implies(t, t), Implies(t, App(t, _pat(rng, 1))), App(Implies(t, _pat(rng, 1)), t)])

def _module(rng, depth):
    axs = [(_rep(rng) if rng.random() < 0.4 else _pat(rng)) for _ in range(rng.randint(0, 3))]
    if axs and rng.random() < 0.3:
        axs.append(axs[0])                       # the same axiom declared twice (also arises from diamond imports)
    m = ProofExp(axioms=axs, claims=[])
    m._declared_imports = []                     # the import graph as DECLARED, kept apart from the module's own bookkeeping
    if depth > 0:
        for _ in range(rng.randint(0, 2)):
            sub = _module(rng, depth - 1)
            m._declared_imports.append(sub)
            m.import_module(sub)                 # a module without axioms of its own may still import modules that have some
    return m

def _ref_run(data, phase, memory, published):
    # independent reading of an emitted file, as the checker reads it: ONE memory for all files, Publish pops the stack
    stack, i = [], 0
    def arg():
        nonlocal i
        v = data[i]; i += 1
        return v
    while i < len(data):
        ins = arg()
        if ins == 0x02: stack.append(('EVar', arg()))
        elif ins == 0x03: stack.append(('SVar', arg()))
        elif ins == 0x04: stack.append(('Symbol', arg()))
        elif ins in (0x05, 0x06):
            r = stack.pop(); l = stack.pop(); stack.append(('Implies' if ins == 0x05 else 'App', l, r))
        elif ins in (0x07, 0x08):
            v = arg(); stack.append(('Mu' if ins == 0x07 else 'Exists', v, stack.pop()))
        elif ins == 0x89: stack.append(('MetaVar', arg(), (), (), (), (), ()))
        elif ins == 0x09:
            name = arg(); ls = []
            for _ in range(5):
                k = arg(); ls.append(tuple(arg() for _ in range(k)))
            stack.append(('MetaVar', name) + tuple(ls))
        elif ins in (0x0A, 0x0B):
            v = arg(); plug = stack.pop(); pat = stack.pop(); stack.append(('ESubst' if ins == 0x0A else 'SSubst', pat, v, plug))
        elif ins == 0x1B: stack.pop()
        elif ins == 0x1C: memory.append(('pattern', stack[-1]))
        elif ins == 0x1D:
            kind, v = memory[arg()]
            if kind != 'pattern': raise ValueError('Load of a proved entry in the %s file' % phase)
            stack.append(v)
        elif ins == 0x1E:
            p = stack.pop(); published.append(p)
            if phase == 'gamma': memory.append(('proved', p))
        else:
            raise ValueError('instruction %#x in the %s file' % (ins, phase))

def _same(p, got, fwd, bwd):
    # declared pattern == decoded term under an injective symbol numbering built on the way
    cn = type(p).__name__
    if cn == 'Instantiate': return _same(p.simplify(), got, fwd, bwd)
    if got[0] != cn: return False
    if cn == 'Symbol':
        return fwd.setdefault(p.name, got[1]) == got[1] and bwd.setdefault(got[1], p.name) == p.name
    if cn in ('EVar', 'SVar'): return got[1] == p.name
    if cn in ('Implies', 'App'): return _same(p.left, got[1], fwd, bwd) and _same(p.right, got[2], fwd, bwd)
    if cn in ('Exists', 'Mu'): return got[1] == p.var and _same(p.subpattern, got[2], fwd, bwd)
    if cn == 'MetaVar':
        return got[1:] == (p.name, tuple(v.name for v in p.e_fresh), tuple(v.name for v in p.s_fresh), tuple(v.name for v in p.positive), tuple(v.name for v in p.negative),
                           tuple(v.name for v in p.app_ctx_holes))
    if cn in ('ESubst', 'SSubst'): return got[2] == p.var.name and _same(p.pattern, got[1], fwd, bwd) and _same(p.plug, got[3], fwd, bwd)
    return False

def _declared(m):
    out = []
    for s in m._declared_imports: out += _declared(s)
    return out + list(m._axioms)

def _c03_modules(seed, n):
    rng = random.Random(seed)
    for case in range(n):
        m = _module(rng, rng.randint(0, 3))
        claims = []
        for _ in range(rng.randint(0, 3)):
            c = _rep(rng) if rng.random() < 0.4 else _pat(rng)
            if c not in claims: claims.append(c)
        m._claims = claims
        want = [('axiom', a) for a in _declared(m)] + [('claim', c) for c in reversed(claims)]
        for optimize in (False, True):
            cl = [Claim(c) for c in claims]
            g_out, c_out = _Buf(), _Buf()
            r = _Rec(ExecutionPhase.Gamma, g_out, cl, c_out, _Buf())
            try:
                if optimize:
                    an = CountingInterpreter(ExecutionPhase.Gamma, cl)
                    m.execute_gamma_phase(an); m.execute_claims_phase(an, False)
                    w = MemoizingInterpreter(r, an.finalize())
                    m.execute_gamma_phase(w); m.execute_claims_phase(w, False)
                else:
                    m.execute_gamma_phase(r); m.execute_claims_phase(r, False)
            except BaseException as e:
                return ('fail', 'publishing raises %s: %s' % (type(e).__name__, e), repr(_declared(m)), repr(claims), optimize, case)
            n_ax = sum(1 for k, _ in r.journal if k == 'axiom')
            held = [t for t in r.memory[:n_ax]]
            if [getattr(t, 'conclusion', None) for t in held] != [p for k, p in r.journal if k == 'axiom'] and not optimize:
                return ('fail', 'after the gamma phase the tracker memory is %r, the machine holds one entry per published axiom: %r' % (held, [p for k, p in r.journal if k == 'axiom']),
                        repr([len(s._declared_imports) for s in m._declared_imports]), repr(claims), optimize, case)
            if r.journal != want:
                return ('fail', 'published %r, declared %r' % (r.journal, want), repr([len(s._declared_imports) for s in m._declared_imports]), repr(claims), optimize, case)
            # the publish journal of an independent reading of the EMITTED gamma and claim files
            mem, pa, pc = [], [], []
            try:
                _ref_run(g_out.getvalue(), 'gamma', mem, pa); _ref_run(c_out.getvalue(), 'claim', mem, pc)
            except (ValueError, IndexError) as e:
                return ('fail', 'the emitted files cannot be read back: %s' % e, repr(_declared(m)), repr(claims), optimize, case)
            fwd, bwd = {}, {}
            decl = _declared(m) + list(reversed(claims))
            if len(pa) != len(_declared(m)) or len(pc) != len(claims) or not all(_same(p, g, fwd, bwd) for p, g in zip(decl, pa + pc)):
                return ('fail', 'the emitted files publish axioms %r and claims %r; declared: %r and %r' % (pa, pc, _declared(m), list(reversed(claims))), repr(_declared(m)), repr(claims), optimize, case)
    return ('ok', n)

def _c03_symbols(seed, n):
    rng = random.Random(seed)
    for case in range(n):
        k = rng.choice([1, 2, 3, 5, 255, 256, 257, 300])
        names = ['n%d' % i for i in range(k)]
        seq = names[:]
        for _ in range(rng.randint(0, 6)):
            seq.insert(rng.randint(0, len(seq)), rng.choice(names[:min(k, 4)]))
        s = SerializingInterpreter(ExecutionPhase.Gamma, io.BytesIO(), [], io.BytesIO(), io.BytesIO())
        seen = {}; refused = None
        for i, nm in enumerate(seq):
            if i == len(seq) // 3: s.into_claim_phase()
            if i == 2 * len(seq) // 3: s.into_proof_phase()
            before = len(s.out.getvalue())
            try:
                s.symbol(nm)
            except ValueError:
                refused = nm
                if nm in seen or len(seen) < 256:
                    return ('fail', 'symbol %r refused with %d symbols known' % (nm, len(seen)), k, case)
                continue
            chunk = s.out.getvalue()[before:]
            if len(chunk) != 2 or chunk[0] != 4:
                return ('fail', 'symbol %r wrote %r' % (nm, list(chunk)), k, case)
            if nm in seen and seen[nm] != chunk[1]:
                return ('fail', 'symbol %r numbered %d, then %d' % (nm, seen[nm], chunk[1]), k, case)
            if nm not in seen and chunk[1] in seen.values():
                other = [x for x, v in seen.items() if v == chunk[1]][0]
                return ('fail', 'distinct symbols %r and %r share number %d (%d symbols)' % (other, nm, chunk[1], len(seen) + 1), k, case)
            seen[nm] = chunk[1]
    return ('ok', n)
"""


def publish_bounded(unit_name, root, tier, seed):
    from vc import replay as rp
    n = 40 if tier == 'quick' else 400
    fn = '_c03_symbols' if 'symbol' in unit_name else '_c03_modules'
    jobs = [{'expr': f'{fn}({seed}, {n})'}]
    real = rp.run_real(jobs, prelude=PUB_PRELUDE, root=root)[0]
    rp.check_driver(real)
    if not real['ok']:
        return {'expr': jobs[0]['expr'], 'real': real, 'failed_clause': 'bounded driver raised: ' + str(real.get('exc'))}, 0
    d = rp.repr_to_data(real['repr'])
    if d[0] == 'tuple' and d[1] == 'ok':
        return None, d[2]
    return {'expr': jobs[0]['expr'], 'real': real, 'failed_clause': str(d[2])}, n
