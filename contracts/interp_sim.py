"""C04 (and C03/C14/C02 pieces): every method of the Stateful / Serializing interpreters, executed on an ARBITRARY tracker state,
emits bytes that the spec machine accepts from the expanded state, and the new tracker state expands to the machine's successor.

Sim(py, sm):  ex_stack(py.stack) == sm.stack,  ex_mem(py.memory) == sm.memory,  (proof phase) ex_claims(py.claims) == sm.claims."""
import z3
from vc.sorts import *  # noqa
from vc.spec import *  # noqa
from vc import sm
from vc.engine import SV, SymRaise, Unsupported
from vc.pyfe import Interp, Obj, OutLog

SI = 'proof_generation.serializing_interpreter'
SIFILE = 'generation/src/proof_generation/serializing_interpreter.py'
PHASE_NO = {'Gamma': 0, 'Claim': 1, 'Proof': 2}


def cat_chunks(interp, chunks):
    t = IDL.mk('inil')
    for c in reversed(chunks):
        if not (isinstance(c, SV) and c.kind == 'bytes'):
            raise Unsupported(f'non-bytes chunk written: {c!r}')
        t = il_cat(c.t, t)
    return t


# argument builders: name -> callable(interp, ctx) -> list of argument values
def _p(ctx, n):
    v = ctx.input('ppat', n)
    ctx.assume(pwf(v.t))
    return v


def _meta(ctx, n):
    """argument annotated `MetaVar | ESubst | SSubst` (Interpreter.pattern asserts it before calling esubst / ssubst)"""
    v = _p(ctx, n)
    ctx.assume(z3.Or(P.is_('MetaVar', v.t), P.is_('ESubst', v.t), P.is_('SSubst', v.t)))
    return v


def _proved(interp, ctx, n):
    return Obj(interp.repo.cls('proof_generation.proved', 'Proved'), {'conclusion': _p(ctx, n + '.conclusion')})


def _evar(interp, ctx, n):
    return interp.mk_pat('EVar', [ctx.input('int', n)])


def _map(ctx, n):
    m = ctx.input('pmap', n)
    ctx.assume(pmwf(m.t))
    ctx.assume(mdistinct(expandmap(m.t)))
    return m


METHODS = {
    'evar': lambda it, c: [c.input('int', 'id')],
    'svar': lambda it, c: [c.input('int', 'id')],
    'implies': lambda it, c: [_p(c, 'left'), _p(c, 'right')],
    'app': lambda it, c: [_p(c, 'left'), _p(c, 'right')],
    'exists': lambda it, c: [c.input('int', 'var'), _p(c, 'subpattern')],
    'mu': lambda it, c: [c.input('int', 'var'), _p(c, 'subpattern')],
    'esubst': lambda it, c: [c.input('int', 'evar_id'), _meta(c, 'pattern'), _p(c, 'plug')],
    'ssubst': lambda it, c: [c.input('int', 'svar_id'), _meta(c, 'pattern'), _p(c, 'plug')],
    'metavar': lambda it, c: [c.input('int', 'id')] + [SV(c.input('idl', n).t, 'idl', k) for n, k in
                                                       (('e_fresh', 'EVar'), ('s_fresh', 'SVar'), ('positive', 'SVar'), ('negative', 'SVar'),
                                                        ('application_context', 'EVar'))],
    'prop1': lambda it, c: [], 'prop2': lambda it, c: [], 'prop3': lambda it, c: [], 'exists_quantifier': lambda it, c: [],
    'modus_ponens': lambda it, c: [_proved(it, c, 'left'), _proved(it, c, 'right')],
    'exists_generalization': lambda it, c: [_proved(it, c, 'proved'), _evar(it, c, 'var')],
    'instantiate': lambda it, c: [_proved(it, c, 'proved'), _map(c, 'delta')],
    'instantiate_pattern': lambda it, c: [_p(c, 'pattern'), _map(c, 'delta')],
    'pop': lambda it, c: [_p(c, 'term')],
    'save': lambda it, c: ['id', _p(c, 'term')],
    'load': lambda it, c: ['id', _p(c, 'term')],
    'publish_axiom': lambda it, c: [_p(c, 'axiom')],
    'publish_claim': lambda it, c: [_p(c, 'pattern')],
    'publish_proof': lambda it, c: [_proved(it, c, 'proved')],
}
OPS_OF = {'evar': ['EVar'], 'svar': ['SVar'], 'symbol': ['Symbol'], 'implies': ['Implies'], 'app': ['App'], 'exists': ['Exists'], 'mu': ['Mu'],
          'esubst': ['ESubst'], 'ssubst': ['SSubst'], 'metavar': ['MetaVar', 'CleanMetaVar'], 'prop1': ['Prop1'], 'prop2': ['Prop2'],
          'prop3': ['Prop3'], 'exists_quantifier': ['Quantifier'], 'modus_ponens': ['ModusPonens'], 'exists_generalization': ['Generalization'],
          'instantiate': ['Instantiate'], 'instantiate_pattern': ['Instantiate'], 'pop': ['Pop'], 'save': ['Save'], 'load': ['Load'],
          'publish_axiom': ['Publish'], 'publish_claim': ['Publish'], 'publish_proof': ['Publish']}
# KNOWN FINDING (C04, open): the tracker does not pop the published term (the machine does); the obligation below states the
# actual relation (published term still on top of the tracker stack) so that everything else about these calls stays checked
NOT_POPPED = ('publish_axiom', 'publish_claim', 'publish_proof')
PHASES_OF = {'publish_axiom': ['Gamma'], 'publish_claim': ['Claim'], 'publish_proof': ['Proof']}
# side conditions of the machine that the python interpreters never evaluate (known findings of C02/C04): assumed here, so
# that everything ELSE about the step (operand order, emitted bytes, tracker update) is still proved
SIDE = {
    'mu': lambda a: sm.doc_positive(expand(a[1].t), a[0].t),
    'esubst': lambda a: sm.wf_subst('e', expand(a[1].t), a[0].t, expand(a[2].t)),
    'ssubst': lambda a: sm.wf_subst('s', expand(a[1].t), a[0].t, expand(a[2].t)),
    'metavar': lambda a: z3.Not(il_intersects(a[5].t, a[1].t)),
    # instantiate: (1) the constraint lists of replaced metavariables / capture-freeness of resolved pending substitutions are never
    # evaluated by the python side; (2) the python instantiation drops a pending substitution over a variable in the freshness list
    # of the plugged metavariable, the checker keeps it (both: known findings C02/C04)
    'instantiate': lambda a: _inst_side(a[0].attrs['conclusion'], a[1]),
    'instantiate_pattern': lambda a: _inst_side(a[0], a[1]),
}


def _inst_side(pat, delta):
    e, m = expand(pat.t), expandmap(delta.t)
    return z3.And(sm.doc_inst_ok(e, mkeys_rev(m), mvals_rev(m)), minst_py(e, m) == minst_rs(e, m))


def sim_unit(repo, contracts, meth, phase, cls_name='SerializingInterpreter', module=SI, extra_side=None, load_proved=False):
    def unit(ctx):
        interp = Interp(repo, ctx, contracts)
        cls = repo.cls(module, cls_name)
        S, Mm = ctx.input('plist', 'stack'), ctx.input('plist', 'memory')
        C = ctx.input('pclaims', 'claims')
        ctx.assume(ptl_wf(S.t))
        ctx.assume(ptl_wf(Mm.t))
        out = OutLog()
        selfo = Obj(cls, {'phase': PHASE_NO[phase], '_interpreting_warnings': set(), 'stack': S, 'memory': Mm, 'claims': C, 'out': out,
                          'claim_out': OutLog('claim'), 'proof_out': OutLog('proof'), '_symbol_identifiers': {}})
        args = METHODS[meth](interp, ctx)
        if meth in ('pop', 'save', 'load') and load_proved:
            args[-1] = _proved(interp, ctx, 'term')
        side = SIDE.get(meth)
        if side is not None:
            ctx.assume(side(args))
        if extra_side is not None:
            ctx.assume(extra_side(args))
        ctx.check_feasible()
        ctx.cover('call')
        f = cls.find_method(meth)
        interp.run_function(f, [selfo] + args)      # a tracker assertion failing is a SymRaise: such calls are not 'accepted', nothing to show
        emitted = cat_chunks(interp, out.chunks)
        S0, M0 = ex_stack(S.t), ex_mem(Mm.t)
        C0 = ex_claims(C.t) if phase == 'Proof' else ctx.fresh('claims', 'machine_claims').t
        first = IDL.get('icons', 'ihd', emitted)
        rest = IDL.get('icons', 'itl', emitted)
        ctx.oblige('post:one instruction is emitted, with the opcode of this call',
                   z3.And(z3.Not(IDL.is_('inil', emitted)), z3.Or(*[first == sm.OPC[o] for o in OPS_OF[meth]])), kind='post')
        S2, M2 = selfo.attrs['stack'], selfo.attrs['memory']
        for o in OPS_OF[meth]:
            ok, S1, M1, C1, r1 = sm.step(o, phase, S0, M0, C0, rest)
            g = first == sm.OPC[o]
            tag = f'[{o}]' if len(OPS_OF[meth]) > 1 else ''
            ctx.oblige(f'post{tag}:the machine accepts the step', z3.Implies(g, ok), kind='post')
            ctx.oblige(f'post{tag}:the instruction ends exactly where the emitted bytes end', z3.Implies(g, r1 == IDL.mk('inil')), kind='post')
            if meth in NOT_POPPED:
                top = S0 if False else TLs.get('tcons', 'thd', S0)
                ctx.oblige(f'post{tag}:tracker stack = machine stack with the published term not popped (known finding)',
                           z3.Implies(g, ex_stack(interp.plist_of(S2)) == TLs.mk('tcons', top, S1)), kind='post')
            else:
                ctx.oblige(f'post{tag}:tracker stack simulates the machine stack', z3.Implies(g, ex_stack(interp.plist_of(S2)) == S1), kind='post')
            ctx.oblige(f'post{tag}:tracker memory simulates the machine memory', z3.Implies(g, ex_mem(interp.plist_of(M2)) == M1), kind='post')
            if phase == 'Proof':
                ctx.oblige(f'post{tag}:remaining claims simulate the machine claims', z3.Implies(g, ex_claims(selfo.attrs['claims'].t) == C1), kind='post')
        ctx.oblige('post:tracked terms stay well-formed', z3.And(ptl_wf(interp.plist_of(S2)), ptl_wf(interp.plist_of(M2))), kind='post')
        return None
    return unit


def phase_switch_unit(repo, contracts, meth, cls_name='SerializingInterpreter', module=SI):
    """into_claim_phase / into_proof_phase: the tracker stack is cleared, memory and claims are kept (as the machine does between phases)."""
    def unit(ctx):
        interp = Interp(repo, ctx, contracts)
        cls = repo.cls(module, cls_name)
        S, Mm, C = ctx.input('plist', 'stack'), ctx.input('plist', 'memory'), ctx.input('pclaims', 'claims')
        src = {'into_claim_phase': 0, 'into_proof_phase': 1}[meth]
        out, cout, pout = OutLog('gamma'), OutLog('claim'), OutLog('proof')
        selfo = Obj(cls, {'phase': src, '_interpreting_warnings': set(), 'stack': S, 'memory': Mm, 'claims': C,
                          'out': out if src == 0 else cout, 'claim_out': cout, 'proof_out': pout, '_symbol_identifiers': {}})
        f = cls.find_method(meth)
        ctx.cover('call')
        interp.run_function(f, [selfo])
        ctx.oblige('post:phase advances by one', z3.BoolVal(selfo.attrs['phase'] == src + 1), kind='post')
        ctx.oblige('post:stack is cleared', ex_stack(interp.plist_of(selfo.attrs['stack'])) == TLs.mk('tnil'), kind='post')
        ctx.oblige('post:memory is kept', ex_mem(interp.plist_of(selfo.attrs['memory'])) == ex_mem(Mm.t), kind='post')
        ctx.oblige('post:claims are kept', selfo.attrs['claims'].t == C.t, kind='post')
        ctx.oblige('post:output switches to the stream of the next phase', z3.BoolVal(selfo.attrs['out'] is (cout if src == 0 else pout)), kind='post')
        ctx.oblige('post:nothing is written', z3.BoolVal(not out.chunks and not cout.chunks and not pout.chunks), kind='post')
        return None
    return unit


def symbol_unit(repo, contracts, cls_name='SerializingInterpreter', module=SI):
    """symbol(name): with a symbol table that is injective onto 0..n-1, the emitted id is the table's id of the name (a new name gets
    id n), the table stays injective onto 0..n'-1, known names keep their ids; the machine pushes Symbol(id)."""
    def unit(ctx):
        interp = Interp(repo, ctx, contracts)
        cls = repo.cls(module, cls_name)
        S, Mm, C = ctx.input('plist', 'stack'), ctx.input('plist', 'memory'), ctx.input('pclaims', 'claims')
        out = OutLog()
        # an arbitrary table is represented by a representative of each case: two known names a, b (ids ia != ib < n) and n = |table|;
        # the dictionary object itself is concrete with symbolic keys / values
        known = ctx.choose(3, 'queried name: first known / second known / new')
        na, nb, nq = ctx.input('name', 'known_a'), ctx.input('name', 'known_b'), ctx.input('name', 'query')
        ia, ib = ctx.input('int', 'id_a'), ctx.input('int', 'id_b')
        ctx.assume(z3.And(na.t != nb.t, ia.t != ib.t, ia.t >= 0, ib.t >= 0, ia.t < 2, ib.t < 2))
        table = {na: ia, nb: ib}
        if known == 0:
            ctx.assume(nq.t == na.t)
        elif known == 1:
            ctx.assume(nq.t == nb.t)
        else:
            ctx.assume(z3.And(nq.t != na.t, nq.t != nb.t))
        selfo = Obj(cls, {'phase': 2, '_interpreting_warnings': set(), 'stack': S, 'memory': Mm, 'claims': C, 'out': out,
                          'claim_out': OutLog('c'), 'proof_out': OutLog('p'), '_symbol_identifiers': table})
        f = cls.find_method('symbol')
        ctx.check_feasible()
        ctx.cover('call')
        interp.run_function(f, [selfo, nq])
        emitted = cat_chunks(interp, out.chunks)
        want = ia.t if known == 0 else (ib.t if known == 1 else z3.IntVal(2))
        ctx.oblige('post:emits Symbol <id of the name>', emitted == idl(sm.OPC['Symbol'], want), kind='post')
        t2 = selfo.attrs['_symbol_identifiers']
        ids = list(t2.values())
        ctx.oblige('post:table size', z3.BoolVal(len(t2) == (2 if known < 2 else 3)), kind='post')
        ctx.oblige('post:known names keep their ids', z3.And(interp.as_int(interp.getitem(t2, na)) == ia.t, interp.as_int(interp.getitem(t2, nb)) == ib.t), kind='post')
        ctx.oblige('post:ids stay pairwise distinct and below the table size', z3.And(z3.Distinct(*[interp.as_int(i) for i in ids]) if len(ids) > 1 else True,
                                                                                      *[z3.And(interp.as_int(i) >= 0, interp.as_int(i) < len(ids)) for i in ids]), kind='post')
        top = interp.plist_of(selfo.attrs['stack'])
        ctx.oblige('post:tracker pushes Symbol(name)', top == PTLs.mk('ptcons', PTR.mk('PyPat', P.mk('Symbol', nq.t)), S.t), kind='post')
        return None
    return unit


# ---- replay / bounded stand-in on the real interpreters -----------------------------------------------------------------------------------
SIM_PRELUDE = r"""
import io
from proof_generation.serializing_interpreter import SerializingInterpreter
from proof_generation.interpreter import ExecutionPhase
from proof_generation.proved import Proved
from proof_generation.claim import Claim
def _sim(meth, phase, stack, memory, claims, args):
    out = io.BytesIO(); out.close = lambda: None
    i = SerializingInterpreter(ExecutionPhase(phase), out, [Claim(c) for c in claims], io.BytesIO(), io.BytesIO())
    i.stack = list(stack); i.memory = list(memory)
    try:
        getattr(i, meth)(*args)
    except BaseException as e:
        return ('raise', type(e).__name__)
    return ('ok', list(out.getvalue()), i.stack, i.memory, [c.pattern for c in i.claims])
def _simseq(phase, stack, memory, claims, ops):
    # several calls on ONE interpreter (what an earlier call leaves behind must not change a later one)
    out = io.BytesIO(); out.close = lambda: None
    i = SerializingInterpreter(ExecutionPhase(phase), out, [Claim(c) for c in claims], io.BytesIO(), io.BytesIO())
    i.stack = list(stack); i.memory = list(memory)
    try:
        for meth, args in ops:
            getattr(i, meth)(*args)
    except BaseException as e:
        return ('raise', type(e).__name__)
    return ('ok', list(out.getvalue()), i.stack, i.memory, [c.pattern for c in i.claims])
"""


def _term_py(t):
    from vc import replay as rp
    return rp.data_to_py(t[1]) if t[0] == 'PyPat' else f'Proved({rp.data_to_py(t[1])})'


def _ptl(d):
    out = []
    while d[0] == 'ptcons':
        out.append(d[1])
        d = d[2]
    return list(reversed(out))        # python order (first element first)


def _pcl(d):
    out = []
    while d[0] == 'pccons':
        out.append(d[1])
        d = d[2]
    return out


def sim_case_expr(meth, phase, stack, memory, claims, args_py):
    from vc import replay as rp
    return (f"_sim({meth!r}, {PHASE_NO[phase]}, [{', '.join(_term_py(t) for t in stack)}], [{', '.join(_term_py(t) for t in memory)}], "
            f"[{', '.join(rp.data_to_py(c) for c in claims)}], [{', '.join(args_py)}])")


def sim_check_real(meth, phase, stack, memory, claims, real):
    """compare the real outcome with the spec machine run on the expanded state; -> (ok, detail)"""
    from vc import replay as rp, smreplay, norm
    from vc.run import term_to_data
    d = rp.repr_to_data(real['repr']) if real['ok'] else None
    if d is None or d[0] != 'tuple' or d[1] != 'ok':
        return True, 'call not accepted by the tracker'
    emitted = [x for x in d[2][1:]]
    def ex(t):
        return ('Pat' if t[0] == 'PyPat' else 'Prf', term_to_data(norm.ceval(expand(rp.data_to_term(t[1], 'ppat')))))
    def exv(v):   # value parsed from the real repr
        if isinstance(v, tuple) and v[0] == 'obj' and v[1] == 'Proved':
            return ('Prf', term_to_data(norm.ceval(expand(rp.data_to_term(v[2]['conclusion'], 'ppat')))))
        return ('Pat', term_to_data(norm.ceval(expand(rp.data_to_term(v, 'ppat')))))
    S0 = [ex(t) for t in reversed(stack)]       # machine stack: top first
    M0 = [ex(t) for t in memory]
    C0 = [term_to_data(norm.ceval(expand(rp.data_to_term(c, 'ppat')))) for c in claims] if phase == 'Proof' else []
    exp = smreplay.sm_run(phase, emitted, S0, M0, C0)
    S2 = [exv(v) for v in reversed(d[3][1:])]
    M2 = [exv(v) for v in d[4][1:]]
    if exp is None:
        return False, f'machine rejects the emitted bytes {emitted}'
    if meth in NOT_POPPED:
        S2 = S2[1:]
    if list(exp[0]) != S2:
        return False, f'stack: machine {exp[0]} tracker {S2} (bytes {emitted})'
    if list(exp[1]) != M2:
        return False, f'memory: machine {exp[1]} tracker {M2} (bytes {emitted})'
    return True, 'agree'


def sim_bounded(meth, phase, root, tier, seed):
    """small concrete tracker states and arguments through the REAL interpreter method vs the concretely evaluated spec machine"""
    import random
    from vc import replay as rp
    rng = random.Random(seed)
    nilI = ('inil',)
    mv = lambda i: ('PMetaVar', i, nilI, nilI, nilI, nilI, nilI)
    pats = [('PEVar', 0), ('PSymbol', 1), ('PImplies', mv(0), mv(1)), mv(0), mv(1), ('PImplies', ('PEVar', 0), ('PEVar', 0)), ('PExists', 0, ('PEVar', 0))]
    maps = [[(0, pats[0])], [(1, pats[1]), (0, pats[0])], [(0, pats[0]), (1, pats[1])], [(2, pats[5]), (0, pats[1]), (1, pats[0])], []]
    cases = []
    for _ in range(60 if tier == 'quick' else 600):
        below = [('PyPat' if rng.random() < 0.7 else 'PyPrf', rng.choice(pats)) for _ in range(rng.randint(0, 2))]
        mem = [('PyPat' if rng.random() < 0.5 else 'PyPrf', rng.choice(pats)) for _ in range(rng.randint(0, 3))]
        claims = [rng.choice(pats) for _ in range(rng.randint(0, 2))]
        if meth in ('instantiate', 'instantiate_pattern'):
            m = rng.choice(maps)
            target = rng.choice(pats[2:5])
            top = ('PyPrf', target) if meth == 'instantiate' else ('PyPat', target)
            stack = below + [('PyPat', v) for _, v in m] + [top]
            tgt_py = f'Proved({rp.data_to_py(target)})' if meth == 'instantiate' else rp.data_to_py(target)
            args = [tgt_py, '{' + ', '.join(f'{k}: {rp.data_to_py(v)}' for k, v in m) + '}']
        elif meth in ('save', 'pop'):
            t = (rng.choice(['PyPat', 'PyPrf']), rng.choice(pats))
            stack = below + [t]
            args = (["'id'"] if meth == 'save' else []) + [_term_py(t)]
            if rng.random() < 0.5 and mem:
                mem = mem + [t]
        elif meth == 'load':
            if not mem:
                continue
            t = rng.choice(mem)
            stack = below
            args = ["'id'", _term_py(t)]
            others = [x for x in mem if x != t]
            if others and rng.random() < 0.5:
                # the same label used for two different entries, on one interpreter
                t2 = rng.choice(others)
                ops = f"[('load', ['id', {_term_py(t)}]), ('pop', [{_term_py(t)}]), ('load', ['id', {_term_py(t2)}])]"
                args = ('seq', ops)
        elif meth == 'metavar':
            stack = below
            lists = [tuple(rng.sample([0, 1, 2], rng.randint(0, 2))) for _ in range(5)]
            if rng.random() < 0.4:
                lists = [(), (), (), (), lists[4]]
            args = [str(rng.randint(0, 2))] + ['(' + ''.join(f'{k}({x}), ' for x in l) + ')' for k, l in zip(('EVar', 'SVar', 'SVar', 'SVar', 'EVar'), lists)]
            if set(lists[4]) & set(lists[0]):
                continue
        else:
            return None, 0
        cases.append((stack, mem, claims, args))
    def expr_of(s, m, c, a):
        if isinstance(a, tuple) and a[0] == 'seq':
            return sim_case_expr(meth, phase, s, m, c, []).replace(f'_sim({meth!r}, ', '_simseq(', 1).rsplit(', [', 1)[0] + ', ' + a[1] + ')'
        return sim_case_expr(meth, phase, s, m, c, a)
    jobs = [{'expr': expr_of(s, m, c, a)} for s, m, c, a in cases]
    if not jobs:
        return None, 0
    reals = rp.run_real(jobs, prelude=SIM_PRELUDE, root=root)
    n = 0
    for (s, m, c, a), real, job in zip(cases, reals, jobs):
        n += 1
        try:
            ok, detail = sim_check_real(meth, phase, s, m, c, real)
        except Exception as e:
            continue
        if not ok:
            return {'expr': job['expr'], 'real': real, 'failed_clause': detail}, n
    return None, n
