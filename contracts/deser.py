"""C14 - deserialize_instructions is the inverse of the serialising interpreter, instruction by instruction.

The real loop body of deserialize_instructions is executed once (loop contract, arbitrary tracker state) with the three reader closures
under contract; the closures themselves are verified against those contracts (callee side) from their real bodies.

  ghost stream  S = data[index:]          (abstraction relation; `data` and `index` are touched by maybe_next_byte only: frame check)
  maybe_next_byte():  S = []  -> None, S unchanged;   S = b:S' -> b, S := S'
  next_byte(msg):     S = []  -> raises DeserializingException;   S = b:S' -> b, S := S'
  read_list():        S = n:S', |S'| >= n -> tuple(S'[:n]), S := S'[n:];   otherwise raises DeserializingException

  enc->dec (per serialiser method m, arbitrary accepted call from an arbitrary tracker state T, emitting B):
        one iteration of the loop on B ++ rest from T consumes exactly B, does not raise, re-emits B and ends in the same
        stack / memory / claims (compared up to notation, as python == does).
  dec->enc (per opcode byte, arbitrary stream op:tail, arbitrary tracker state): if the iteration completes, the replayed call
        re-serialises to exactly the consumed bytes; the loop never exits or skips while input remains; unknown opcodes raise."""
import ast
import z3
from vc.sorts import *  # noqa
from vc.spec import *  # noqa
from vc import sm
from vc.speclemmas import LIB as _LIB0, STREAM, ZIPL, MAPL
LIB = dict(_LIB0)
LIB.update(STREAM)
LIB.update({k: v for k, v in MAPL.items() if v is not None})
LIB.update({k: v for k, v in ZIPL.items() if v is not None})
from vc.engine import SV, SymRaise, Unsupported, PathEnd, Infeasible
from vc.pyfe import Interp, Obj, OutLog, LoopContract, _LoopDone, STR_OF_INT
from contracts.interp_sim import METHODS, OPS_OF, PHASE_NO, PHASES_OF, SI, _proved

DFILE = 'generation/src/proof_generation/deserialize.py'
DMOD = 'proof_generation.deserialize'
Q = 'deserialize_instructions'
QM, QN, QR = (f'{Q}.<locals>.{n}' for n in ('maybe_next_byte', 'next_byte', 'read_list'))
NIL = IDL.mk('inil')


def hd(t):
    return IDL.get('icons', 'ihd', t)


def tl(t):
    return IDL.get('icons', 'itl', t)


def idl_cat(xs, t):
    for x in reversed(xs):
        t = IDL.mk('icons', x, t)
    return t


class Stream:
    def __init__(self, t):
        self.t = t


class MNBContract:
    """maybe_next_byte under contract (caller side)"""
    def __init__(self, st):
        self.st = st

    def apply(self, interp, ctx, args, kwargs):
        s = ctx.nz(self.st.t)
        if ctx.branch(IDL.is_('inil', s), 'end of input'):
            return None
        ctx.lemma_fact('il_allbytes_hd', LIB['il_allbytes_hd'].inst(s))
        self.st.t = ctx.nz(tl(s))
        return SV(ctx.nz(hd(s)), 'int')


class NextByteContract(MNBContract):
    def apply(self, interp, ctx, args, kwargs):
        r = MNBContract.apply(self, interp, ctx, args, kwargs)
        if r is None:
            raise SymRaise('DeserializingException', '', 'next_byte')
        return r


class ReadListContract:
    def __init__(self, st):
        self.st = st

    def apply(self, interp, ctx, args, kwargs):
        s = ctx.nz(self.st.t)
        if ctx.branch(IDL.is_('inil', s), 'end of input'):
            raise SymRaise('DeserializingException', '', 'read_list')
        n, rest = ctx.nz(hd(s)), ctx.nz(tl(s))
        for ln, args in (('il_len_nonneg', [rest]), ('il_allbytes_hd', [s]), ('il_allbytes_take', [n, rest]), ('il_take_len', [n, rest]),
                         ('il_drop_zero', [n, rest]), ('il_take_zero', [n, rest]), ('il_take_drop_t', [n, rest])):
            ctx.lemma_fact(ln, LIB[ln].inst(*args))
        if not ctx.branch(il_len(rest) >= n, 'list is complete'):
            raise SymRaise('DeserializingException', '', 'read_list')
        self.st.t = ctx.nz(il_drop(n, rest))
        return SV(ctx.nz(il_take(n, rest)), 'idl', 'int')


class KeysComp:
    """keys = [next_byte(..) for _ in range(n)]   (Instantiate case): the next n bytes of the stream, DeserializingException when fewer remain.
    Verified in place: an arbitrary element i (invariant: i bytes consumed so far) reads exactly the i-th of those bytes."""
    def __init__(self, st):
        self.st = st

    def entry(self, interp, ctx, env, it):
        from vc.pyfe import _SymRange
        if not isinstance(it, _SymRange):
            raise Unsupported('the comprehension does not run over range(n): its contract does not apply')
        self.S1 = self.st.t
        self.n = interp.as_int(it.n)

    def arbitrary_iteration(self, interp, ctx, env, it):
        i = ctx.fresh('int', 'i').t
        ctx.assume(z3.And(i >= 0, i < self.n, i <= il_len(self.S1)))
        self.st.t = il_drop(i, self.S1)
        self.i = i
        for ln, args in (('il_drop_len', [i, self.S1]), ('il_take_step', [i, self.S1]), ('il_nth_drop', [i, self.S1])):
            ctx.lemma_fact(ln, LIB[ln].inst(*args))
        return SV(i, 'int')

    def after_element(self, interp, ctx, env, it, v):
        ctx.oblige('comp-inv:the element produced is the next byte of the stream', interp.as_int(v) == hd(il_drop(self.i, self.S1)), kind='inv')
        ctx.oblige('comp-inv:the stream advances by one byte per element', z3.And(self.st.t == il_drop(self.i + 1, self.S1), self.i + 1 <= il_len(self.S1)), kind='inv')

    def exit_value(self, interp, ctx, env, it):
        ctx.assume(z3.And(self.n >= 0, il_len(self.S1) >= self.n))
        self.st.t = ctx.nz(il_drop(self.n, self.S1))
        for ln, args in (('il_take_len', [self.n, self.S1]), ('il_allbytes_take', [self.n, self.S1])):
            ctx.lemma_fact(ln, LIB[ln].inst(*args))
        return SV(ctx.nz(il_take(self.n, self.S1)), 'intlist')

    def early_stop(self, interp, ctx, env, it):
        ctx.assume(z3.And(self.n >= 0, il_len(self.S1) < self.n))
        ctx.check_feasible()
        raise SymRaise('DeserializingException', '', 'next_byte')


def stream_contracts(cs, st):
    d = dict(cs)
    d[QM] = MNBContract(st)
    d[QN] = NextByteContract(st)
    d[QR] = ReadListContract(st)
    return d


# ---- frame: data / index are read and written by maybe_next_byte only --------------------------------------------------------------------
def frame_unit(repo):
    def unit(ctx):
        f = repo.module(DMOD).static[Q]
        bad = []
        for st in f.node.body:
            if isinstance(st, ast.FunctionDef) and st.name == 'maybe_next_byte':
                continue
            if isinstance(st, ast.Assign) and len(st.targets) == 1 and isinstance(st.targets[0], ast.Name) and st.targets[0].id == 'index' \
                    and isinstance(st.value, ast.Constant) and st.value.value == 0:
                continue
            for n in ast.walk(st):
                if isinstance(n, ast.Name) and n.id in ('data', 'index'):
                    bad.append(f'line {n.lineno}: {n.id}')
                if isinstance(n, (ast.Nonlocal, ast.Global)) and ('index' in n.names or 'data' in n.names):
                    bad.append(f'line {n.lineno}: nonlocal')
        ctx.cover('frame')
        ctx.oblige('frame:`data` and `index` are used by maybe_next_byte only (so the loop depends on data[index:] alone): ' + '; '.join(bad),
                   z3.BoolVal(not bad), kind='post')
        return None
    return unit


# ---- callee side: the three closures ------------------------------------------------------------------------------------------------------
class ClosureLoop(LoopContract):
    """reaching the main loop, the closures exist in the function's environment: verify one of them there and stop"""
    def __init__(self, which, cs):
        self.which = which
        self.cs = cs

    def entry(self, interp, ctx, env, it):
        getattr(self, 'v_' + self.which)(interp, ctx, env)
        raise _LoopDone()

    def v_maybe_next_byte(self, interp, ctx, env):
        D, i = ctx.input('idl', 'data'), ctx.input('int', 'index')
        ctx.assume(z3.And(i.t >= 0, i.t <= il_len(D.t), il_allbytes(D.t)))
        env.vars['data'] = SV(D.t, 'bytes')
        env.vars['index'] = i
        S0 = il_drop(i.t, D.t)
        ctx.cover('call')
        r = interp.run_function(env.get('maybe_next_byte'), [])
        i2 = interp.as_int(env.get('index'))
        if r is None:
            ctx.oblige('post:None is returned only at the end of the input', IDL.is_('inil', S0), kind='post')
            ctx.oblige('post:index unchanged at the end of the input', i2 == i.t, kind='post')
        else:
            ctx.oblige('post:input not exhausted', IDL.is_('icons', S0), kind='post')
            ctx.oblige('post:returns the next byte', interp.as_int(r) == hd(S0), kind='post')
            ctx.oblige('post:advances by one byte', z3.And(i2 == i.t + 1, il_drop(i2, D.t) == tl(S0), i2 <= il_len(D.t)), kind='post')

    def v_next_byte(self, interp, ctx, env):
        S0 = ctx.input('idl', 'stream')
        st = Stream(S0.t)
        interp.contracts = dict(interp.contracts)
        interp.contracts[QM] = MNBContract(st)
        ctx.cover('call')
        try:
            r = interp.run_function(env.get('next_byte'), ['msg'])
        except SymRaise as e:
            ctx.oblige('post:raises only at the end of the input', IDL.is_('inil', S0.t), kind='post')
            ctx.oblige('post:the error is a DeserializingException', z3.BoolVal(e.cls == 'DeserializingException'), kind='post')
            return
        ctx.oblige('post:returns the next byte', z3.And(IDL.is_('icons', S0.t), interp.as_int(r) == hd(S0.t)), kind='post')
        ctx.oblige('post:advances by one byte', st.t == tl(S0.t), kind='post')

    def v_read_list(self, interp, ctx, env):
        S0 = ctx.input('idl', 'stream')
        ctx.assume(il_allbytes(S0.t))
        st = Stream(S0.t)
        interp.contracts = dict(interp.contracts)
        interp.contracts[QN] = NextByteContract(st)
        interp.contracts[QM] = MNBContract(st)
        interp.loop_contracts = dict(interp.loop_contracts)
        rl = ReadListLoop(st)
        interp.loop_contracts[(QR, 0)] = rl
        ctx.cover('call')
        try:
            r = interp.run_function(env.get('read_list'), [])
        except SymRaise as e:
            ctx.lemma_fact('il_len_nonneg', LIB['il_len_nonneg'].inst(S0.t))
            bad = z3.Or(IDL.is_('inil', S0.t), il_len(tl(S0.t)) < hd(S0.t))
            ctx.oblige('post:raises only when the length byte or an element is missing', bad, kind='post')
            ctx.oblige('post:the error is a DeserializingException', z3.BoolVal(e.cls == 'DeserializingException'), kind='post')
            return
        n, rest = hd(S0.t), tl(S0.t)
        if not (isinstance(r, SV) and r.kind in ('idl', 'intlist')):
            raise Unsupported(f'read_list returned {r!r}')
        ctx.oblige('post:the whole list was available', z3.And(IDL.is_('icons', S0.t), il_len(rest) >= n), kind='post')
        ctx.oblige('post:returns the n bytes after the length byte', r.t == il_take(n, rest), kind='post')
        ctx.oblige('post:advances past the list', st.t == il_drop(n, rest), kind='post')


class ReadListLoop(LoopContract):
    """for i in range(length):  invariant  0 <= i <= length, i <= |S'|, res == S'[:i], stream == S'[i:]   (S' = stream after the length byte)"""
    def __init__(self, st):
        self.st = st

    def entry(self, interp, ctx, env, it):
        from vc.pyfe import _SymRange
        if not (isinstance(it, _SymRange) and interp.as_int(it.n).eq(interp.as_int(env.get('length')))):
            raise Unsupported('the loop is not `for .. in range(length)`: the loop contract does not apply')
        self.S1 = self.st.t
        self.n = interp.as_int(env.get('length'))
        res = env.get('res')
        ctx.oblige('loop-entry:res is empty', z3.BoolVal(res == []), kind='inv')

    def inv(self, i):
        return z3.And(i >= 0, i <= self.n, i <= il_len(self.S1))

    def arbitrary_iteration(self, interp, ctx, env, it):
        i = ctx.fresh('int', 'i')
        ctx.assume(z3.And(self.inv(i.t), i.t < self.n))
        env.set('res', SV(il_take(i.t, self.S1), 'intlist'))
        self.st.t = il_drop(i.t, self.S1)
        self.i = i
        self.raised = False
        ctx.lemma_fact('il_drop_len', LIB['il_drop_len'].inst(i.t, self.S1))
        ctx.lemma_fact('il_take_step', LIB['il_take_step'].inst(i.t, self.S1))
        ctx.lemma_fact('il_nth_drop', LIB['il_nth_drop'].inst(i.t, self.S1))
        return i

    def after_iteration(self, interp, ctx, env, it, elem):
        i1 = self.i.t + 1
        res = env.get('res')
        ctx.oblige('loop-inv:bounds', self.inv(i1), kind='inv')
        ctx.oblige('loop-inv:res is the prefix read so far', interp.as_idl(res, 'int') == il_take(i1, self.S1), kind='inv')
        ctx.oblige('loop-inv:stream is the rest', self.st.t == il_drop(i1, self.S1), kind='inv')

    def exit(self, interp, ctx, env, it):
        ctx.assume(il_len(self.S1) >= self.n)
        env.set('res', SV(il_take(self.n, self.S1), 'intlist'))
        self.st.t = il_drop(self.n, self.S1)


def closure_unit(repo, cs, which):
    def unit(ctx):
        interp = Interp(repo, ctx, dict(cs), opts={'loops': {(Q, 0): ClosureLoop(which, cs)}})
        f = repo.module(DMOD).static[Q]
        interp.run_function(f, [SV(NIL, 'bytes'), None])
        return None
    return unit


# ---- one iteration of the main loop --------------------------------------------------------------------------------------------------------
class OneIteration(LoopContract):
    def __init__(self):
        self.ran = False

    def after_iteration(self, interp, ctx, env, it, elem):
        self.ran = True


def mk_tracker(interp, ctx, repo, phase, S, Mm, C, table=None):
    cls = repo.cls(SI, 'SerializingInterpreter')
    out = OutLog()
    return Obj(cls, {'phase': PHASE_NO[phase], '_interpreting_warnings': set(), 'stack': S, 'memory': Mm, 'claims': C, 'out': out,
                     'claim_out': OutLog('claim'), 'proof_out': OutLog('proof'), '_symbol_identifiers': dict(table or {})}), out


def emitted(chunks, tail=NIL):
    t = tail
    for c in reversed(chunks):
        if not (isinstance(c, SV) and c.kind == 'bytes'):
            raise Unsupported(f'non-bytes chunk written: {c!r}')
        t = il_cat(c.t, t)
    return t


def KEYS_COMP_ORDINAL(repo):
    """ordinal (among the comprehensions of deserialize_instructions) of `[next_byte(..) for _ in range(n)]`"""
    f = repo.module(DMOD).static[Q]
    k = 0
    for node in ast.walk(f.node):
        if isinstance(node, (ast.DictComp, ast.ListComp, ast.SetComp, ast.GeneratorExp)):
            if isinstance(node, ast.ListComp) and isinstance(node.elt, ast.Call) and isinstance(node.elt.func, ast.Name) and node.elt.func.id == 'next_byte':
                return k
            k += 1
    return -1


def run_iteration(repo, ctx, cs, obj, st):
    """-> 'ran' | 'exit'; SymRaise propagates"""
    one = OneIteration()
    interp = Interp(repo, ctx, stream_contracts(cs, st), opts={'loops': {(Q, 0): one}, 'comps': {(Q, KEYS_COMP_ORDINAL(repo)): KeysComp(st)}})
    f = repo.module(DMOD).static[Q]
    try:
        interp.run_function(f, [SV(NIL, 'bytes'), obj])
    except _LoopDone:
        if one.ran:
            return 'ran', interp
        raise
    return 'exit', interp


def same_state(ctx, interp, a, b, phase, tag=''):
    ctx.oblige(f'post{tag}:same stack', ex_stack(interp.plist_of(a.attrs['stack'])) == ex_stack(interp.plist_of(b.attrs['stack'])), kind='post')
    ctx.oblige(f'post{tag}:same memory', ex_mem(interp.plist_of(a.attrs['memory'])) == ex_mem(interp.plist_of(b.attrs['memory'])), kind='post')
    ctx.oblige(f'post{tag}:same remaining claims', ex_claims(a.attrs['claims'].t) == ex_claims(b.attrs['claims'].t), kind='post')


def encdec_unit(repo, cs, meth, phase, proved_term=False):
    def unit(ctx):
        interp = Interp(repo, ctx, cs)
        S, Mm, C = ctx.input('plist', 'stack'), ctx.input('plist', 'memory'), ctx.input('pclaims', 'claims')
        ctx.assume(ptl_wf(S.t))
        ctx.assume(ptl_wf(Mm.t))
        table = None
        if meth == 'symbol':
            nq, iq = ctx.input('name', 'name'), ctx.input('int', 'id')
            table = {nq: iq}
            args = [nq]
        else:
            args = METHODS[meth](interp, ctx)
            if proved_term:
                args[-1] = _proved(interp, ctx, 'term')
        o1, out1 = mk_tracker(interp, ctx, repo, phase, S, Mm, C, table)
        ctx.check_feasible()
        ctx.cover('call')
        interp.run_function(o1.cls.find_method(meth), [o1] + args)        # not accepted by the serialiser: nothing to replay
        rest = ctx.input('idl', 'rest')
        if meth in ('instantiate', 'instantiate_pattern'):
            # facts about the map just serialised (instances of proved lemmas): its reversed keys / values as the machine-side lists
            from vc.speclemmas import mz
            m_ = args[1].t
            M_ = expandmap(m_)
            below = PTLs.get('ptcons', 'pttl', S.t)
            seg = ptl_lastn(below, pm_len(m_))
            for ln, a_ in (('mz_rev', [M_]), ('pm_values_tllen', [m_]), ('pm_values_pats', [m_]), ('pm_values_allpat', [m_]), ('mkeys_rev_distinct', [M_]), ('mkeys_rev_len', [M_]),
                           ('pm_len_m', [m_]), ('pm_keys_rev_m', [m_]), ('mlen_nonneg', [M_]), ('ex_stack_len', [seg]), ('ex_stack_lastn', [below, pm_len(m_)]),
                           ('pmz_expand', [mkeys_rev(M_), seg]), ('pmz_len', [mkeys_rev(M_), seg]), ('pmz_keys', [mkeys_rev(M_), seg]), ('pmz_values', [mkeys_rev(M_), seg]),
                           ('pmz_wf', [mkeys_rev(M_), seg])):
                if ln in LIB:
                    ctx.lemma_fact(ln, LIB[ln].inst(*a_))
            # a logical truth (congruence), stated so that the length of the accepted plug segment survives the rewriting of its two sides
            a1, b1 = tl_taken(ex_stack(below), mlen(M_)), ex_stack(pm_values(m_))
            ctx.assume(z3.Implies(a1 == b1, z3.And(tl_len(a1) == tl_len(b1), tl_allpat(a1) == tl_allpat(b1), tl_pats(a1) == tl_pats(b1))))
        B1 = emitted(out1.chunks)
        if ctx.branch(IDL.is_('inil', B1), 'nothing emitted'):
            ctx.oblige('post:an accepted call emits an instruction to replay', z3.BoolVal(False), kind='post')
            return None
        st = Stream(ctx.nz(emitted(out1.chunks, rest.t)))
        o2, out2 = mk_tracker(interp, ctx, repo, phase, S, Mm, C)
        try:
            how, it2 = run_iteration(repo, ctx, cs, o2, st)
        except SymRaise as e:
            ctx.oblige(f'noraise:replaying an accepted {meth} call must not fail ({e.cls} at {e.where})', z3.BoolVal(False), kind='noraise')
            return None
        if how == 'exit':
            ctx.oblige('post:the deserialiser stops only at the end of the input', z3.BoolVal(False), kind='post')
            return None
        ctx.oblige('post:exactly the emitted bytes are consumed', st.t == rest.t, kind='post')
        if meth == 'symbol':
            want = PTLs.mk('ptcons', PTR.mk('PyPat', P.mk('Symbol', STR_OF_INT(iq.t))), S.t)
            ctx.oblige('post:pushes Symbol(str(id)) (symbols are renumbered: name |-> str(id), injective by the table invariant of C03/C04)',
                       it2.plist_of(o2.attrs['stack']) == want, kind='post')
            return None
        ctx.oblige('post:the replayed call re-emits the same bytes', emitted(out2.chunks) == B1, kind='post')
        same_state(ctx, it2, o1, o2, phase)
        return None
    return unit


OPERANDS = {'EVar': 1, 'SVar': 1, 'Symbol': 1, 'Exists': 1, 'Mu': 1, 'ESubst': 1, 'SSubst': 1, 'CleanMetaVar': 1, 'Load': 1, 'Generalization': 1,
            'Implies': 0, 'App': 0, 'Prop1': 0, 'Prop2': 0, 'Prop3': 0, 'Quantifier': 0, 'ModusPonens': 0, 'Pop': 0, 'Save': 0, 'Publish': 0}
TYPED = {'Implies': 2, 'App': 2, 'Exists': 1, 'Mu': 1, 'ESubst': 2, 'SSubst': 2}
EMITTABLE = sorted({o for v in OPS_OF.values() for o in v})


def decenc_unit(repo, cs, op, phase):
    """op: an opcode name of sm.OPC, or 'other' (a byte that is no opcode, 0 included)"""
    def unit(ctx):
        interp = Interp(repo, ctx, cs)
        S, Mm, C = ctx.input('plist', 'stack'), ctx.input('plist', 'memory'), ctx.input('pclaims', 'claims')
        ctx.assume(ptl_wf(S.t))
        ctx.assume(ptl_wf(Mm.t))
        tail = ctx.input('idl', 'tail')
        ctx.assume(il_allbytes(tail.t))
        if op == 'other':
            b = ctx.input('int', 'opcode')
            ctx.assume(z3.And(b.t >= 0, b.t <= 255, *[b.t != v for v in sm.OPC.values()]))
            first = b.t
        else:
            first = sm.OPC[op]
        # operands of pattern constructors are Patterns (python builds a malformed term from a Proved without complaint; such streams are
        # neither truncated nor unknown and the serialiser cannot emit them: out of the property's scope, stated as a precondition)
        cur = S.t
        for _ in range(TYPED.get(op, 0)):
            ctx.assume(z3.Implies(PTLs.is_('ptcons', cur), PTR.is_('PyPat', PTLs.get('ptcons', 'pthd', cur))))
            cur = PTLs.get('ptcons', 'pttl', cur)
        if op == 'Instantiate':
            # a python dict has pairwise distinct keys: streams the serialiser can emit list each metavariable id once (stated as a precondition)
            from vc.speclemmas import il_distinct
            nk = hd(tail.t)
            ctx.assume(z3.Implies(z3.And(IDL.is_('icons', tail.t), il_len(tl(tail.t)) >= nk), il_distinct(il_take(nk, tl(tail.t)))))
        S0 = IDL.mk('icons', first, tail.t)
        st = Stream(S0)
        o2, out2 = mk_tracker(interp, ctx, repo, phase, S, Mm, C)
        ctx.check_feasible()
        ctx.cover('call')
        try:
            how, it2 = run_iteration(repo, ctx, cs, o2, st)
        except SymRaise:
            return None                              # reported as an error
        if how == 'exit':
            ctx.oblige('post:the deserialiser stops only at the end of the input (unknown or zero bytes are errors, not an end marker)',
                       z3.BoolVal(False), kind='post')
            return None
        ctx.oblige('post:only instructions the serialiser can emit are replayed', z3.BoolVal(op in EMITTABLE), kind='post')
        if op == 'Symbol':
            ctx.oblige('post:one operand byte is consumed', st.t == tl(tail.t), kind='post')
            return None
        if op == 'Load':
            # the serialiser names a memory slot by the FIRST equal entry, so a Load of a later duplicate re-serialises to the earlier index:
            # the machine step is the same (the loaded terms are equal); what must hold is that exactly the slot named by the operand is pushed
            i = hd(tail.t)
            ctx.oblige('post:one operand byte is consumed', st.t == tl(tail.t), kind='post')
            ctx.oblige('post:pushes the memory entry named by the operand',
                       ex_stack(it2.plist_of(o2.attrs['stack'])) == TLs.mk('tcons', tl_nth(ex_mem(Mm.t), i), ex_stack(S.t)), kind='post')
            return None
        B2 = emitted(out2.chunks, st.t)
        if op == 'MetaVar' and ctx.branch(hd(B2) == sm.OPC['CleanMetaVar'], 're-serialised as CleanMetaVar'):
            # [MetaVar id 0 0 0 0 0] is the long form of [CleanMetaVar id] (same machine step); the serialiser only emits the short one
            i = hd(tail.t)
            ctx.oblige('post:only a MetaVar with five empty lists re-serialises to CleanMetaVar',
                       z3.And(S0 == idl_cat([sm.OPC['MetaVar'], i, 0, 0, 0, 0, 0], st.t), B2 == idl_cat([sm.OPC['CleanMetaVar'], i], st.t)), kind='post')
            return None
        ctx.oblige('post:the replayed call re-serialises to exactly the bytes consumed (decode then encode is the identity)', B2 == S0, kind='post')
        return None
    return unit



# ---- bounded stand-in on the real code (Instantiate case, and any unit the front end cannot execute) --------------------------------------
BOUNDED_PRELUDE = r"""
import io, random
from proof_generation.serializing_interpreter import SerializingInterpreter
from proof_generation.interpreter import ExecutionPhase
from proof_generation.deserialize import deserialize_instructions
from proof_generation.proved import Proved
from proof_generation.claim import Claim
from proof_generation.pattern import *

def _mk(phase, claims):
    return SerializingInterpreter(ExecutionPhase(phase), io.BytesIO(), [Claim(c) for c in claims], io.BytesIO(), io.BytesIO())

def _rand_pat(rng, d=2):
    k = rng.randint(0, 9 if d > 0 else 3)
    if k == 0: return EVar(rng.randint(0, 2))
    if k == 1: return SVar(rng.randint(0, 2))
    if k == 2: return Symbol('s%d' % rng.randint(0, 2))
    if k == 3:
        c = rng.random()
        if c < 0.5: return MetaVar(rng.randint(0, 2))
        return MetaVar(rng.randint(0, 2), e_fresh=tuple(EVar(i) for i in rng.sample(range(3), rng.randint(0, 2))),
                       s_fresh=tuple(SVar(i) for i in rng.sample(range(3), rng.randint(0, 1))),
                       positive=tuple(SVar(i) for i in rng.sample(range(3), rng.randint(0, 1))),
                       negative=tuple(SVar(i) for i in rng.sample(range(3), rng.randint(0, 1))),
                       app_ctx_holes=tuple(EVar(i) for i in rng.sample(range(3, 5), rng.randint(0, 2))))
    if k in (4, 5): return Implies(_rand_pat(rng, d - 1), _rand_pat(rng, d - 1))
    if k == 6: return App(_rand_pat(rng, d - 1), _rand_pat(rng, d - 1))
    if k == 7: return Exists(rng.randint(0, 2), _rand_pat(rng, d - 1))
    if k == 8: return Mu(rng.randint(0, 2), SVar(rng.randint(0, 2)))
    if rng.random() < 0.5:
        return SSubst(MetaVar(rng.randint(0, 2)), SVar(rng.randint(0, 2)), _rand_pat(rng, d - 1))
    return ESubst(MetaVar(rng.randint(0, 2)), EVar(rng.randint(0, 2)), _rand_pat(rng, d - 1))

def _script(rng, s, focus):
    # a random accepted call sequence on the real serialiser (calls that the tracker rejects are skipped)
    for _ in range(rng.randint(1, 6)):
        k = rng.randint(0, 9)
        try:
            if k <= 1 or focus == 'pattern':
                s.pattern(_rand_pat(rng))
            elif k == 2:
                p = rng.choice([s.prop1, s.prop2, s.prop3, s.exists_quantifier])()
                delta = {i: _rand_pat(rng, 1) for i in rng.sample(range(3), rng.randint(1, 3))}
                s.pop(s.stack[-1])
                for v in delta.values(): s.pattern(v)
                p = rng.choice([s.prop1, s.prop2, s.prop3])()
                s.instantiate(p, delta)
            elif k == 3:
                pat = s.pattern(_rand_pat(rng, 1))
                delta = {i: _rand_pat(rng, 1) for i in rng.sample(range(3), rng.randint(1, 3))}
                s.pop(pat)
                for v in delta.values(): s.pattern(v)
                pat = s.pattern(pat)
                s.instantiate_pattern(pat, delta)
            elif k == 4 and s.stack:
                s.save('x', s.stack[-1])
            elif k == 5 and s.memory:
                t = rng.choice(s.memory); s.load('x', t)
            elif k == 6 and s.stack:
                s.pop(s.stack[-1])
            elif k == 7:
                s.prop1()
            elif k == 8:
                p = s.exists_quantifier()
                s.exists_generalization(p, EVar(0))
            elif k == 9:
                if s.phase == ExecutionPhase.Gamma:
                    s.publish_axiom(s.pattern(_rand_pat(rng, 1)))
                elif s.phase == ExecutionPhase.Claim:
                    s.publish_claim(s.pattern(_rand_pat(rng, 1)))
                elif s.claims:
                    # the next open claim is the FIRST of the list; the claims are pairwise different, so the order matters
                    want = s.claims[0].pattern
                    s.publish_proof(s.prop1() if want == _P1 else (s.prop2() if want == _P2 else s.prop3()))
        except AssertionError:
            pass

def _ren(x, tab):
    # symbols up to renumbering: name |-> str(id in the serialiser's table)
    import dataclasses
    if isinstance(x, Symbol):
        return Symbol(str(tab[x.name]))
    if isinstance(x, Proved):
        return Proved(_ren(x.conclusion, tab))
    if isinstance(x, (tuple, list)):
        return type(x)(_ren(y, tab) for y in x)
    if isinstance(x, dict) or type(x).__name__ == 'frozendict':
        return type(x)({k: _ren(v, tab) for k, v in x.items()})
    if dataclasses.is_dataclass(x) and not isinstance(x, type):
        return dataclasses.replace(x, **{f.name: _ren(getattr(x, f.name), tab) for f in dataclasses.fields(x) if f.init})
    return x

_P1 = Implies(MetaVar(0), Implies(MetaVar(1), MetaVar(0)))
_P2 = Implies(Implies(MetaVar(0), Implies(MetaVar(1), MetaVar(2))), Implies(Implies(MetaVar(0), MetaVar(1)), Implies(MetaVar(0), MetaVar(2))))
_P3 = Implies(Implies(Implies(MetaVar(0), bot()), bot()), MetaVar(0))

def _c14_bounded(seed, n, focus):
    rng = random.Random(seed)
    done = 0
    for case in range(n):
        phase = rng.choice([0, 1, 2])
        claims = [_P1, _P2, _P3][:rng.randint(0, 3)]
        if rng.random() < 0.3: claims.reverse()
        s = _mk(phase, claims)
        st = rng.getstate()
        try:
            _script(rng, s, focus)
        except Exception as e:
            continue
        data = s.out.getvalue()
        if not data:
            continue
        done += 1
        d = _mk(phase, claims)
        try:
            deserialize_instructions(data, d)
        except BaseException as e:
            return ('fail', 'replay of serialised bytes raises %s' % type(e).__name__, list(data), done)
        tab = s._symbol_identifiers
        if not (d.stack == _ren(s.stack, tab) and d.memory == _ren(s.memory, tab) and d.claims == s.claims and d.out.getvalue() == data):
            return ('fail', 'replayed state differs', list(data), done)
        # truncation inside the stream: every proper prefix that cuts an instruction must raise; a prefix at an instruction boundary must not
        bounds = _boundaries(data)
        for cut in range(1, len(data)):
            d2 = _mk(phase, claims)
            try:
                deserialize_instructions(data[:cut], d2); ok = True
            except BaseException:
                ok = False
            if cut not in bounds and ok:
                return ('fail', 'truncated input accepted (cut at %d)' % cut, list(data), done)
            if cut in bounds and not ok:
                return ('fail', 'prefix at an instruction boundary rejected (cut at %d)' % cut, list(data), done)
        # an unknown / zero opcode spliced in at an instruction boundary must raise
        for bad in (0, 0x77):
            cut = rng.choice(sorted(bounds | {0}))
            d3 = _mk(phase, claims)
            try:
                deserialize_instructions(data[:cut] + bytes([bad]) + data[cut:], d3)
                return ('fail', 'unknown opcode %d accepted at %d' % (bad, cut), list(data), done)
            except BaseException:
                pass
    return ('ok', done)

def _boundaries(data):
    # instruction boundaries by the documented operand layout (docs/proof-language.md)
    one = {2, 3, 4, 7, 8, 10, 11, 22, 29, 0x89}
    out = set(); i = 0
    while i < len(data):
        b = data[i]
        if b in one: i += 2
        elif b == 9:
            i += 2
            for _ in range(5):
                i += 1 + data[i]
        elif b == 26: i += 2 + data[i + 1]
        else: i += 1
        out.add(i)
    return out
"""


def deser_bounded(unit_name, root, tier, seed):
    from vc import replay as rp
    n = 150 if tier == 'quick' else 1500
    focus = 'pattern' if 'read_list' in unit_name else 'any'
    jobs = [{'expr': f'_c14_bounded({seed}, {n}, {focus!r})'}]
    real = rp.run_real(jobs, prelude=BOUNDED_PRELUDE, root=root)[0]
    rp.check_driver(real)
    if not real['ok']:
        return {'expr': jobs[0]['expr'], 'real': real, 'failed_clause': 'bounded driver raised: ' + str(real.get('exc'))}, 0
    d = rp.repr_to_data(real['repr'])
    if d[0] == 'tuple' and d[1] == 'ok':
        return None, d[2]
    return {'expr': jobs[0]['expr'], 'real': real, 'failed_clause': str(d[2]) + ' bytes=' + str(d[3])}, (d[4] if len(d) > 4 else 0)
