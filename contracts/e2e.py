"""C02 end-to-end bounded stand-in: modules serialised by the real toolkit (both optimise settings) are run through the REAL checker
(rust/src/lib.rs verify(), compiled on every run into the replay harness)."""
import json
import os
import subprocess
from vc import replay as rp
from vc.rsreal import RustReal

GEN = r"""
import io, random, json, sys
from proof_generation.serializing_interpreter import SerializingInterpreter
from proof_generation.counting_interpreter import CountingInterpreter
from proof_generation.optimizing_interpreters import MemoizingInterpreter
from proof_generation.interpreter import ExecutionPhase
from proof_generation.proof import ProofExp
from proof_generation.claim import Claim
from proof_generation.proofs.propositional import Propositional
from proof_generation.pattern import *

def _pat(rng, d=2):
    k = rng.randint(0, 6 if d > 0 else 2)
    if k == 0: return EVar(rng.randint(0, 2))
    if k == 1: return Symbol('s%d' % rng.randint(0, 3))
    if k == 2: return MetaVar(rng.randint(0, 3))
    if k in (3, 4): return Implies(_pat(rng, d - 1), _pat(rng, d - 1))
    if k == 5: return App(_pat(rng, d - 1), _pat(rng, d - 1))
    return Exists(rng.randint(0, 2), _pat(rng, d - 1))

def _expr(rng, prop, d):
    k = rng.randint(0, 8 if d > 0 else 2)
    if k == 0: return prop.prop1()
    if k == 1: return prop.prop2()
    if k == 2: return prop.prop3()
    if k in (3, 4):
        keys = rng.sample(range(4), rng.randint(1, 3))
        rng.shuffle(keys)
        return prop.dynamic_inst(_expr(rng, prop, d - 1), {i: _pat(rng, 1) for i in keys})
    if k == 5: return prop.imp_refl(_pat(rng, 1))
    if k == 6:
        a, b = _pat(rng, 1), _pat(rng, 1)
        return prop.modus_ponens(prop.dynamic_inst(prop.prop1(), {1: b, 0: Implies(a, a)}), prop.imp_refl(a))
    if k == 7: return prop.imp_provable(_pat(rng, 1), _expr(rng, prop, d - 1))
    return prop.imp_transitivity(prop.imp_refl(_pat(rng, 1)), prop.imp_refl(_pat(rng, 1))) if False else prop.top_intro()

def _streams(mod, optimize):
    claims = [Claim(c) for c in mod._claims]
    g, c, p = io.BytesIO(), io.BytesIO(), io.BytesIO()
    for b in (g, c, p): b.close = lambda: None
    s = SerializingInterpreter(ExecutionPhase.Gamma, g, claims, c, p)
    if optimize:
        an = CountingInterpreter(ExecutionPhase.Gamma, claims)
        mod.execute_full(an)
        mod.execute_full(MemoizingInterpreter(s, an.finalize()))
    else:
        mod.execute_full(s)
    return [g.getvalue().hex(), c.getvalue().hex(), p.getvalue().hex()]

def _shipped():
    out = []
    from proof_generation.proofs.small_theory import SmallTheory
    from proof_generation.proofs.substitution import Substitution
    for cls in (Propositional, SmallTheory, Substitution):
        out.append((cls.__name__, cls))
    try:
        from proof_generation.proofs.definedness import Definedness
        out.append(('Definedness', Definedness))
    except Exception:
        pass
    return out

def main(seed, n):
    rng = random.Random(seed)
    cases = []
    for name, cls in _shipped():
        for opt in (False, True):
            try:
                cases.append({'name': name, 'optimize': opt, 'streams': _streams(cls(), opt)})
            except BaseException as e:
                cases.append({'name': name, 'optimize': opt, 'error': type(e).__name__ + ': ' + str(e)[:200]})
    for opt in (False, True):
        # a module that declares a claim it never proves: the toolkit must refuse it (the checker rejects claims left unproved)
        try:
            pe = ProofExp()
            m = ProofExp(claims=[pe.prop1().conc, Implies(MetaVar(0), MetaVar(0))], proof_expressions=[pe.prop1()])
            cases.append({'name': 'module with an unproved claim', 'optimize': opt, 'claims': [str(c) for c in m._claims], 'streams': _streams(m, opt)})
        except BaseException:
            pass
    for i in range(n):
        st = rng.getstate()
        for opt in (False, True):
            r2 = random.Random(); r2.setstate(st)
            prop = Propositional()
            try:
                es = [_expr(r2, prop, 2) for _ in range(r2.randint(1, 3))]
                axioms = [_pat(r2, 1) for _ in range(r2.randint(0, 2))]
                sub = ProofExp(axioms=[_pat(r2, 1) for _ in range(r2.randint(0, 2))])
                m = ProofExp(axioms=axioms, claims=[e.conc for e in es], proof_expressions=es)
                if r2.random() < 0.5: m.import_module(sub)
                if axioms and r2.random() < 0.7:
                    # use an axiom: claim it and prove it by loading it
                    m._claims.append(axioms[0]); m._proof_expressions.append(m.load_axiom(axioms[0]))
                cases.append({'name': 'generated#%d' % i, 'optimize': opt, 'claims': [str(c) for c in m._claims], 'streams': _streams(m, opt)})
            except BaseException as e:
                pass            # refused by the toolkit itself
        rng.random()
    print(json.dumps(cases))

main(int(sys.argv[1]), int(sys.argv[2]))
"""


def e2e_bounded(root, tier, seed):
    """-> (witness or None, evaluated, note)"""
    n = 25 if tier == 'quick' else 300
    env = dict(os.environ)
    env['PYTHONPATH'] = os.path.join(root, 'generation', 'src')
    p = subprocess.run(['/venv/bin/python', '-c', GEN, str(seed), str(n)], capture_output=True, text=True, env=env, timeout=1800, cwd=os.path.join(root, 'generation'))
    if p.returncode != 0:
        return {'failed_clause': 'generator crashed: ' + p.stderr[-600:], 'expr': 'serialise shipped and generated modules'}, 0, ''
    cases = json.loads(p.stdout)
    rr = RustReal(root)
    try:
        runnable = [c for c in cases if 'streams' in c]
        cmds = ['verify ' + ' '.join(s if s else '-' for s in c['streams']) for c in runnable]
        outs = rr.run(cmds, timeout=600) if cmds else []
    finally:
        rr.close()
    for c in cases:
        if 'error' in c:
            return {'failed_clause': f"shipped module {c['name']} (optimize={c['optimize']}) is not serialisable: {c['error']}", 'expr': c['name']}, len(cases), ''
    for c, o in zip(runnable, outs):
        if o[0] != 'OK' or 'ACCEPT' not in o[1]:
            return {'failed_clause': f"the checker rejects the serialisation of {c['name']} (optimize={c['optimize']})", 'expr': c['name'], 'claims': c.get('claims'),
                    'gamma': c['streams'][0], 'claim': c['streams'][1], 'proof': c['streams'][2]}, len(runnable), ''
    return None, len(runnable), ''
