"""C13 contracts: match_single (soundness + completeness against a Skolemised solution RHO), match (loop contract)."""
import z3
from vc.sorts import *  # noqa
from vc.spec import *  # noqa
from vc.contract import Contract, zb, zi, zp, zm, ShapeMismatch
from vc.engine import SV
from vc.pyfe import LoopContract
from .pattern_family import E

RHO = z3.Const('RHO', MMap)     # an arbitrary solution: 'for every rho' (free symbol of every VC that mentions it)


def _ext(a):
    x = a.get('extend')
    if x is None:
        return MMp.mk('mnil')
    return expandmap(zm(x))


def _pre_complete(a):
    ep, ei = E(a['pattern']), E(a['instance'])
    return z3.And(nosubst(ep), covers(ep, RHO), submap(_ext(a), RHO), minst_py(ep, RHO) == ei)


def match_single_contract():
    def req(a):
        out = [('wf(pattern)', pwf(zp(a['pattern']))), ('wf(instance)', pwf(zp(a['instance'])))]
        if a.get('extend') is not None:
            out += [('wf(extend)', pmwf(zm(a['extend']))), ('distinct keys', mdistinct(expandmap(zm(a['extend']))))]
        return out

    def ens(a, r):
        ep, ei = E(a['pattern']), E(a['instance'])
        if r is None:
            return [('complete: None only if no solution', z3.Not(_pre_complete(a)))]
        R = expandmap(zm(r))
        return [('sound: instantiating gives the instance', minst_py(ep, R) == ei),
                ('sound: seed bindings respected', submap(_ext(a), R)),
                ('binds every metavariable of the pattern', covers(ep, R)),
                ('wf(result)', pmwf(zm(r))),
                ('distinct keys', mdistinct(R)),
                ('minimal: contained in every solution', z3.Implies(_pre_complete(a), submap(R, RHO)))]
    return Contract('match_single', [('pattern', 'ppat'), ('instance', 'ppat'), ('extend', 'pmap', None)],
                    ('opt', 'pmap'), requires=req, ensures=ens)


class MatchLoop(LoopContract):
    """for pattern, instance in equations: invariant over an ARBITRARY already-processed equation (p0, i0):
       DONE0 => covers(p0, ret) /\\ minst(p0, ret) == i0, plus wf/distinct of ret."""

    def __init__(self):
        self.p0 = z3.Const('eq0.pattern', PPat)
        self.i0 = z3.Const('eq0.instance', PPat)

    def inv(self, ret, done0):
        R = expandmap(zm(ret))
        return [('wf(ret)', pmwf(zm(ret))), ('distinct(ret)', mdistinct(R)),
                ('processed equations stay solved', z3.Implies(done0, z3.And(covers(expand(self.p0), R),
                                                                             minst_py(expand(self.p0), R) == expand(self.i0))))]

    def entry(self, interp, ctx, env, it):
        for l, c in self.inv(env.get('ret'), z3.BoolVal(False)):
            ctx.oblige('loop-entry:' + l, c, kind='loop')

    def arbitrary_iteration(self, interp, ctx, env, it):
        ret = ctx.fresh('pmap', 'ret')
        env.set('ret', ret)
        self.done0 = z3.Bool(f'done0!{next(ctx.counter)}')
        for l, c in self.inv(ret, self.done0):
            ctx.assume(c)
        ctx.assume(pwf(self.p0))
        ctx.assume(pwf(self.i0))
        p = ctx.fresh('ppat', 'eq.pattern')
        i = ctx.fresh('ppat', 'eq.instance')
        ctx.assume(pwf(p.t))
        ctx.assume(pwf(i.t))
        # the arbitrary equation is either already processed (done0) or the current one (cur0)
        self.cur0 = z3.And(p.t == self.p0, i.t == self.i0)
        return (p, i)

    def after_iteration(self, interp, ctx, env, it, elem):
        for l, c in self.inv(env.get('ret'), z3.Or(self.done0, self.cur0)):
            ctx.oblige('loop-step:' + l, c, kind='loop')

    def exit(self, interp, ctx, env, it):
        ret = ctx.fresh('pmap', 'ret')
        env.set('ret', ret)
        ctx.assume(pwf(self.p0))
        ctx.assume(pwf(self.i0))
        for l, c in self.inv(ret, z3.BoolVal(True)):
            ctx.assume(c)


def match_contract(loop):
    """match(equations): for an arbitrary member (p0, i0) of the list, a non-None result solves it."""
    def ens(a, r):
        if r is None:
            return []
        R = expandmap(zm(r))
        return [('every equation solved (arbitrary member)', minst_py(expand(loop.p0), R) == expand(loop.i0))]
    return Contract('match', [('equations', ('const', 'EQS'))], ('opt', 'pmap'), ensures=ens)
