"""C10 - every derived rule proves exactly its advertised schema.

The schema of a library method is READ FROM ITS DOCSTRING on every run (formula, or premises / dashes / conclusion).  One unit per method:
the real body is executed with symbolic argument patterns and good premise thunks whose conclusions have the premise shapes; calls to OTHER
library methods go through their docstring contracts (caller side: the premises passed must have the required shapes; callee side: that
method's own unit).  Obligations: no construction-time assertion of the DSL fails, and the advertised conclusion (ProofThunk.conc) of the
result is the docstring schema instantiated at the arguments (up to notation, i.e. python ==).  That the thunk then REPLAYS (dynamic
conclusion == conc, no tracker error, only prop1-3 / modus ponens / instantiate / the module's axioms) follows from C08 (G): the result is
built from good thunks by DSL rules only - which this unit also checks (no ProofThunk is constructed by the library code itself)."""
import ast
import re
import z3
from vc.sorts import *  # noqa
from vc.spec import *  # noqa
from vc.engine import SV, SymRaise, Unsupported
from vc.pyfe import Interp, Obj, Builtin
from contracts.interp_sim import _p
from contracts.refine import good_thunk

PROP_MOD = 'proof_generation.proofs.propositional'
TAUT_MOD = 'proof_generation.tautology'
PROP_FILE = 'generation/src/proof_generation/proofs/propositional.py'
TAUT_FILE = 'generation/src/proof_generation/tautology.py'


# ---- docstring schemas --------------------------------------------------------------------------------------------------------------------
class SchemaError(Exception):
    pass


TOK = re.compile(r'\s*(<->|->|\\/|/\\|~|\(|\)|[A-Za-z_][A-Za-z_0-9]*)')


def tokenize(s):
    out, i = [], 0
    s = s.strip()
    while i < len(s):
        m = TOK.match(s, i)
        if not m:
            raise SchemaError(f'cannot tokenise {s[i:]!r}')
        out.append(m.group(1))
        i = m.end()
    return out


def parse_formula(s):
    """-> nested tuples ('var', n) | ('bot',) | ('top',) | ('neg', a) | ('and'|'or'|'imp'|'equiv', a, b);  ~ > /\\ > \\/ > -> (right assoc) > <->"""
    toks = tokenize(s)
    pos = [0]

    def peek():
        return toks[pos[0]] if pos[0] < len(toks) else None

    def eat(t=None):
        x = peek()
        if x is None or (t is not None and x != t):
            raise SchemaError(f'expected {t!r}, got {x!r} in {s!r}')
        pos[0] += 1
        return x

    def atom():
        x = peek()
        if x == '~':
            eat()
            return ('neg', atom())
        if x == '(':
            eat()
            r = equiv()
            eat(')')
            return r
        if x is None or not re.match(r'[A-Za-z_]', x):
            raise SchemaError(f'unexpected {x!r} in {s!r}')
        eat()
        if x in ('bot',):
            return ('bot',)
        if x in ('top', 'T'):
            return ('top',)
        if x == 'neg':
            return ('neg', atom())
        return ('var', x)

    def conj():
        l = atom()
        while peek() == '/\\':
            eat()
            l = ('and', l, atom())
        return l

    def disj():
        l = conj()
        while peek() == '\\/':
            eat()
            l = ('or', l, conj())
        return l

    def imp():
        l = disj()
        if peek() == '->':
            eat()
            return ('imp', l, imp())
        return l

    def equiv():
        l = imp()
        if peek() == '<->':
            eat()
            return ('equiv', l, imp())
        return l
    r = equiv()
    if pos[0] != len(toks):
        raise SchemaError(f'trailing tokens in {s!r}')
    return r


def parse_doc(doc):
    """-> (premises [formula], conclusion formula)"""
    if doc is None:
        raise SchemaError('no docstring')
    doc = doc.split('or, alternatively')[0]
    lines = [l.rstrip() for l in doc.split('\n') if l.strip()]
    if not lines:
        raise SchemaError('empty docstring')
    dash = [i for i, l in enumerate(lines) if re.fullmatch(r'\s*-{3,}\s*', l)]
    if not dash:
        if len(lines) != 1:
            raise SchemaError('prose docstring')
        return [], parse_formula(lines[0])
    d = dash[0]
    prem = []
    for l in lines[:d]:
        for part in re.split(r'\s{2,}', l.strip()):
            if part:
                prem.append(parse_formula(part))
    if len(lines) - d - 1 != 1:
        raise SchemaError('conclusion is not one line')
    return prem, parse_formula(lines[d + 1])


def fvars(f, acc=None):
    acc = [] if acc is None else acc
    if f[0] == 'var':
        if f[1] not in acc:
            acc.append(f[1])
    else:
        for x in f[1:]:
            fvars(x, acc)
    return acc


BOT_M = M.mk('Mu', z3.IntVal(0), M.mk('SVar', z3.IntVal(0)))


def m_neg(a):
    return M.mk('Implies', a, BOT_M)


def build_m(f, b):
    """schema -> notation-free term, variables from binding b"""
    k = f[0]
    if k == 'var':
        return b[f[1]]
    if k == 'bot':
        return BOT_M
    if k == 'top':
        return m_neg(BOT_M)
    if k == 'neg':
        return m_neg(build_m(f[1], b))
    l, r = build_m(f[1], b), build_m(f[2], b)
    if k == 'imp':
        return M.mk('Implies', l, r)
    if k == 'or':
        return M.mk('Implies', m_neg(l), r)
    if k == 'and':
        return m_neg(M.mk('Implies', l, m_neg(r)))
    if k == 'equiv':
        return m_neg(M.mk('Implies', M.mk('Implies', l, r), m_neg(M.mk('Implies', r, l))))
    raise SchemaError(k)


def match_m(f, t, b, conds):
    """destructure term t along schema f: binds unbound variables, collects the shape conditions"""
    k = f[0]
    if k == 'var':
        if f[1] in b:
            conds.append(b[f[1]] == t)
        else:
            b[f[1]] = t
        return
    if k in ('bot', 'top'):
        conds.append(t == build_m(f, b))
        return
    # every connective is an implication at the top
    conds.append(M.is_('Implies', t))
    l, r = M.get('Implies', 'left', t), M.get('Implies', 'right', t)
    if k == 'imp':
        match_m(f[1], l, b, conds)
        match_m(f[2], r, b, conds)
    elif k == 'neg':
        match_m(f[1], l, b, conds)
        conds.append(r == BOT_M)
    elif k == 'or':
        match_m(('neg', f[1]), l, b, conds)
        match_m(f[2], r, b, conds)
    elif k == 'and':
        match_m(('imp', f[1], ('neg', f[2])), l, b, conds)
        conds.append(r == BOT_M)
    elif k == 'equiv':
        match_m(('and', ('imp', f[1], f[2]), ('imp', f[2], f[1])), t, b, conds)
    else:
        raise SchemaError(k)


class LemmaInfo:
    def __init__(self, cls, func):
        self.cls = cls
        self.func = func
        self.name = func.node.name
        a = func.node.args
        self.params = []
        nd = len(a.defaults)
        names = [x.arg for x in a.args[1:]]
        for i, x in enumerate(a.args[1:]):
            ann = ast.unparse(x.annotation) if x.annotation is not None else ''
            self.params.append((x.arg, 'thunk' if 'ProofThunk' in ann else ('pattern' if 'Pattern' in ann else 'other')))
        self.sidecar = func.qualname in SIDE_SCHEMAS
        self.prem, self.concl = parse_doc(SIDE_SCHEMAS.get(func.qualname) or ast.get_docstring(func.node, clean=False))
        thunks = [n for n, k in self.params if k == 'thunk']
        if len(thunks) != len(self.prem):
            raise SchemaError(f'{len(thunks)} thunk parameters, {len(self.prem)} premises')
        if any(k == 'other' for _, k in self.params):
            raise SchemaError('non-pattern parameter')
        pvars = []
        for f in self.prem:
            fvars(f, pvars)
        allv = list(pvars)
        fvars(self.concl, allv)
        rest = [v for v in allv if v not in pvars]
        pats = [n for n, k in self.params if k == 'pattern']
        self.pat_var = {}
        # pattern parameters: by name when a schema variable has that name, otherwise in alphabetical order of the undetermined variables
        unnamed = [p for p in pats if p not in allv]
        free = sorted(v for v in rest if v not in pats)          # pat1, pat2, pat3 <-> a, b, c
        for p in pats:
            if p in allv:
                self.pat_var[p] = p
        if len(unnamed) != len(free):
            if len(unnamed) > len(free):
                raise SchemaError(f'cannot relate parameters {unnamed} to schema variables {free}')
        for p, v in zip(unnamed, free):
            self.pat_var[p] = v
        self.undetermined = [v for v in rest if v not in self.pat_var.values()]
        if self.undetermined:
            raise SchemaError(f'schema variables {self.undetermined} are determined by no argument')


def library(repo):
    """-> {qualname: LemmaInfo}, {qualname: reason} for methods without a usable schema"""
    out, skipped = {}, {}
    for mod, cn in ((PROP_MOD, 'Propositional'), (TAUT_MOD, 'Tautology')):
        cls = repo.cls(mod, cn)
        for st in cls.node.body:
            if isinstance(st, ast.FunctionDef) and not st.name.startswith('__'):
                f = cls.find_method(st.name)
                try:
                    out[f.qualname] = LemmaInfo(cls, f)
                except SchemaError as e:
                    skipped[f.qualname] = str(e)
    return out, skipped


# ---- contracts ----------------------------------------------------------------------------------------------------------------------------
class LemmaContract:
    def __init__(self, repo, info):
        self.repo, self.info = repo, info

    def apply(self, interp, ctx, args, kwargs):
        info = self.info
        a = bind_args(interp, info, args[1:], kwargs)
        b = {}
        for p, v in info.pat_var.items():
            if not interp.is_pat(a[p]):
                raise Unsupported(f'{info.name}: argument {p} is not a pattern')
            b[v] = expand(a[p].t)
        conds = []
        thunks = [n for n, k in info.params if k == 'thunk']
        for n, f in zip(thunks, info.prem):
            t = a[n]
            if not (isinstance(t, Obj) and 'conc' in t.attrs):
                raise Unsupported(f'{info.name}: premise {n} is not a ProofThunk')
            match_m(f, expand(t.attrs['conc'].t), b, conds)
        k = sum(1 for x in interp.call_log if x == '@' + info.name)
        interp.call_log.append('@' + info.name)
        ctx.oblige(f'callpre:{info.name}#{k}:the premises passed have the shapes of the docstring', z3.And(*conds) if conds else z3.BoolVal(True), kind='callpre')
        for c in conds:
            ctx.assume(c)
        r = ctx.fresh('ppat', info.name + '_conc')
        ctx.assume(z3.And(expand(r.t) == build_m(info.concl, b), pwf(r.t)))
        return good_thunk(self.repo, ctx, r, info.name)


def bind_args(interp, info, args, kwargs):
    a = {}
    node = info.func.node.args
    names = [x.arg for x in node.args[1:]]
    defaults = node.defaults
    for i, n in enumerate(names):
        if i < len(args):
            a[n] = args[i]
        elif n in kwargs:
            a[n] = kwargs[n]
        else:
            di = i - (len(names) - len(defaults))
            if di < 0:
                raise SymRaise('TypeError', f'missing argument {n}')
            from vc.pyfe import Env
            a[n] = interp.eval(defaults[di], Env(), info.func.module)
    return a


def lemma_unit(repo, cs, infos, q):
    info = infos[q]

    def unit(ctx):
        contracts = dict(cs)
        contracts['match_single'] = MatchCall()
        for q2, i2 in infos.items():
            if q2 != q:
                contracts[q2] = LemmaContract(repo, i2)
        interp = Interp(repo, ctx, contracts, opts={'skip_post_init': ['Notation']})     # the arity check of shipped notations is C19's class invariant
        me = Obj(info.cls, {'_axioms': AXIOMS_OF(interp, info.cls), '_claims': [], '_submodules': [], '_proof_expressions': [], '_notations': []})
        b, argv = {}, []
        pats = {}
        for n, k in info.params:
            if k == 'pattern':
                pats[n] = _p(ctx, n)
                b[info.pat_var[n]] = expand(pats[n].t)
        for v in sorted({x for f in info.prem for x in fvars(f)}):
            if v not in b:
                mv = ctx.input('mpat', 'schema_' + v)
                b[v] = mv.t
        thunks = iter(info.prem)
        for n, k in info.params:
            if k == 'pattern':
                argv.append(pats[n])
            else:
                f = next(thunks)
                c = ctx.input('ppat', n + '_conc')
                ctx.assume(z3.And(expand(c.t) == build_m(f, b), pwf(c.t)))
                argv.append(good_thunk(repo, ctx, c, n))
        ctx.check_feasible()
        ctx.cover('call')
        made = []
        try:
            T = interp.run_function(info.func, [me] + argv)
        except SymRaise as e:
            ctx.oblige(f'noraise:{info.name} must accept every argument of the advertised shape ({e.cls} at {e.where})', z3.BoolVal(False), kind='noraise')
            return None
        if not (isinstance(T, Obj) and 'conc' in T.attrs):
            ctx.oblige('post:returns a ProofThunk', z3.BoolVal(False), kind='post')
            return None
        ctx.oblige('post:the advertised conclusion is the docstring schema instantiated at the arguments', expand(T.attrs['conc'].t) == build_m(info.concl, b), kind='post')
        return None
    return unit


def AXIOMS_OF(interp, cls):
    """the module's axioms: the list literals its __init__ chain passes as axioms= / extends self._axioms with (evaluated from the source)"""
    from vc.pyfe import Env
    out = []
    for c in reversed(cls.mro()):
        init = c.find_method('__init__') if c.node is not None else None
        if init is None or init.cls is not c:
            continue
        for n in ast.walk(init.node):
            if isinstance(n, ast.Call) and isinstance(n.func, ast.Attribute) and n.func.attr == 'extend' and isinstance(n.func.value, ast.Attribute) and n.func.value.attr == '_axioms':
                out.extend(interp.eval(n.args[0], Env(), c.module))
            if isinstance(n, ast.keyword) and n.arg == 'axioms' and isinstance(n.value, ast.List):
                out.extend(interp.eval(n.value, Env(), c.module))
    return out


def dsl_only_unit(repo):
    """the library builds proofs by DSL rules only: no ProofThunk(...) / Proved(...) is constructed in propositional.py / tautology.py methods"""
    def unit(ctx):
        bad = []
        for mod, cn in ((PROP_MOD, 'Propositional'), (TAUT_MOD, 'Tautology')):
            cls = repo.cls(mod, cn)
            for n in ast.walk(cls.node):
                if isinstance(n, ast.Call) and isinstance(n.func, ast.Name) and n.func.id in ('ProofThunk', 'Proved'):
                    bad.append(f'{cn}: line {n.lineno} constructs {n.func.id} directly')
        ctx.cover('frame')
        ctx.oblige('frame:library proofs are assembled from ProofExp rules and other library methods only: ' + '; '.join(bad), z3.BoolVal(not bad), kind='post')
        return None
    return unit


# ---- bounded stand-in on the real code ------------------------------------------------------------------------------------------------------
LIB_PRELUDE = r"""
import random, inspect
from proof_generation.tautology import Tautology
from proof_generation.proofs.propositional import Propositional
from proof_generation.stateful_interpreter import StatefulInterpreter
from proof_generation.interpreter import ExecutionPhase
from proof_generation.proof import ProofThunk, ProofExp
from proof_generation.proved import Proved
from proof_generation.pattern import *
from proof_generation.pattern import _and, _or

def _pat(rng, d=2):
    k = rng.randint(0, 9 if d > 0 else 3)
    if k == 0: return EVar(rng.randint(0, 2))
    if k == 1: return Symbol('s%d' % rng.randint(0, 2))
    if k == 2:
        if rng.random() < 0.7: return MetaVar(rng.randint(0, 3))
        return MetaVar(rng.randint(0, 3), e_fresh=(EVar(rng.randint(0, 2)),)) if rng.random() < 0.5 else MetaVar(rng.randint(0, 3), positive=(SVar(rng.randint(0, 2)),))
    if k == 3: return bot()
    if k in (4, 5): return Implies(_pat(rng, d - 1), _pat(rng, d - 1))
    if k == 6: return App(_pat(rng, d - 1), _pat(rng, d - 1))
    if k == 7: return Exists(rng.randint(0, 2), _pat(rng, d - 1))
    if k == 8: return neg(_pat(rng, d - 1))
    return _or(_pat(rng, d - 1), _pat(rng, d - 1))

def _build(f, b):
    k = f[0]
    if k == 'var': return b[f[1]]
    if k == 'bot': return bot()
    if k == 'top': return top()
    if k == 'neg': return neg(_build(f[1], b))
    l, r = _build(f[1], b), _build(f[2], b)
    return {'imp': Implies, 'or': _or, 'and': _and, 'equiv': equiv}[k](l, r)

def _c10(seed, n, entries):
    rng = random.Random(seed)
    done = 0
    for case in range(n):
        for name, params, prem, concl, pat_var, allvars in entries:
            mod = Tautology()
            b = {v: _pat(rng) for v in allvars}
            args, premises = [], iter(prem)
            for pn, kind in params:
                if kind == 'pattern':
                    args.append(b[pat_var[pn]])
                else:
                    c = _build(next(premises), b)
                    mod.add_axiom(c)
                    args.append(mod.load_axiom(c))
            try:
                T = getattr(mod, name)(*args)
            except BaseException as e:
                return ('fail', '%s rejects arguments of the advertised shape: %s: %s' % (name, type(e).__name__, str(e)[:120]), repr(b), done)
            want = _build(concl, b)
            if T.conc != want:
                return ('fail', '%s advertises %s, docstring schema gives %s' % (name, T.conc, want), repr(b), done)
            it = StatefulInterpreter(ExecutionPhase.Gamma)
            try:
                for ax in mod._axioms:
                    it.publish_axiom(it.pattern(ax)); it.pop(it.stack[-1])
                it.into_claim_phase(); it.into_proof_phase()
                r = T(it)
            except BaseException as e:
                return ('fail', '%s does not replay: %s: %s' % (name, type(e).__name__, str(e)[:160]), repr(b), done)
            if r.conclusion != want or it.stack != [r]:
                return ('fail', '%s replays to %s (stack %d), advertised %s' % (name, r.conclusion, len(it.stack), want), repr(b), done)
            done += 1
    return ('ok', done)

def _replay(mod, T, want, name, b, done):
    if T.conc != want:
        return ('fail', '%s advertises %s, expected %s' % (name, T.conc, want), repr(b), done)
    it = StatefulInterpreter(ExecutionPhase.Gamma)
    try:
        for ax in mod._axioms:
            it.publish_axiom(it.pattern(ax)); it.pop(it.stack[-1])
        it.into_claim_phase(); it.into_proof_phase()
        r = T(it)
    except BaseException as e:
        return ('fail', '%s does not replay: %s: %s' % (name, type(e).__name__, str(e)[:160]), repr(b), done)
    if r.conclusion != want or it.stack != [r]:
        return ('fail', '%s replays to %s (stack %d), advertised %s' % (name, r.conclusion, len(it.stack), want), repr(b), done)
    return None

def _ax(mod, c):
    mod.add_axiom(c); return mod.load_axiom(c)

def _c10_special(seed, n):
    # entry points without a formula docstring: matching-based rules and the integer-indexed conjunction projection
    rng = random.Random(seed)
    done = 0
    for case in range(n):
        # conjunction_implies_nth: p0 /\ (p1 /\ (... /\ p_{l-1})) -> pn, also when the LAST conjunct is itself a conjunction
        l = rng.randint(1, 4)
        ps = [_pat(rng, 1) for _ in range(l)]
        if rng.random() < 0.5: ps[-1] = _and(_pat(rng, 0), _pat(rng, 0))
        term = ps[-1]
        for p in reversed(ps[:-1]): term = _and(p, term)
        k = rng.randrange(l)
        mod = Tautology()
        try:
            T = mod.conjunction_implies_nth(term, k, l)
        except BaseException as e:
            return ('fail', 'conjunction_implies_nth rejects a conjunction of %d terms: %s' % (l, type(e).__name__), repr((ps, k)), done)
        r = _replay(mod, T, Implies(term, ps[k]), 'conjunction_implies_nth', (ps, k, l), done)
        if r: return r
        done += 1
        # matching-based transitivity: the schematic side is instantiated to the other premise's side (ground sides included)
        for ground in (False, True):
            a, d = _pat(rng, 1), _pat(rng, 1)
            if ground:
                bs, sub = Implies(EVar(1), Symbol('s0')), {}
            else:
                bs, sub = Implies(MetaVar(0), App(MetaVar(1), MetaVar(0))), {0: _pat(rng, 1), 1: _pat(rng, 1)}
            c = bs.instantiate(sub)
            for name, mk, want in (
                ('imp_trans_match1', lambda m: m.imp_trans_match1(_ax(m, Implies(a, bs)), _ax(m, Implies(c, d))), Implies(a.instantiate(sub), d)),
                ('imp_trans_match2', lambda m: m.imp_trans_match2(_ax(m, Implies(a, c)), _ax(m, Implies(bs, d))), Implies(a, d.instantiate(sub))),
                ('equiv_trans_match1', lambda m: m.equiv_trans_match1(_ax(m, equiv(a, bs)), _ax(m, equiv(c, d))), equiv(a.instantiate(sub), d)),
                ('equiv_trans_match2', lambda m: m.equiv_trans_match2(_ax(m, equiv(a, c)), _ax(m, equiv(bs, d))), equiv(a, d.instantiate(sub))),
                ('equiv_match_l', lambda m: m.equiv_match_l(_ax(m, equiv(bs, d)), c), equiv(c, d.instantiate(sub))),
                ('equiv_match_r', lambda m: m.equiv_match_r(_ax(m, equiv(a, bs)), c), equiv(a.instantiate(sub), c))):
                mod = Tautology()
                try:
                    T = mk(mod)
                except BaseException as e:
                    return ('fail', '%s rejects premises whose sides match (ground=%s): %s: %s' % (name, ground, type(e).__name__, str(e)[:100]), repr((a, bs, c, d)), done)
                # only metavariables bound by the match are instantiated
                mv = set(sub)
                wa = want
                r = _replay(mod, T, wa, name, (a, bs, c, d), done) if (a.metavars() | d.metavars()) <= mv or ground else None
                if r: return r
                done += 1
    # prove_tautology as a library entry point: whatever it returns advertises the formula (or its negation) and replays to exactly that;
    # conjunctions of k clauses that are all trivially true exercise the branch that folds per-clause proofs (order matters from k = 3)
    lem = lambda v: _or(v, neg(v))
    triv = [lem(MetaVar(0)), lem(MetaVar(1)), lem(MetaVar(2)), _or(neg(MetaVar(0)), MetaVar(0)), _or(MetaVar(3), _or(neg(MetaVar(3)), MetaVar(1))), lem(MetaVar(3))]
    fams = []
    for k in range(1, 6):
        c = triv[k - 1]
        for x in reversed(triv[:k - 1]): c = _and(x, c)
        fams += [c, neg(c)] if k <= 2 else [neg(c)]      # (the clauses of ~~c are the k trivial clauses; replaying the proof of c itself for k >= 3 takes minutes)
    for f in fams + [Implies(MetaVar(0), MetaVar(0)), neg(Implies(MetaVar(0), MetaVar(0))), _and(MetaVar(0), neg(MetaVar(0)))]:
        mod = Tautology()
        try:
            r = mod.prove_tautology(f)
        except RecursionError:
            continue
        except BaseException as e:
            return ('fail', 'prove_tautology raises %s: %s' % (type(e).__name__, str(e)[:100]), repr(f), done)
        if r is not None:
            goal = f if r[0] else neg(f)
            rr = _replay(mod, r[1], goal, 'prove_tautology', f, done)
            if rr: return rr
        done += 1
    return ('ok', done)
"""


def lib_bounded(repo, infos, names, root, tier, seed):
    from vc import replay as rp
    n = 2 if tier == 'quick' else 12
    entries = []
    for q, i in infos.items():
        if names is not None and i.name not in names:
            continue
        allv = []
        for f in i.prem:
            fvars(f, allv)
        fvars(i.concl, allv)
        entries.append((i.name, i.params, i.prem, i.concl, i.pat_var, allv))
    jobs = [{'expr': f'_c10({seed}, {n}, {entries!r})'}, {'expr': f'_c10_special({seed}, {6 * n})'}]
    total = 0
    for real in rp.run_real(jobs, prelude=LIB_PRELUDE, root=root, timeout=1500):
        rp.check_driver(real)
        if not real['ok']:
            return {'expr': 'library entry points on random arguments', 'real': real, 'failed_clause': 'bounded driver raised: ' + str(real.get('exc'))}, 0
        d = rp.repr_to_data(real['repr'])
        if d[0] == 'tuple' and d[1] == 'ok':
            total += d[2]
            continue
        return {'expr': 'library entry points on random arguments', 'real': real, 'failed_clause': str(d[2]), 'arguments': str(d[3])}, total
    return None, total


# ---- match_single through its C13 contract, with the universally quantified solution instantiated --------------------------------------------
class MatchCall:
    """match_single(definition, instance): the C13 contract (verified in C13) holds for EVERY candidate solution RHO; here RHO is instantiated
    with the solution read off the concrete notation definition, so that a matching instance cannot come back as None"""
    def __init__(self):
        from contracts.matching import match_single_contract, RHO
        self.base = match_single_contract()
        self.RHO = RHO
        self.rhos = []          # further candidate solutions supplied by the unit (the universally quantified RHO is instantiated at each)
        self.last = None

    def apply(self, interp, ctx, args, kwargs):
        from vc import norm
        a = self.base.bind(args, kwargs)
        res = self.base.apply(interp, ctx, args, kwargs)
        pat, inst = a['pattern'], a['instance']
        if interp.is_pat(pat) and interp.is_pat(inst):
            d = norm.ceval(expand(pat.t))
            sol = {}
            _read_solution(d, expand(inst.t), sol)
            rho = MMp.mk('mnil')
            for k in sorted(sol, reverse=True):
                rho = MMp.mk('mcons', z3.IntVal(k), sol[k], rho)
            for label, cond in self.base.ensures(a, res):
                ctx.assume(z3.substitute(cond, (self.RHO, rho)))
        for rho in self.rhos:
            for label, cond in self.base.ensures(a, res):
                ctx.assume(z3.substitute(cond, (self.RHO, rho)))
        self.last = res
        return res


def _read_solution(d, t, sol):
    """d: concrete notation-free definition; t: term to match; binds each metavariable to the sub-term at its first position"""
    c = ctor_of(d)
    if c == 'MetaVar':
        k = z3.simplify(M.get('MetaVar', 'name', d))
        if z3.is_int_value(k) and k.as_long() not in sol:
            sol[k.as_long()] = t
        return
    if c in ('Implies', 'App'):
        _read_solution(z3.simplify(M.get(c, 'left', d)), M.get(c, 'left', t), sol)
        _read_solution(z3.simplify(M.get(c, 'right', d)), M.get(c, 'right', t), sol)
    elif c in ('Exists', 'Mu'):
        _read_solution(z3.simplify(M.get(c, 'subpattern', d)), M.get(c, 'subpattern', t), sol)


# ---- schemas that are not docstrings (sidecar): congruence rules -------------------------------------------------------------------------------
SIDE_SCHEMAS = {
    'Tautology.and_cong': "\n  a <-> b    c <-> d\n-----------------\n  a /\\ c <-> b /\\ d\n",
    'Tautology.or_cong': "\n  a <-> b    c <-> d\n-----------------\n  a \\/ c <-> b \\/ d\n",
    'Propositional.prop1_inst': 'p -> (q -> p)',
    'Propositional.prop2_inst': '(p -> (q -> r)) -> ((p -> q) -> (p -> r))',
    'Propositional.dneg_elim': '~~p -> p',
}


# ---- matching-based rules (prose docstrings): contracts written from the code and the property -------------------------------------------------
def equiv_m(a, b):
    return m_neg(M.mk('Implies', M.mk('Implies', a, b), m_neg(M.mk('Implies', b, a))))


def imp_m(a, b):
    return M.mk('Implies', a, b)


MATCH_RULES = {
    # name: (connective of both premises, which premise is instantiated (1 or 2), number of thunk premises)
    'imp_trans_match1': ('imp', 1), 'imp_trans_match2': ('imp', 2), 'equiv_trans_match1': ('equiv', 1), 'equiv_trans_match2': ('equiv', 2),
    'equiv_match_l': ('equiv', 'l'), 'equiv_match_r': ('equiv', 'r'),
}


def match_rule_unit(repo, cs, infos, name):
    """h1 : a * b,  h2 : c * d  (* = -> or <->), the schematic side is an INSTANCE of the other premise's side (c = b[sigma] resp. b = c[sigma], sigma arbitrary):
    the rule must not fail, and its advertised conclusion is the transitivity conclusion with the instantiated premise instantiated by the matcher R that
    match_single returned (R is characterised by C13: sound, contained in every solution)."""
    conn, which = MATCH_RULES[name]
    mk = imp_m if conn == 'imp' else equiv_m

    def unit(ctx):
        from vc.spec import nosubst, covers
        contracts = dict(cs)
        mc = MatchCall()
        contracts['match_single'] = mc
        for q2, i2 in infos.items():
            contracts[q2] = LemmaContract(repo, i2)
        interp = Interp(repo, ctx, contracts, opts={'skip_post_init': ['Notation']})
        cls = repo.cls(TAUT_MOD, 'Tautology')
        me = Obj(cls, {'_axioms': AXIOMS_OF(interp, cls), '_claims': [], '_submodules': [], '_proof_expressions': [], '_notations': []})
        sig = ctx.input('pmap', 'sigma')
        ctx.assume(z3.And(pmwf(sig.t), mdistinct(expandmap(sig.t))))
        SIG = expandmap(sig.t)
        a, d = ctx.input('mpat', 'a').t, ctx.input('mpat', 'd').t
        schem = ctx.input('mpat', 'schematic_side').t          # the side that gets matched (pattern of match_single)
        ctx.assume(z3.And(nosubst(schem), covers(schem, SIG), mwf(a) if False else z3.BoolVal(True)))
        inst = minst_py(schem, SIG)                             # the other premise's side is an instance of it
        mc.rhos = [SIG]

        def thunk(mterm, tag):
            c = ctx.fresh('ppat', tag + '_conc')
            ctx.assume(z3.And(expand(c.t) == mterm, pwf(c.t)))
            return good_thunk(repo, ctx, c, tag)
        if which == 1:
            args = [thunk(mk(a, schem), 'h1'), thunk(mk(inst, d), 'h2')]
        elif which == 2:
            args = [thunk(mk(a, inst), 'h1'), thunk(mk(schem, d), 'h2')]
        elif which == 'l':
            p = ctx.fresh('ppat', 'p')
            ctx.assume(z3.And(expand(p.t) == inst, pwf(p.t)))
            args = [thunk(mk(schem, d), 'h'), p]
        else:
            p = ctx.fresh('ppat', 'p')
            ctx.assume(z3.And(expand(p.t) == inst, pwf(p.t)))
            args = [thunk(mk(a, schem), 'h'), p]
        ctx.check_feasible()
        ctx.cover('call')
        try:
            T = interp.run_function(cls.find_method(name), [me] + args)
        except SymRaise as e:
            ctx.oblige(f'noraise:{name} must accept premises whose sides match ({e.cls} at {e.where})', z3.BoolVal(False), kind='noraise')
            return None
        if mc.last is None or not (isinstance(T, Obj) and 'conc' in T.attrs):
            ctx.oblige('post:returns a ProofThunk built from the matcher', z3.BoolVal(False), kind='post')
            return None
        R = expandmap(mc.last.t)
        if which == 1:
            want = mk(minst_py(a, R), d)
        elif which == 2:
            want = mk(a, minst_py(d, R))
        elif which == 'l':
            want = mk(inst, minst_py(d, R))
        else:
            want = mk(minst_py(a, R), inst)
        ctx.oblige('post:the schematic side, instantiated by the returned matcher, is the other side', minst_py(schem, R) == inst, kind='post')
        ctx.oblige('post:advertised conclusion = transitivity / the premise, with the schematic premise instantiated by the matcher', expand(T.attrs['conc'].t) == want, kind='post')
        return None
    return unit
