"""Contracts on apply_esubst / apply_ssubst / instantiate_internal of rust/src/lib.rs (C11 rust side, C01)."""
import z3
from vc.sorts import *  # noqa
from vc.spec import *  # noqa
from vc.rscontract import RsContract
from vc.engine import SV


def zp(v):
    from vc.contract import ShapeMismatch
    if isinstance(v, SV) and v.kind == 'mpat':
        return v.t
    raise ShapeMismatch(f'expected Pattern, got {v!r}')


def zi(v):
    if isinstance(v, int) and not isinstance(v, bool):
        return z3.IntVal(v)
    return v.t


def subst_contracts(rsf):
    mce, mcs = mk_mcap(rsf['e_fresh'], rsf['s_fresh'])
    ce = RsContract('apply_esubst', [('pattern', 'mpat'), ('evar_id', 'int'), ('plug', 'mpat')], 'mpat',
                    ensures=lambda a, r: [('spec', zp(r) == msubst_e_rs(zp(a['pattern']), zi(a['evar_id']), zp(a['plug']))),
                                          ('no capture (else it must have panicked)', z3.Not(mce(zp(a['pattern']), zi(a['evar_id']), zp(a['plug']))))],
                    may_panic=True, nopanic_if=lambda a: z3.Not(mce(zp(a['pattern']), zi(a['evar_id']), zp(a['plug']))))
    cs_ = RsContract('apply_ssubst', [('pattern', 'mpat'), ('svar_id', 'int'), ('plug', 'mpat')], 'mpat',
                     ensures=lambda a, r: [('spec', zp(r) == msubst_s_rs(zp(a['pattern']), zi(a['svar_id']), zp(a['plug']))),
                                           ('no capture (else it must have panicked)', z3.Not(mcs(zp(a['pattern']), zi(a['svar_id']), zp(a['plug']))))],
                     may_panic=True, nopanic_if=lambda a: z3.Not(mcs(zp(a['pattern']), zi(a['svar_id']), zp(a['plug']))))
    return {'apply_esubst': ce, 'apply_ssubst': cs_}, (mce, mcs)


def zidl(v):
    return v.t


def zml(v):
    return v.t


def inst_contracts(rsf):
    """-> (contracts dict, hof hook, helpers) for instantiate_internal(p, vars, plugs) -> Option<Rc<Pattern>>."""
    cs, (mce, mcs) = subst_contracts(rsf)
    ok, alls = mk_inst_ok(rsf, mce, mcs)

    def req(a):
        return [('wf(p)', wf_rs(zp(a['p'])))]

    def ens(a, r):
        p, vs, ps = zp(a['p']), zidl(a['vars']), zml(a['plugs'])
        out = [('all constraint checks passed and pending substitutions resolved capture-free', ok(p, vs, ps))]
        if r is None:
            out.append(('None only if no listed metavariable occurs', z3.Not(mv_hit(p, vs))))
        else:
            val = r[1] if isinstance(r, tuple) else r
            out.append(('Some only if a listed metavariable occurs', mv_hit(p, vs)))
            out.append(('result is the simultaneous instance', zp(val) == minst_rs(p, mzip(vs, ps))))
            out.append(('wf(result)', z3.Implies(ml_all_wf(ps), wf_rs(zp(val)))))
        return out
    ci = RsContract('instantiate_internal', [('p', 'mpat'), ('vars', 'idl'), ('plugs', 'mlist')],
                    ('opt', 'mpat', lambda a: mv_hit(zp(a['p']), zidl(a['vars']))), requires=req, ensures=ens,
                    may_panic=True, nopanic_if=lambda a: ok(zp(a['p']), zidl(a['vars']), zml(a['plugs'])))
    cs['instantiate_internal'] = ci
    jname = {rsf[k].uf.name(): k for k in rsf}

    def hof(interp, lst, m, x, c):
        """`ids.into_iter().find(|&v| !plug.J(*v))` / `.any(..)`: first-order meaning through rs_all_J."""
        if m not in ('find', 'any'):
            return NotImplemented
        neg = False
        body = c
        if z3.is_not(body):
            neg = True
            body = body.arg(0)
        if not (z3.is_app(body) and body.decl().name() in jname and body.num_args() == 2 and body.arg(1).eq(x.t)
                and not _occurs(x.t, body.arg(0))):
            # `.any(|hole| e_fresh.contains(hole))`
            if m == 'any' and z3.is_app(body) and body.decl().name() == 'mem' and body.arg(0).eq(x.t) and not neg:
                inter = il_intersects(lst.t, body.arg(1))
                return SV(inter, 'bool')
            return NotImplemented
        allj = alls[jname[body.decl().name()]](lst.t, body.arg(0))
        exists_cond = z3.Not(allj) if neg else None
        if exists_cond is None:
            return NotImplemented
        if m == 'any':
            return SV(exists_cond, 'bool')
        if interp.ctx.branch(exists_cond, 'find: some element violates the judgement'):
            w = interp.ctx.fresh('int', 'witness')
            interp.ctx.assume(mem(w.t, lst.t))
            return ('Some', w)
        return None
    return cs, hof, (ok, alls, mce, mcs)


def _occurs(x, t):
    stack, seen = [t], set()
    while stack:
        e = stack.pop()
        if e.get_id() in seen:
            continue
        seen.add(e.get_id())
        if e.eq(x):
            return True
        if z3.is_app(e):
            stack.extend(e.children())
    return False
