"""Contracts on apply_esubst / apply_ssubst / instantiate_internal of rust/src/lib.rs (C11 rust side, C01)."""
import z3
from vc.sorts import *  # noqa
from vc.spec import *  # noqa
from vc.rscontract import RsContract
from vc.engine import SV


def zp(v):
    from vc.contract import ShapeMismatch
    if isinstance(v, SV) and v.kind == 'mpat':
        return v.t
    raise ShapeMismatch(f'expected Pattern, got {v!r}')


def zi(v):
    if isinstance(v, int) and not isinstance(v, bool):
        return z3.IntVal(v)
    return v.t


def subst_contracts(rsf):
    mce, mcs = mk_mcap(rsf['e_fresh'], rsf['s_fresh'])
    ce = RsContract('apply_esubst', [('pattern', 'mpat'), ('evar_id', 'int'), ('plug', 'mpat')], 'mpat',
                    ensures=lambda a, r: [('spec', zp(r) == msubst_e_rs(zp(a['pattern']), zi(a['evar_id']), zp(a['plug']))),
                                          ('no capture (else it must have panicked)', z3.Not(mce(zp(a['pattern']), zi(a['evar_id']), zp(a['plug']))))],
                    may_panic=True, nopanic_if=lambda a: z3.Not(mce(zp(a['pattern']), zi(a['evar_id']), zp(a['plug']))))
    cs_ = RsContract('apply_ssubst', [('pattern', 'mpat'), ('svar_id', 'int'), ('plug', 'mpat')], 'mpat',
                     ensures=lambda a, r: [('spec', zp(r) == msubst_s_rs(zp(a['pattern']), zi(a['svar_id']), zp(a['plug']))),
                                           ('no capture (else it must have panicked)', z3.Not(mcs(zp(a['pattern']), zi(a['svar_id']), zp(a['plug']))))],
                     may_panic=True, nopanic_if=lambda a: z3.Not(mcs(zp(a['pattern']), zi(a['svar_id']), zp(a['plug']))))
    return {'apply_esubst': ce, 'apply_ssubst': cs_}, (mce, mcs)


def zidl(v):
    return v.t


def zml(v):
    return v.t


def inst_contracts(rsf):
    """-> (contracts dict, hof hook, helpers) for instantiate_internal(p, vars, plugs) -> Option<Rc<Pattern>>."""
    cs, (mce, mcs) = subst_contracts(rsf)
    ok, alls = mk_inst_ok(rsf, mce, mcs)

    def req(a):
        return [('wf(p)', wf_rs(zp(a['p'])))]

    def ens(a, r):
        p, vs, ps = zp(a['p']), zidl(a['vars']), zml(a['plugs'])
        out = [('all constraint checks passed and pending substitutions resolved capture-free', ok(p, vs, ps))]
        if r is None:
            out.append(('None only if no listed metavariable occurs', z3.Not(mv_hit(p, vs))))
        else:
            val = r[1] if isinstance(r, tuple) else r
            out.append(('Some only if a listed metavariable occurs', mv_hit(p, vs)))
            out.append(('result is the simultaneous instance', zp(val) == minst_rs(p, mzip(vs, ps))))
            out.append(('wf(result)', z3.Implies(ml_all_wf(ps), wf_rs(zp(val)))))
        return out
    ci = RsContract('instantiate_internal', [('p', 'mpat'), ('vars', 'idl'), ('plugs', 'mlist')],
                    ('opt', 'mpat', lambda a: mv_hit(zp(a['p']), zidl(a['vars']))), requires=req, ensures=ens,
                    may_panic=True, nopanic_if=lambda a: ok(zp(a['p']), zidl(a['vars']), zml(a['plugs'])))
    cs['instantiate_internal'] = ci
    jname = {rsf[k].uf.name(): k for k in rsf}

    def hof(interp, lst, m, x, c):
        """`ids.into_iter().find(|&v| !plug.J(*v))` / `.any(..)`: first-order meaning through rs_all_J."""
        if m not in ('find', 'any'):
            return NotImplemented
        neg = False
        body = c
        if z3.is_not(body):
            neg = True
            body = body.arg(0)
        if not (z3.is_app(body) and body.decl().name() in jname and body.num_args() == 2 and body.arg(1).eq(x.t)
                and not _occurs(x.t, body.arg(0))):
            # `.any(|hole| e_fresh.contains(hole))`
            if m == 'any' and z3.is_app(body) and body.decl().name() == 'mem' and body.arg(0).eq(x.t) and not neg:
                inter = il_intersects(lst.t, body.arg(1))
                return SV(inter, 'bool')
            return NotImplemented
        allj = alls[jname[body.decl().name()]](lst.t, body.arg(0))
        exists_cond = z3.Not(allj) if neg else None
        if exists_cond is None:
            return NotImplemented
        if m == 'any':
            return SV(exists_cond, 'bool')
        if interp.ctx.branch(exists_cond, 'find: some element violates the judgement'):
            w = interp.ctx.fresh('int', 'witness')
            interp.ctx.assume(mem(w.t, lst.t))
            return ('Some', w)
        return None
    return cs, hof, (ok, alls, mce, mcs)


def _occurs(x, t):
    stack, seen = [t], set()
    while stack:
        e = stack.pop()
        if e.get_id() in seen:
            continue
        seen.add(e.get_id())
        if e.eq(x):
            return True
        if z3.is_app(e):
            stack.extend(e.children())
    return False


# ---- replay of refuted function obligations on the real checker (harness commands esubst / ssubst / inst) ------------------------
def _rn(d, table):
    if isinstance(d, bool):
        return d
    if isinstance(d, int):
        if 0 <= d <= 255 and d not in table.values():
            table.setdefault(d, d)
            return d
        if d not in table:
            n = 200
            while n in table.values():
                n += 1
            table[d] = n
        return table[d]
    if isinstance(d, tuple):
        return (d[0],) + tuple(_rn(x, table) for x in d[1:])
    return d


def _ml(d):
    out = []
    while d[0] == 'lcons':
        out.append(d[1])
        d = d[2]
    return out


def _il(d):
    out = []
    while d[0] == 'icons':
        out.append(d[1])
        d = d[2]
    return out


def rs_fn_replayer(name, model, root):
    from vc.rsreal import RustReal, data_to_tokens, parse_debug
    from vc import sm, norm, replay as rp
    from vc.run import term_to_data
    fn = name.split('/')[2]
    table = {}
    rr = RustReal(root)
    try:
        if fn in ('apply_esubst', 'apply_ssubst'):
            kind = 'e' if fn == 'apply_esubst' else 's'
            p, x, q = _rn(model['pattern'], table), _rn(model['evar_id' if kind == 'e' else 'svar_id'], table), _rn(model['plug'], table)
            cmd = f"{'esubst' if kind == 'e' else 'ssubst'} {data_to_tokens(p)} {x} {data_to_tokens(q)}"
            out = rr.run([cmd])[0]
            pt, qt = rp.data_to_term(p, 'mpat'), rp.data_to_term(q, 'mpat')
            cap = norm.ceval((sm.doc_mcap_e if kind == 'e' else sm.doc_mcap_s)(pt, x, qt))
            exp = term_to_data(norm.ceval((msubst_e_rs if kind == 'e' else msubst_s_rs)(pt, x, qt)))
            rec = {'command': cmd, 'real': list(out), 'spec_capture': str(cap), 'spec_result': repr(exp)}
            if out[0] == 'PANIC':
                bad = not z3.is_true(cap)
            else:
                bad = z3.is_true(cap) or parse_debug(out[1]) != exp
            if bad:
                rec['failed_clause'] = 'real outcome differs from the documented substitution'
            return bad, rec
        if fn == 'instantiate_internal':
            p = _rn(model['p'], table)
            ids = [_rn(i, table) for i in _il(model['vars'])]
            plugs = [_rn(x, table) for x in _ml(model['plugs'])]
            k = min(len(ids), len(plugs))
            if len(ids) != len(plugs):
                return False, {'note': 'model has ids/plugs of different lengths (harness takes equal lengths)'}
            cmd = f"inst {data_to_tokens(p)} {k} {' '.join(map(str, ids))} {' '.join(data_to_tokens(x) for x in plugs)}"
            out = rr.run([cmd])[0]
            pt = rp.data_to_term(p, 'mpat')
            idt = idl(*ids)
            plt = MLs.mk('lnil')
            for x in reversed(plugs):
                plt = MLs.mk('lcons', rp.data_to_term(x, 'mpat'), plt)
            okv = norm.ceval(sm.doc_inst_ok(pt, idt, plt))
            hit = norm.ceval(mv_hit(pt, idt))
            exp = term_to_data(norm.ceval(minst_rs(pt, mzip(idt, plt))))
            rec = {'command': cmd, 'real': list(out), 'spec_ok': str(okv), 'spec_hit': str(hit), 'spec_result': repr(exp)}
            if out[0] == 'PANIC':
                bad = z3.is_true(okv)
            else:
                got = parse_debug(out[1])
                if not z3.is_true(okv):
                    bad = True
                elif got is None:
                    bad = z3.is_true(hit)
                else:
                    bad = (not z3.is_true(hit)) or got[1] != exp
            if bad:
                rec['failed_clause'] = 'real outcome differs from the documented instantiation'
            return bad, rec
    finally:
        rr.close()
    return False, {'note': 'no replayer'}
