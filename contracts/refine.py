"""C08 - a proof means the same under every interpreter.

 (T) transformers: every method of InterpreterTransformer (inherited by MemoizingInterpreter / InstantiationOptimizer) forwards to the wrapped
     interpreter exactly once, same arguments in the same positions, and returns what the wrapped interpreter returns; the two overrides
     of InstantiationOptimizer return BasicInterpreter's result and forward exactly when the map is non-empty (MemoizingInterpreter.pattern:
     C03 unit, re-run here).
 (R) the stack-tracking family refines the conclusion-only interpreter: an accepted call of SerializingInterpreter.m / CountingInterpreter.m
     (real super() chain through StatefulInterpreter) returns exactly what BasicInterpreter.m returns on the same arguments.
 (G) the DSL keeps thunks 'good': for each rule of ProofExp, given argument thunks that are good (on any interpreter they return
     Proved(c) with c == their advertised conclusion, and on a stack-tracking interpreter they leave exactly that Proved on top), the thunk the
     rule builds is good again: run on an ARBITRARY tracker state no tracker assertion fires, the ProofThunk check passes, the advertised
     conclusion comes back and the stack grows by exactly that Proved.  By induction over the proof expression, (G) + (R) + (T) give: every
     interpreter stack accepts the expression and returns the advertised conclusion (failures inside BasicInterpreter's own checks occur
     identically in all of them, since all call that code)."""
import z3
from vc.sorts import *  # noqa
from vc.spec import *  # noqa
from vc.engine import SV, SymRaise, Unsupported, PathEnd
from vc.pyfe import Interp, Obj, OutLog, Builtin, SymDict
from contracts.interp_sim import METHODS, PHASE_NO, PHASES_OF, SI, _proved, _p, _map
from contracts.publish import PatternIH, tracker_of
from vc.pyfe import LoopContract, _MapView
from vc.speclemmas import LIB as _LIB0, STREAM, PUBL, MAPL, pushall, msuffix
LIBX = dict(_LIB0)
LIBX.update(STREAM)
LIBX.update(PUBL)
LIBX.update({k: v for k, v in MAPL.items() if v is not None})

TFILE = 'generation/src/proof_generation/interpreter_transformer.py'
OFILE = 'generation/src/proof_generation/optimizing_interpreters.py'
CFILE = 'generation/src/proof_generation/counting_interpreter.py'
BFILE = 'generation/src/proof_generation/basic_interpreter.py'
PFILE = 'generation/src/proof_generation/proof.py'
OM = 'proof_generation.optimizing_interpreters'
ALL_METHODS = list(METHODS) + ['symbol']


def _args(interp, ctx, meth):
    if meth == 'symbol':
        return [ctx.input('name', 'name')]
    return METHODS[meth](interp, ctx)


def _tracker(repo, ctx, phase, cls_name='SerializingInterpreter', module=SI, arbitrary=True):
    cls = repo.cls(module, cls_name)
    S = ctx.input('plist', 'stack') if arbitrary else SV(PTLs.mk('ptnil'), 'plist')
    Mm = ctx.input('plist', 'memory') if arbitrary else SV(PTLs.mk('ptnil'), 'plist')
    C = ctx.input('pclaims', 'claims') if arbitrary else SV(PCLs.mk('pcnil'), 'pclaims')
    if arbitrary:
        ctx.assume(ptl_wf(S.t))
        ctx.assume(ptl_wf(Mm.t))
    attrs = {'phase': PHASE_NO[phase], '_interpreting_warnings': set(), 'stack': S, 'memory': Mm, 'claims': C, 'out': OutLog(), 'claim_out': OutLog('claim'),
             'proof_out': OutLog('proof'), '_symbol_identifiers': {}}
    if cls_name == 'CountingInterpreter':
        attrs.update({'_max_allowed_slots': 256, '_finalized': False, '_pattern_usage': {}, '_saved_by_implementation': set(), '_suggested_for_memoization': set()})
    return Obj(cls, attrs), S, Mm, C


def same_value(a, b):
    """z3 Bool: the two returned python values are the same"""
    if a is None or b is None:
        return z3.BoolVal(a is None and b is None)
    if isinstance(a, SV) and isinstance(b, SV) and a.kind == b.kind == 'ppat':
        return expand(a.t) == expand(b.t)             # python ==: patterns are compared up to notation
    if isinstance(a, SV) and isinstance(b, SV) and a.kind == b.kind:
        return a.t == b.t
    if isinstance(a, Obj) and isinstance(b, Obj) and a.cls is b.cls and 'conclusion' in a.attrs and 'conclusion' in b.attrs:
        return expand(a.attrs['conclusion'].t) == expand(b.attrs['conclusion'].t)
    return z3.BoolVal(a is b)


# ---- (T) ----------------------------------------------------------------------------------------------------------------------------------
def forward_unit(repo, cs, meth, cls_name):
    def unit(ctx):
        wcls = repo.cls(OM, cls_name)
        phase = PHASES_OF.get(meth, ['Proof'])[0]
        inner, _, _, _ = _tracker(repo, ctx, phase, arbitrary=False)
        selfo = Obj(wcls, {'phase': inner.attrs['phase'], '_interpreting_warnings': set(), 'sub_interpreter': inner, '_patterns_for_memoization': SV(None, 'patset')})
        log = []
        ret = []

        class Rec:
            def apply(self, interp, c, args, kwargs):
                log.append((list(args), dict(kwargs)))
                r = {'pattern': lambda: c.fresh('ppat', 'sub_result'), 'proved': lambda: Obj(repo.cls('proof_generation.proved', 'Proved'), {'conclusion': c.fresh('ppat', 'sub_conclusion')}),
                     'none': lambda: None}[RESULT_KIND[meth]]()
                ret.append(r)
                return r
        contracts = dict(cs)
        contracts[inner.cls.find_method(meth).qualname] = Rec()
        interp = Interp(repo, ctx, contracts)
        args = _args(interp, ctx, meth)
        ctx.cover('call')
        r = interp.run_function(wcls.find_method(meth), [selfo] + args)
        ok = len(log) == 1 and not log[0][1] and len(log[0][0]) == 1 + len(args) and log[0][0][0] is inner and all(x is y for x, y in zip(log[0][0][1:], args))
        ctx.oblige(f'post:{meth} is forwarded to the wrapped interpreter exactly once, the same arguments in the same positions', z3.BoolVal(ok), kind='post')
        ctx.oblige('post:the result of the wrapped interpreter is returned unchanged', z3.BoolVal(len(ret) == 1 and (r is ret[0])), kind='post')
        return None
    return unit


RESULT_KIND = {m: 'pattern' for m in ('evar', 'svar', 'symbol', 'implies', 'app', 'exists', 'mu', 'esubst', 'ssubst', 'metavar', 'instantiate_pattern')}
RESULT_KIND.update({m: 'proved' for m in ('prop1', 'prop2', 'prop3', 'modus_ponens', 'exists_quantifier', 'exists_generalization', 'instantiate')})
RESULT_KIND.update({m: 'none' for m in ('pop', 'save', 'load', 'publish_axiom', 'publish_claim', 'publish_proof')})


def inst_optimizer_unit(repo, cs, meth):
    def unit(ctx):
        wcls = repo.cls(OM, 'InstantiationOptimizer')
        bcls = repo.cls('proof_generation.basic_interpreter', 'BasicInterpreter')
        inner, _, _, _ = _tracker(repo, ctx, 'Proof', arbitrary=False)
        selfo = Obj(wcls, {'phase': 2, '_interpreting_warnings': set(), 'sub_interpreter': inner})
        log = []

        class Rec:
            def apply(self, interp, c, args, kwargs):
                log.append(list(args))
                return None
        contracts = dict(cs)
        contracts[inner.cls.find_method(meth).qualname] = Rec()
        interp = Interp(repo, ctx, contracts)
        args = METHODS[meth](interp, ctx)
        ctx.cover('call')
        r = interp.run_function(wcls.find_method(meth), [selfo] + args)
        r0 = interp.run_function(bcls.find_method(meth), [Obj(bcls, {'phase': 2, '_interpreting_warnings': set()})] + args)
        ctx.oblige('post:returns what BasicInterpreter returns', same_value(r, r0), kind='post')
        empty = PMp.is_('pnil', args[1].t)
        ok = len(log) == 1 and log[0][0] is inner and all(x is y for x, y in zip(log[0][1:], args))
        ctx.oblige('post:forwarded (once, same arguments) exactly when the map is non-empty - the plugs a thunk pushed must be consumed',
                   z3.If(empty, z3.BoolVal(len(log) == 0), z3.BoolVal(ok)), kind='post')
        return None
    return unit


# ---- (R) ----------------------------------------------------------------------------------------------------------------------------------
class NoOp:
    def apply(self, interp, ctx, args, kwargs):
        return None


def refine_unit(repo, cs, meth, phase, cls_name, module):
    def unit(ctx):
        bcls = repo.cls('proof_generation.basic_interpreter', 'BasicInterpreter')
        contracts = dict(cs)
        contracts['CountingInterpreter._collect_patterns'] = NoOp()      # bookkeeping: frame checked syntactically (counting_frame_unit), effects not modelled
        interp = Interp(repo, ctx, contracts)
        tr, S, Mm, C = _tracker(repo, ctx, phase, cls_name, module)
        args = _args(interp, ctx, meth)
        ctx.check_feasible()
        ctx.cover('call')
        r1 = interp.run_function(tr.cls.find_method(meth), [tr] + args)         # not accepted by the tracker: see (G)
        r0 = interp.run_function(bcls.find_method(meth), [Obj(bcls, {'phase': PHASE_NO[phase], '_interpreting_warnings': set()})] + args)
        ctx.oblige(f'post:{cls_name}.{meth} returns what BasicInterpreter.{meth} returns', same_value(r1, r0), kind='post')
        return None
    return unit


def counting_frame_unit(repo):
    """CountingInterpreter._collect_patterns / _compute_complexity_score write only the statistics table"""
    import ast

    def unit(ctx):
        cls = repo.cls('proof_generation.counting_interpreter', 'CountingInterpreter')
        bad = []
        for name in ('_collect_patterns', '_compute_complexity_score'):
            f = cls.find_method(name)
            for n in ast.walk(f.node):
                tgts = []
                if isinstance(n, ast.Assign):
                    tgts = n.targets
                elif isinstance(n, (ast.AugAssign, ast.AnnAssign)):
                    tgts = [n.target]
                for t in tgts:
                    base = t
                    while isinstance(base, ast.Subscript):
                        base = base.value
                    if isinstance(base, ast.Attribute):
                        if not (isinstance(base.value, ast.Name) and base.value.id in ('self', 'stats') and base.attr in ('_pattern_usage', 'used_patterns')):
                            bad.append(f'{name}: line {n.lineno} writes {ast.unparse(t)}')
                if isinstance(n, ast.Call) and isinstance(n.func, ast.Attribute) and isinstance(n.func.value, ast.Name) and n.func.value.id == 'self' \
                        and n.func.attr not in ('_collect_patterns', '_compute_complexity_score'):
                    bad.append(f'{name}: line {n.lineno} calls self.{n.func.attr}')
        ctx.cover('frame')
        ctx.oblige('frame:the statistics helpers assign only to the statistics table and call only each other: ' + '; '.join(bad), z3.BoolVal(not bad), kind='post')
        return None
    return unit


# ---- (G) ----------------------------------------------------------------------------------------------------------------------------------
def good_thunk(repo, ctx, conc, tag):
    """an argument thunk that is good: its effect on a tracker is 'push Proved(c)', c == conc"""
    tcls = repo.cls('proof_generation.proof', 'ProofThunk')
    prcls = repo.cls('proof_generation.proved', 'Proved')

    def run(interp, args, kwargs):
        it = args[0]
        c = ctx.fresh('ppat', tag + '_dynamic_conclusion')
        ctx.assume(z3.And(expand(c.t) == expand(conc.t), pwf(c.t)))
        pr = Obj(prcls, {'conclusion': c})
        t = tracker_of(it)
        if 'stack' in t.attrs:
            t.attrs['stack'] = SV(PTLs.mk('ptcons', PTR.mk('PyPrf', c.t), interp.plist_of(t.attrs['stack'])), 'plist')
        return pr
    return Obj(tcls, {'_expr': Builtin('good_thunk_' + tag, run), 'conc': conc})


class ItemsLoop(LoopContract):
    """for idn, p in delta.items(): delta[idn] = interpreter.pattern(p)        (ProofExp.dynamic_inst)
    invariant:  the remaining items r are a suffix of the original map m;  delta has the same expansion as m (values are replaced by equal patterns);
                pushall(expand*(r), ex_stack(stack now)) == pushall(expand*(m), ex_stack(stack at entry))        (remaining-work form)"""
    def __init__(self, tr, m):
        self.tr, self.m = tr, m

    def entry(self, interp, ctx, env, it):
        if not (isinstance(it, _MapView) and it.which == 'items' and it.m.t.eq(self.m)):
            raise Unsupported('the loop is not `for .. in delta.items()`: the loop contract does not apply')
        self.X0 = ex_stack(interp.plist_of(self.tr.attrs['stack']))
        self.M = expandmap(self.m)
        self.G = pushall(self.M, self.X0)
        self.mem0 = ex_mem(interp.plist_of(self.tr.attrs['memory']))

    def arbitrary_iteration(self, interp, ctx, env, it):
        r, st, dc = ctx.fresh('pmap', 'remaining'), ctx.fresh('plist', 'stack_now'), ctx.fresh('pmap', 'delta_now')
        R = expandmap(r.t)
        ctx.assume(z3.And(PMp.is_('pcons', r.t), pmwf(r.t), ptl_wf(st.t), pmwf(dc.t), msuffix(R, self.M), expandmap(dc.t) == self.M, pushall(R, ex_stack(st.t)) == self.G))
        self.tr.attrs['stack'] = st
        env.set('delta', dc)
        self.r, self.dc = r, dc
        for ln, args in (('msuffix_head', [R, self.M]), ('msuffix_tail', [R, self.M]), ('expandmap_has', [dc.t, PMp.get('pcons', 'pkey', r.t)]),
                         ('expandmap_get', [dc.t, PMp.get('pcons', 'pkey', r.t)])):
            ctx.lemma_fact(ln, LIBX[ln].inst(*args))
        k = PMp.get('pcons', 'pkey', r.t)
        return (SV(k, 'int'), SV(PMp.get('pcons', 'pval', r.t), 'ppat'))

    def after_iteration(self, interp, ctx, env, it, elem):
        now = ex_stack(interp.plist_of(self.tr.attrs['stack']))
        d2 = env.get('delta')
        rest = expandmap(PMp.get('pcons', 'ptl', self.r.t))
        k = PMp.get('pcons', 'pkey', self.r.t)
        ctx.lemma_fact('mset_same', LIBX['mset_same'].inst(self.M, k, MMp.get('mcons', 'mval', expandmap(self.r.t))))
        ctx.oblige('loop-inv:what remains to be pushed, pushed on the stack as it is now, is the final stack', pushall(rest, now) == self.G, kind='inv')
        ctx.oblige('loop-inv:the remaining items are still a suffix of the map', msuffix(rest, self.M), kind='inv')
        ctx.oblige('loop-inv:delta keeps its keys, order and (up to notation) values', z3.And(expandmap(interp.as_pmap(d2)) == self.M, pmwf(interp.as_pmap(d2))), kind='inv')
        ctx.oblige('loop-inv:memory untouched, stack well-formed', z3.And(ex_mem(interp.plist_of(self.tr.attrs['memory'])) == self.mem0, ptl_wf(interp.plist_of(self.tr.attrs['stack']))), kind='inv')

    def exit(self, interp, ctx, env, it):
        st, df = ctx.fresh('plist', 'stack_after_plugs'), ctx.fresh('pmap', 'delta_after')
        ctx.assume(z3.And(ptl_wf(st.t), ex_stack(st.t) == self.G, pmwf(df.t), expandmap(df.t) == self.M))
        self.tr.attrs['stack'] = st
        env.set('delta', df)
        top = tl_taken(self.G, mlen(self.M))
        for ln, args in (('pushall_views', [self.M, self.X0]), ('tl_allpat_eq', [top, ex_stack(pm_values(df.t))]), ('pm_values_pats', [df.t]), ('pm_values_allpat', [df.t]),
                         ('mlen_nonneg', [self.M]), ('mlen_zero', [self.M])):
            ctx.lemma_fact(ln, LIBX[ln].inst(*args))


ALLOWED_SITES = ('BasicInterpreter.', 'Pattern.', 'Implies.', 'callee ')


def dsl_unit(repo, cs, rule, k=None):
    """k: number of entries of the instantiation map (dynamic_inst / instantiate only; a bounded stand-in in that dimension)"""
    def unit(ctx):
        pcls = repo.cls('proof_generation.proof', 'ProofExp')
        contracts = dict(cs)
        contracts['Interpreter.pattern'] = PatternIH()
        interp = Interp(repo, ctx, contracts)
        tr, S, Mm, C = _tracker(repo, ctx, 'Proof')
        me = Obj(pcls, {'_axioms': ctx.input('plist', 'axioms'), '_claims': SV(PTLs.mk('ptnil'), 'plist'), '_submodules': SV(IDL.mk('inil'), 'idl', 'module'),
                        '_proof_expressions': [], '_notations': []})
        pre = []
        if rule in ('prop1', 'prop2', 'prop3', 'exists_quantifier'):
            args = []
        elif rule == 'modus_ponens':
            args = [good_thunk(repo, ctx, _p(ctx, 'left_conc'), 'left'), good_thunk(repo, ctx, _p(ctx, 'right_conc'), 'right')]
        elif rule == 'exists_generalization':
            args = [good_thunk(repo, ctx, _p(ctx, 'premise_conc'), 'premise'), interp.mk_pat('EVar', [ctx.input('int', 'var')])]
        elif rule in ('dynamic_inst', 'instantiate') and k is None:
            dm = ctx.input('pmap', 'delta')
            ctx.assume(z3.And(pmwf(dm.t), mdistinct(expandmap(dm.t))))           # a python dict: distinct keys
            args = [good_thunk(repo, ctx, _p(ctx, 'premise_conc'), 'premise'), dm]
            interp.loop_contracts = {('ProofExp.dynamic_inst.<locals>.proved_exp', 0): ItemsLoop(tr, dm.t)}
        elif rule in ('dynamic_inst', 'instantiate'):
            d = {}
            for i in range(k):
                key = ctx.input('int', f'key{i}')
                ctx.assume(z3.And(*[key.t != o.t for o in d]))
                d[key] = _p(ctx, f'plug{i}')
            args = [good_thunk(repo, ctx, _p(ctx, 'premise_conc'), 'premise'), d]
        elif rule == 'load_axiom':
            ax = _p(ctx, 'axiom')
            args = [ax]
            # established by the gamma phase (publish_axiom appends Proved(axiom) to the tracker memory): every declared axiom is in memory
            pre.append(tl_has(ex_mem(Mm.t), TRM.mk('Prf', expand(ax.t))))
        elif rule == 'publish_proof':
            cc = _p(ctx, 'premise_conc')
            args = [good_thunk(repo, ctx, cc, 'premise')]
            # module-level order (ProofExp.execute_proofs_phase runs the proof expressions in claim order): the next open claim is this conclusion
            pre.append(z3.And(PCLs.is_('pccons', C.t), expand(PCLs.get('pccons', 'pchd', C.t)) == expand(cc.t)))
        for c in pre:
            ctx.assume(c)
        ctx.check_feasible()
        T = interp.run_function(pcls.find_method(rule), [me] + args)         # rule refused when the thunk is BUILT: refused for every interpreter alike
        ctx.cover('thunk built')
        conc = T.attrs['conc']
        S0 = ex_stack(interp.plist_of(tr.attrs['stack']))
        try:
            r = interp.call(T, [tr], {})
        except SymRaise as e:
            where = e.where or ''
            if e.cls == 'ValueError' or any(where.startswith(a) or ('/' + a) in where for a in ALLOWED_SITES):
                return None          # BasicInterpreter's own check (fails under every interpreter) / an id above 255 (refused by design, C03)
            ctx.oblige(f'noraise:a thunk built by ProofExp.{rule} from good thunks must not trip the tracker or the ProofThunk check ({e.cls} at {where})', z3.BoolVal(False), kind='noraise')
            return None
        ctx.oblige('post:the dynamic conclusion is the advertised one', expand(r.attrs['conclusion'].t) == expand(conc.t), kind='post')
        if rule == 'publish_proof':
            return None
        ctx.oblige('post:the stack grows by exactly the proved conclusion (the thunk is good again)',
                   ex_stack(interp.plist_of(tr.attrs['stack'])) == TLs.mk('tcons', TRM.mk('Prf', expand(conc.t)), S0), kind='post')
        return None
    return unit


# ---- bounded differential stand-in over all interpreters and stacks -------------------------------------------------------------------------
DIFF_PRELUDE = r"""
import io, random
from proof_generation.basic_interpreter import BasicInterpreter
from proof_generation.stateful_interpreter import StatefulInterpreter
from proof_generation.counting_interpreter import CountingInterpreter
from proof_generation.serializing_interpreter import SerializingInterpreter
from proof_generation.pretty_printing_interpreter import PrettyPrintingInterpreter
from proof_generation.optimizing_interpreters import MemoizingInterpreter, InstantiationOptimizer
from proof_generation.interpreter import ExecutionPhase
from proof_generation.proof import ProofExp
from proof_generation.proofs.propositional import Propositional
from proof_generation.pattern import *

P = ExecutionPhase.Proof
def _stacks():
    ser = lambda: SerializingInterpreter(P, io.BytesIO(), [], io.BytesIO(), io.BytesIO())
    pp = lambda: PrettyPrintingInterpreter(P, io.StringIO(), [], io.StringIO(), io.StringIO())
    return {'basic': lambda: BasicInterpreter(P), 'stateful': lambda: StatefulInterpreter(P), 'counting': lambda: CountingInterpreter(P), 'serializing': ser, 'pretty': pp,
            'memo(ser)': lambda: MemoizingInterpreter(ser(), set()), 'instopt(ser)': lambda: InstantiationOptimizer(ser()), 'instopt(basic)': lambda: InstantiationOptimizer(BasicInterpreter(P)),
            'memo(instopt(pretty))': lambda: MemoizingInterpreter(InstantiationOptimizer(pp()), set()), 'instopt(memo(stateful))': lambda: InstantiationOptimizer(MemoizingInterpreter(StatefulInterpreter(P), set()))}

def _pat(rng, d=2):
    k = rng.randint(0, 7 if d > 0 else 2)
    if k == 0: return EVar(rng.randint(0, 2))
    if k == 1: return Symbol('s%d' % rng.randint(0, 2))
    if k == 2:
        if rng.random() < 0.6: return MetaVar(rng.randint(0, 3))
        return MetaVar(rng.randint(0, 3), positive=tuple(SVar(i) for i in rng.sample(range(3), rng.randint(0, 2))), negative=tuple(SVar(i) for i in rng.sample(range(3), rng.randint(0, 1))))
    if k in (3, 4): return Implies(_pat(rng, d - 1), _pat(rng, d - 1))
    if k == 5: return App(_pat(rng, d - 1), _pat(rng, d - 1))
    if k == 6: return Exists(rng.randint(0, 2), _pat(rng, d - 1))
    return Instantiate(Implies(MetaVar(0), MetaVar(1)), frozendict({1: _pat(rng, d - 1), 0: _pat(rng, d - 1)}) if rng.random() < 0.5 else frozendict({0: _pat(rng, d - 1), 1: _pat(rng, d - 1)}))

def _expr(rng, prop, d):
    k = rng.randint(0, 9 if d > 0 else 3)
    if k == 0: return prop.prop1()
    if k == 1: return prop.prop2()
    if k == 2: return prop.prop3()
    if k == 3: return prop.exists_quantifier()
    if k in (4, 5):
        base = _expr(rng, prop, d - 1)
        keys = rng.sample(range(4), rng.randint(0, 3))
        delta = {i: _pat(rng, 1) for i in keys}
        if rng.random() < 0.3 and keys:
            delta[keys[0]] = MetaVar(keys[0])            # identity entry
        return (prop.dynamic_inst if k == 4 else prop.instantiate)(base, delta)
    if k == 6: return prop.imp_refl(_pat(rng, 1))
    if k == 7:
        a, b = _pat(rng, 1), _pat(rng, 1)
        return prop.modus_ponens(prop.dynamic_inst(prop.prop1(), {0: Implies(a, a), 1: b}), prop.imp_refl(a))
    if k == 8: return prop.imp_transitivity(prop.imp_refl(_pat(rng, 1)), prop.imp_refl(MetaVar(7))) if False else prop.imp_provable(_pat(rng, 1), prop.imp_refl(_pat(rng, 1)))
    q = prop.exists_quantifier()
    return prop.exists_generalization(prop.dynamic_inst(q, {0: _pat(rng, 0)}) if rng.random() < 0.5 else q, EVar(0))

def _c08_diff(seed, n):
    rng = random.Random(seed)
    prop = Propositional()
    done = 0
    # direct interpreter calls with an empty instantiation on a non-empty stack (translate.py instantiates with whatever map it computed)
    outcome = {}
    for name in ('basic', 'stateful', 'serializing', 'instopt(ser)'):
        i = _stacks()[name]()
        try:
            i.evar(1); pr = i.prop1(); r = i.instantiate(pr, {}); outcome[name] = ('ok', r.conclusion)
        except BaseException as ex:
            outcome[name] = ('raise', type(ex).__name__)
    if len({v[0] for v in outcome.values()}) > 1:
        return ('fail', 'interpreters disagree on evar(1); prop1(); instantiate(prop1, {}): ' + repr({k: v[0] for k, v in outcome.items()}), '', 0)
    # interpreters that are handed the SAME list of claims, one after the other (ProofExp.serialize does so when optimising): every one must see every claim
    from proof_generation.claim import Claim
    cl = [Claim(Implies(MetaVar(0), MetaVar(0))), Claim(Implies(MetaVar(1), MetaVar(1)))]
    shared = {'stateful': lambda: StatefulInterpreter(P, cl), 'counting': lambda: CountingInterpreter(P, cl),
              'serializing': lambda: SerializingInterpreter(P, io.BytesIO(), cl, io.BytesIO(), io.BytesIO()),
              'pretty': lambda: PrettyPrintingInterpreter(P, io.StringIO(), cl, io.StringIO(), io.StringIO()),
              'memo(ser)': lambda: MemoizingInterpreter(SerializingInterpreter(P, io.BytesIO(), cl, io.BytesIO(), io.BytesIO()), set())}
    for rnd in (1, 2):
        for name, mk in shared.items():
            i = mk()
            try:
                for k in (0, 1):
                    i.publish_proof(prop.imp_refl(MetaVar(k))(i))
                out = 'ok'
            except BaseException as ex:
                out = 'raise ' + type(ex).__name__
            if out != 'ok' or len(cl) != 2:
                return ('fail', 'round %d, %s on a claims list shared with the interpreters before it: %s; the caller\'s list now has %d of 2 claims' % (rnd, name, out, len(cl)), '', 0)
    for case in range(n):
        st = rng.getstate()
        try:
            e = _expr(rng, prop, 2)
        except BaseException:
            continue                     # refused when built: the same for every interpreter
        done += 1
        res = {}
        for name, mk in _stacks().items():
            rng2 = random.Random(); rng2.setstate(st)
            e2 = _expr(rng2, Propositional(), 2)          # fresh thunks per run (dynamic_inst mutates its map)
            try:
                r = e2(mk()); res[name] = ('ok', r.conclusion)
            except BaseException as ex:
                res[name] = ('raise', type(ex).__name__)
        kinds = {v[0] for v in res.values()}
        if len(kinds) > 1:
            return ('fail', 'interpreters disagree on success: ' + repr({k: v[0] if v[0] == 'ok' else v for k, v in res.items()}), repr(e.conc), done)
        if kinds == {'ok'}:
            for name, v in res.items():
                if v[1] != e.conc:
                    return ('fail', 'conclusion under %s is %s, advertised %s' % (name, v[1], e.conc), repr(e.conc), done)
    return ('ok', done)
"""


def diff_bounded(unit_name, root, tier, seed):
    from vc import replay as rp
    n = 120 if tier == 'quick' else 1500
    jobs = [{'expr': f'_c08_diff({seed}, {n})'}]
    real = rp.run_real(jobs, prelude=DIFF_PRELUDE, root=root)[0]
    rp.check_driver(real)
    if not real['ok']:
        return {'expr': jobs[0]['expr'], 'real': real, 'failed_clause': 'bounded driver raised: ' + str(real.get('exc'))}, 0
    d = rp.repr_to_data(real['repr'])
    if d[0] == 'tuple' and d[1] == 'ok':
        return None, d[2]
    return {'expr': jobs[0]['expr'], 'real': real, 'failed_clause': str(d[2])}, n


def accept_unit(repo, cs, meth, k):
    """stack discipline is sufficient: with the k plugs (map order) and then the target on top of an arbitrary stack, the tracker accepts
    instantiate / instantiate_pattern whenever BasicInterpreter does (k entries: a bound in that dimension)"""
    def unit(ctx):
        interp = Interp(repo, ctx, cs)
        tr, S, Mm, C = _tracker(repo, ctx, 'Proof')
        d, st = {}, S.t
        for i in range(k):
            key = ctx.input('int', f'key{i}')
            ctx.assume(z3.And(*[key.t != o.t for o in d]))
            d[key] = _p(ctx, f'plug{i}')
            st = PTLs.mk('ptcons', PTR.mk('PyPat', d[key].t), st)
        if meth == 'instantiate':
            target = _proved(interp, ctx, 'proved')
            st = PTLs.mk('ptcons', PTR.mk('PyPrf', target.attrs['conclusion'].t), st)
        else:
            target = _p(ctx, 'pattern')
            st = PTLs.mk('ptcons', PTR.mk('PyPat', target.t), st)
        tr.attrs['stack'] = SV(st, 'plist')
        ctx.check_feasible()
        ctx.cover('call')
        try:
            interp.run_function(tr.cls.find_method(meth), [tr, target, d])
        except SymRaise as e:
            where = e.where or ''
            if e.cls == 'ValueError' or any(where.startswith(a) for a in ALLOWED_SITES):
                return None
            ctx.oblige(f'noraise:the tracker must accept {meth} when the plugs and the target are on top of the stack ({e.cls} at {where})', z3.BoolVal(False), kind='noraise')
            return None
        want = PTLs.mk('ptcons', interp.to_pterm(_last(interp, tr)), S.t)
        ctx.oblige('post:plugs and target are replaced by the result', ex_stack(interp.plist_of(tr.attrs['stack'])) == ex_stack(want), kind='post')
        return None
    return unit


def _last(interp, tr):
    return interp.getitem(tr.attrs['stack'], -1)
